"""In-place effects on containers (dict / list / model objects) and what those containers share storage with.

origins(prog, fi, expr): the tokens the container `expr` may share with at the point it is used in function fi
    'self.params'          the instance's run / mpe parameter object or something inside it
    'global:<mod>.<NAME>'  a module-level container (NAME = {...} / [...] / dict(...) at module level)
    'classattr:<NAME>'     a class-level container reached through self / cls / the class
    '<p>' / '<p>.*'        the object handed in as parameter p / something inside it
Shallow copies (model_copy / copy.copy / .copy() / dict(x)) give a new outer object whose nested containers are still shared.
shared_at_callers(...) follows parameter tokens to the callers inside the package (three call levels)."""
import ast

from . import astq
from .program import FuncInfo

CONTAINER_MUTATORS = {"pop", "popitem", "update", "clear", "setdefault", "append", "extend", "insert", "remove", "sort", "reverse", "__setitem__", "__delitem__"}
PARAM_ATTRS = ("run_params", "mpe_params")
SHARING_READS = {"get", "values", "items", "model_copy", "copy"}      # shallow: what they hand out still shares the nested containers
FRESH_CALLS = {"dict", "list", "set", "tuple", "sorted", "copy.deepcopy", "model_dump", "deepcopy"}


def origins(prog, fi, expr, depth=3, both=False):
    """what the container `expr` may share with: 'self.params' (the instance's run/mpe parameters or something inside them) and/or
    parameter names of fi.  Shallow copies (model_copy / copy.copy / .copy()) of a parameter object still share its nested containers, so
    a FIELD read from one shares; the copy itself, used as a mapping, does not."""
    pos, kwo, va, kwa = astq.params_of(fi.node)
    params = set(pos + kwo) - {"self", "cls"}
    for x in (va, kwa):
        if x:
            params.add(x.arg)
    # org[name] = (origins of the object, origins of what is nested inside it)
    # tokens: `p` - the object handed in as parameter p; `p.*` - something inside it; 'self.params'
    org = {p_: ({p_}, {p_ + ".*"}) for p_ in params}

    local_names = {n.id for n in ast.walk(fi.node) if isinstance(n, ast.Name) and isinstance(n.ctx, (ast.Store, ast.Del))} | params

    def of(e):
        """(shares as an object, contents share)"""
        if isinstance(e, ast.Name):
            if e.id not in org and e.id not in local_names:
                g = prog.lookup(fi.mod, e.id)
                if isinstance(g, tuple) and g[0] == "global" and _is_container_display(g[1]):
                    t = f"global:{g[2] if len(g) > 2 else fi.mod}.{e.id}"
                    return {t}, {t}
            a, b = org.get(e.id, (set(), set()))
            return set(a), set(b)
        if isinstance(e, ast.Attribute):
            if isinstance(e.value, ast.Name) and e.value.id in ("self", "cls") and fi.cls is not None and e.attr not in PARAM_ATTRS:
                c, ca = prog.find_classattr(fi.cls, e.attr)
                if ca is not None and _is_container_display(ca):
                    # a class-level table read through the instance (unless the instance has been given its own: not followed)
                    t = f"classattr:{e.attr}"
                    return {t}, {t}
            if isinstance(e.value, ast.Name) and e.value.id == "self":
                return ({"self.params"}, {"self.params"}) if e.attr in PARAM_ATTRS else (set(), set())
            a, b = of(e.value)
            return set(b), set(b)                  # a field of X is part of X's contents
        if isinstance(e, ast.Subscript):
            a, b = of(e.value)
            return set(b), set(b)
        if isinstance(e, ast.Starred):
            return of(e.value)
        if isinstance(e, (ast.Tuple, ast.List)):
            r = set()
            for x in e.elts:
                r |= of(x)[0]
            return set(), r
        if isinstance(e, ast.Dict):
            r = set()
            for k_, x in zip(e.keys, e.values):
                a, b = of(x)
                r |= (b if k_ is None else a)
            return set(), r
        if isinstance(e, ast.IfExp):
            a1, b1 = of(e.body)
            a2, b2 = of(e.orelse)
            return a1 | a2, b1 | b2
        if isinstance(e, ast.BoolOp):
            a, b = set(), set()
            for x in e.values:
                a1, b1 = of(x)
                a |= a1
                b |= b1
            return a, b
        if isinstance(e, ast.Call):
            nm = astq.callee_name(prog, fi, e) or ""
            if isinstance(e.func, ast.Attribute):
                meth = e.func.attr
                if meth in ("model_copy", "copy") and not any(k.arg == "deep" and not (isinstance(k.value, ast.Constant) and k.value.value is False) for k in e.keywords):
                    a, b = of(e.func.value)
                    return set(), set(b)            # a new object whose fields are the same objects
                if meth in ("get", "pop", "setdefault"):
                    a, b = of(e.func.value)
                    return set(b), set(b)
                if meth in ("values", "items"):
                    a, b = of(e.func.value)
                    return set(), set(b)
            if nm in ("copy.copy",) and e.args:
                a, b = of(e.args[0])
                return set(), set(b)
            if nm in ("dict", "list", "tuple") and e.args:
                a, b = of(e.args[0])
                return set(), set(b)                # new outer container, same inner objects
            if nm in ("getattr",) and len(e.args) >= 2:
                a, b = of(e.args[0])
                return set(b), set(b)
            r = prog.resolve_call(fi, e)
            if isinstance(r, FuncInfo) and is_memoised(r):
                t = f"memo:{r.qual}"            # the ONE object the cache hands to every caller with these arguments
                return {t}, {t}
            if isinstance(r, FuncInfo) and depth > 0 and r.node is not fi.node:
                # what the helper returns, in terms of its own parameters and the instance's parameters
                ra, rb = set(), set()
                for ret in astq.own_returns(r.node) if hasattr(astq, "own_returns") else [x for x in ast.walk(r.node) if isinstance(x, ast.Return)]:
                    if ret.value is not None:
                        a1, b1 = origins(prog, r, ret.value, depth - 1, both=True)
                        ra |= a1
                        rb |= b1
                on_self = isinstance(e.func, ast.Attribute) and isinstance(e.func.value, ast.Name) and e.func.value.id == "self"
                m_, errs = astq.bind_args(r.node, e, bound=isinstance(e.func, ast.Attribute) and r.cls is not None and not getattr(r, "is_static", False))

                def back(orgs):
                    out = set()
                    for o in orgs:
                        if o == "self.params" or o.startswith("classattr:"):
                            if on_self:
                                out.add(o)
                            continue
                        if o.startswith("global:"):
                            out.add(o)
                            continue
                        inner = o.endswith(".*")
                        pn = o[:-2] if inner else o
                        for x in _arg_candidates(r.node, e, m_, pn):
                            out |= of(x)[1 if inner else 0]
                    return out
                return back(ra), back(rb)
            return set(), set()
        if isinstance(e, ast.NamedExpr):
            return of(e.value)
        if isinstance(e, ast.DictComp):
            return set(), of(e.value)[0]
        if isinstance(e, (ast.ListComp, ast.SetComp, ast.GeneratorExp)):
            return set(), of(e.elt)[0]
        return set(), set()
    changed = True
    while changed:
        changed = False
        for n in ast.walk(fi.node):
            pairs = []
            if isinstance(n, (ast.Assign, ast.AnnAssign)) and getattr(n, "value", None) is not None:
                tg = n.targets if isinstance(n, ast.Assign) else [n.target]
                for t in tg:
                    if isinstance(t, ast.Name):
                        pairs.append((t.id, of(n.value)))
                    elif isinstance(t, (ast.Tuple, ast.List)):
                        if isinstance(n.value, (ast.Tuple, ast.List)) and len(n.value.elts) == len(t.elts) and not any(isinstance(x, ast.Starred) for x in t.elts + n.value.elts):
                            for tt, vv in zip(t.elts, n.value.elts):
                                if isinstance(tt, ast.Name):
                                    pairs.append((tt.id, of(vv)))
                        else:
                            a, b = of(n.value)
                            for tt in t.elts:
                                tt = tt.value if isinstance(tt, ast.Starred) else tt
                                if isinstance(tt, ast.Name):
                                    pairs.append((tt.id, (set(b), set(b))))
            elif isinstance(n, ast.NamedExpr) and isinstance(n.target, ast.Name):
                pairs.append((n.target.id, of(n.value)))
            elif isinstance(n, (ast.For, ast.comprehension)):
                a, b = of(n.iter)
                for tt in ([n.target] if isinstance(n.target, ast.Name) else list(ast.walk(n.target))):
                    if isinstance(tt, ast.Name):
                        pairs.append((tt.id, (set(b), set(b))))
            elif isinstance(n, ast.With):
                for it in n.items:
                    if isinstance(it.optional_vars, ast.Name):
                        pairs.append((it.optional_vars.id, of(it.context_expr)))
            for nm_, (a, b) in pairs:
                a0, b0 = org.get(nm_, (set(), set()))
                if (a - a0) or (b - b0):
                    org[nm_] = (a0 | a, b0 | b)
                    changed = True
    return of(expr) if both else of(expr)[0]


def is_memoised(fi):
    """decorated with functools.lru_cache / functools.cache (with or without arguments)"""
    for d in getattr(fi.node, "decorator_list", []):
        x = d.func if isinstance(d, ast.Call) else d
        if astq.src(x).split(".")[-1] in ("lru_cache", "cache", "cached", "memoize"):
            return True
    return False


ARRAY_MUTATORS = {"fill", "sort", "resize", "itemset", "put", "partition", "setfield", "byteswap"}


def _is_container_display(v):
    return isinstance(v, (ast.Dict, ast.List, ast.Set, ast.DictComp, ast.ListComp, ast.SetComp)) or \
        (isinstance(v, ast.Call) and isinstance(v.func, ast.Name) and v.func.id in ("dict", "list", "set", "defaultdict", "OrderedDict"))


def container_effects(fi):
    """[(node, container expression, description)] of in-place effects on dict / list / model objects"""
    out = []
    for n in ast.walk(fi.node):
        if isinstance(n, ast.Call) and isinstance(n.func, ast.Attribute) and n.func.attr in CONTAINER_MUTATORS | ARRAY_MUTATORS:
            out.append((n, n.func.value, f"`{astq.src(n, 50)}`"))
        elif isinstance(n, ast.Call) and any(k.arg == "out" and isinstance(k.value, (ast.Name, ast.Attribute, ast.Subscript)) for k in n.keywords):
            o_ = next(k.value for k in n.keywords if k.arg == "out")
            out.append((n, o_.value if isinstance(o_, ast.Subscript) else o_, f"`{astq.src(n, 50)}` (result written into `{astq.src(o_, 30)}`)"))
        elif isinstance(n, ast.AugAssign) and isinstance(n.target, (ast.Name, ast.Attribute)):
            out.append((n, n.target, f"`{astq.src(n, 50)}` (in place for arrays and lists)"))
        elif isinstance(n, (ast.Assign, ast.AugAssign, ast.AnnAssign)):
            for t in (n.targets if isinstance(n, ast.Assign) else [n.target]):
                for tt in (t.elts if isinstance(t, (ast.Tuple, ast.List)) else [t]):
                    if isinstance(tt, ast.Subscript):
                        out.append((n, tt.value, f"item store `{astq.src(tt, 40)} = ...`"))
                    # field stores (`rp.sel_freq = sel_freq`) are the explicit setters of mpe(): not an effect inside a container
        elif isinstance(n, ast.Delete):
            for tt in n.targets:
                if isinstance(tt, ast.Subscript):
                    out.append((n, tt.value, f"`del {astq.src(tt, 40)}`"))
    return out


_CALLERS = {}


def _callers(prog, fi):
    """[(calling function, call node)] of fi inside the package (reverse call map, built once per program)"""
    rev = _CALLERS.get(id(prog))
    if rev is None:
        rev = {}
        for g in prog.functions.values():
            for c, r in prog.calls_in(g):
                if isinstance(r, FuncInfo) and r.node is not g.node:
                    rev.setdefault(id(r.node), []).append((g, c))
        _CALLERS.clear()
        _CALLERS[id(prog)] = rev
    return rev.get(id(fi.node), [])


def describe(tok):
    if tok == "self.params":
        return "the instance's parameters"
    if tok.startswith("global:"):
        return f"the module-level table `{tok[7:].split('.')[-1]}`"
    if tok.startswith("classattr:"):
        return f"the class-level table `{tok[10:]}` (shared by all instances)"
    if tok.startswith("memo:"):
        return f"the value memoised by `{tok[5:].split('.')[-1]}` (the cache hands the same object to every later call with these arguments)"
    return tok


def _arg_candidates(callee, call, m_, pn):
    """the argument expressions that may end up in parameter pn of callee at this call"""
    a_ = m_.get(pn)
    if isinstance(a_, ast.AST):
        return [a_]
    for k in call.keywords:
        if k.arg == pn:
            return [k.value]
    va, kwa = callee.args.vararg, callee.args.kwarg
    out = []
    if va is not None and va.arg == pn:
        return list(call.args)
    if kwa is not None and kwa.arg == pn:
        return [k.value for k in call.keywords]
    if any(isinstance(x, ast.Starred) for x in call.args):
        out += list(call.args)                      # positions after a spread are not known
    out += [k.value for k in call.keywords if k.arg is None]
    return out


def shared_at_callers(prog, fi, orgs, depth=3, seen=(), want=None):
    """True: the value shares storage with something `want` selects (default: the instance's run / mpe parameters); False: it does
    not; None: not decided"""
    origins_ = orgs
    want = want or (lambda t: t == "self.params")
    hits = sorted(t for t in origins_ if want(t))
    if hits:
        return True, f"is (part of) {describe(hits[0])} in {fi.node.name}"
    origins_ = {t for t in origins_ if not t.startswith(("global:", "classattr:", "memo:")) and t != "self.params"}
    if not origins_:
        return False, ""
    if depth == 0 or fi.qual in seen:
        return None, "call chain too long"
    und = None
    for g, c in _callers(prog, fi):
        m_, errs = astq.bind_args(fi.node, c, bound=isinstance(c.func, ast.Attribute) and fi.cls is not None and not getattr(fi, "is_static", False))
        for p_ in origins_:
            inner = p_.endswith(".*")
            pn = p_[:-2] if inner else p_
            if not inner and ((fi.node.args.kwarg is not None and fi.node.args.kwarg.arg == pn) or (fi.node.args.vararg is not None and fi.node.args.vararg.arg == pn)):
                continue            # **kwargs / *args are a new dict / tuple made for this call: the object itself is nobody else's
            for e_ in _arg_candidates(fi.node, c, m_, pn):
                og = origins(prog, g, e_, both=True)[1 if inner else 0]
                st, why = shared_at_callers(prog, g, og, depth - 1, seen + (fi.qual,), want)
                if st is True:
                    return True, f"{g.node.name} passes `{astq.src(e_, 30)}`, which {why}"
                if st is None:
                    und = why
    return (None, und) if und else (False, "")




def shared_state_rule(prog, run, rule, quals, what="the result of a call depends on the calls made before it"):
    """no function in `quals` changes, in place, a container that lives at module or class level (a table of defaults handed to a
    helper that fills it, a registry that is appended to): such a change survives the call, so that %s"""
    from .program import rel
    n_eff = 0

    def want(t):
        return t.startswith(("global:", "classattr:", "memo:"))
    for q in quals:
        fi = prog.functions[q]
        f = rel(prog.mods[fi.mod].path)
        bad = 0
        effs = container_effects(fi)
        for n, cont, why in effs:
            og = origins(prog, fi, cont)
            if not og:
                continue
            n_eff += 1
            st, detail = shared_at_callers(prog, fi, og, want=want)
            if st is False:
                continue
            bad += 1
            run.ob(rule, fi.qual, "no lasting effect on module / class level tables", False if st else None,
                   f"{why} changes a container that {detail}: the change outlives the call - {what}", witness=why[:80], file=f, node=n)
        if not bad:
            run.ob(rule, fi.qual, "no lasting effect on module / class level tables", True, f"{len(effs)} container effects, none on a module / class level table", file=f, node=fi.node)
    run.extra[rule + "_effects_examined"] = n_eff


# ----------------------------------------------------------------------------- results kept on the instance (memo methods)
def _self_root(e):
    """'self.a' for an attribute chain rooted at self (self.a.b[c] -> 'self.a'); None otherwise"""
    chain = []
    while isinstance(e, (ast.Attribute, ast.Subscript, ast.Call)):
        if isinstance(e, ast.Attribute):
            chain.append(e.attr)
            e = e.value
        elif isinstance(e, ast.Subscript):
            e = e.value
        else:
            e = e.func
    if isinstance(e, ast.Name) and e.id == "self" and chain:
        return "self." + chain[-1]
    return None


def memo_shapes(prog, m):
    """[(kept attribute X, node of the store, validity expressions, attributes the kept value depends on)] for a method that keeps a
    computed value on the instance and hands it out again: `self.X[key] = v` / `self.X = (key, v)` together with a look-up of self.X
    whose result is returned.  Validity = what is compared before the kept value is handed out (the key; further conjuncts of the test)."""
    node = m.node
    alias = {}          # local name -> kept attribute
    for a in ast.walk(node):
        if isinstance(a, ast.Assign) and len(a.targets) == 1 and isinstance(a.targets[0], ast.Name):
            v = a.value
            if isinstance(v, ast.Attribute) and isinstance(v.value, ast.Name) and v.value.id == "self":
                alias[a.targets[0].id] = v.attr
            elif isinstance(v, ast.Call) and isinstance(v.func, ast.Attribute) and v.func.attr in ("setdefault", "get") and astq.src(v.func.value) == "self.__dict__" \
                    and v.args and isinstance(v.args[0], ast.Constant) and isinstance(v.args[0].value, str):
                alias[a.targets[0].id] = v.args[0].value
            elif isinstance(v, ast.Call) and isinstance(v.func, ast.Name) and v.func.id == "getattr" and len(v.args) >= 2 and astq.src(v.args[0]) == "self" \
                    and isinstance(v.args[1], ast.Constant):
                alias[a.targets[0].id] = v.args[1].value

    def kept_attr(e):
        if isinstance(e, ast.Attribute) and isinstance(e.value, ast.Name) and e.value.id == "self":
            return e.attr
        if isinstance(e, ast.Name) and e.id in alias:
            return alias[e.id]
        return None
    out = []
    for st in ast.walk(node):
        if not isinstance(st, ast.Assign) or len(st.targets) != 1:
            continue
        t = st.targets[0]
        X = key = None
        if isinstance(t, ast.Subscript) and kept_attr(t.value):
            X, key = kept_attr(t.value), t.slice
        elif isinstance(t, ast.Attribute) and kept_attr(t) and isinstance(st.value, ast.Tuple) and len(st.value.elts) >= 2:
            X, key = kept_attr(t), st.value.elts[0]
        if X is None:
            continue
        # a look-up of the same attribute that is handed out
        reads = [r for r in ast.walk(node) if r is not t and kept_attr(r) == X and isinstance(getattr(r, "ctx", None), ast.Load)]
        rets = [r for r in ast.walk(node) if isinstance(r, ast.Return) and r.value is not None]
        if not reads or not rets:
            continue
        # validity: the key, and every test that guards a return of something read from X
        valid = [astq.expr_at(m, st, key)]
        names_from_X = set(n_ for n_, a_ in alias.items() if a_ == X)
        for a in ast.walk(node):
            if isinstance(a, ast.Assign) and len(a.targets) == 1 and isinstance(a.targets[0], ast.Name) and any(kept_attr(x) == X for x in ast.walk(a.value)):
                names_from_X.add(a.targets[0].id)
        for i in ast.walk(node):
            if isinstance(i, ast.If) and any(isinstance(x, ast.Name) and x.id in names_from_X for x in ast.walk(i.test)):
                valid.append(astq.expr_at(m, i, i.test))
        deps = set()
        for x in ast.walk(node):
            if isinstance(x, ast.Attribute) and isinstance(x.ctx, ast.Load):
                r_ = _self_root(x)
                if r_ and r_ not in ("self." + X, "self.__dict__", "self.name", "self.__class__") and not _in_logging(node, x):
                    deps.add(r_)
        out.append((X, st, valid, deps))
    return out


def _in_logging(fn_node, x):
    for c in ast.walk(fn_node):
        if isinstance(c, ast.Call) and isinstance(c.func, ast.Attribute) and isinstance(c.func.value, ast.Name) and c.func.value.id in ("logger", "logging", "warnings") \
                and any(y is x for y in ast.walk(c)):
            return True
    return False


def memo_rule(prog, run, rule, mod_prefixes, what="a later call works with a result computed for a state that is gone"):
    """a method that keeps its result on the instance hands it out again only while everything the result was computed from is the
    same: an attribute of the instance it reads (self.fs, self.data) is either part of the validity test (the key, an identity test), or
    every method that replaces that attribute discards what was kept"""
    from .program import rel
    n = 0
    for ci in prog.classes.values():
        if not ci.mod.startswith(tuple(mod_prefixes)):
            continue
        for m in ci.methods.values():
            for X, st, valid, deps in memo_shapes(prog, m):
                f = rel(prog.mods[m.mod].path)
                vtxt = " ".join(astq.src(v, 4000) for v in valid)
                missing = sorted(d for d in deps if d not in vtxt)
                # the classes whose instances run this method, and among their methods those that replace a missing attribute
                users = [c2 for c2 in prog.classes.values() if ci in prog.mro(c2) and any(
                    isinstance(c, ast.Call) and isinstance(c.func, ast.Attribute) and c.func.attr == m.node.name and astq.src(c.func.value) in ("self", "super()")
                    for k in prog.mro(c2) for mm in k.methods.values() for c in ast.walk(mm.node))]
                bad = []
                for A in missing:
                    attr = A[5:]
                    for c2 in users:
                        seen = set()
                        for k in prog.mro(c2):
                            for mm in k.methods.values():
                                if mm.node.name in seen:
                                    continue
                                seen.add(mm.node.name)
                                sets_A = [a for a in ast.walk(mm.node) if isinstance(a, (ast.Assign, ast.AugAssign, ast.AnnAssign)) and any(
                                    isinstance(t_, ast.Attribute) and astq.src(t_) == A for tt in (a.targets if isinstance(a, ast.Assign) else [a.target])
                                    for t_ in (tt.elts if isinstance(tt, (ast.Tuple, ast.List)) else [tt]))]
                                if not sets_A:
                                    continue
                                resets = _resets(prog, k, mm, X, 2)
                                if not resets and _foreign_reset(prog, X, mm.node.name):
                                    resets = True       # whoever calls the replacing method from outside gives the object a new self.X in the same breath
                                if not resets:
                                    bad.append((A, mm, sets_A[0], c2))
                n += 1
                if bad:
                    A, mm, a_, c2 = bad[0]
                    run.ob(rule, m.qual, f"self.{X} is kept only while what it was computed from is the same", False,
                           f"`{astq.src(st, 60)}`: handed out again when `{astq.src(valid[-1], 60)}`; the kept value also depends on {A}, which "
                           f"{mm.qual.split('.')[-2]}.{mm.node.name} replaces (`{astq.src(a_, 50)}`) without discarding self.{X} - {what}",
                           witness=f"{A} replaced in {mm.node.name}", file=f, node=st)
                else:
                    run.ob(rule, m.qual, f"self.{X} is kept only while what it was computed from is the same", True,
                           f"`{astq.src(st, 60)}`: depends on {sorted(deps)}; " + ("all part of the validity test" if not missing else f"{missing} replaced only together with self.{X}"),
                           file=f, node=st)
    if not n:
        run.ob(rule, mod_prefixes[0], "kept results", True, "no method keeps a computed result on the instance")


def _foreign_reset(prog, X, mname):
    """some function of the package assigns `<obj>.X = ..` and calls `<obj>.<mname>(..)` on the same object (the owner of the objects
    manages the kept value together with the replaced attribute)"""
    for g in prog.functions.values():
        objs = set()
        for a in ast.walk(g.node):
            if isinstance(a, ast.Assign):
                for t_ in a.targets:
                    if isinstance(t_, ast.Attribute) and t_.attr == X and not (isinstance(t_.value, ast.Name) and t_.value.id == "self"):
                        objs.add(astq.src(t_.value))
        if objs and any(isinstance(c, ast.Call) and isinstance(c.func, ast.Attribute) and c.func.attr == mname and astq.src(c.func.value) in objs for c in ast.walk(g.node)):
            return True
    return False


def _resets(prog, ci, mm, X, depth):
    """method mm (of class ci) assigns / clears self.X, itself or through a method it calls on self"""
    for a in ast.walk(mm.node):
        if isinstance(a, (ast.Assign, ast.AnnAssign)) and any(isinstance(t_, ast.Attribute) and astq.src(t_) == "self." + X
                                                              for tt in (a.targets if isinstance(a, ast.Assign) else [a.target])
                                                              for t_ in (tt.elts if isinstance(tt, (ast.Tuple, ast.List)) else [tt])):
            return True
        if isinstance(a, ast.Call) and isinstance(a.func, ast.Attribute) and a.func.attr in ("clear", "pop") and astq.src(a.func.value) == "self." + X:
            return True
        if isinstance(a, ast.Call) and isinstance(a.func, ast.Attribute) and a.func.attr in ("pop", "__delitem__") and astq.src(a.func.value) == "self.__dict__" \
                and a.args and isinstance(a.args[0], ast.Constant) and a.args[0].value == X:
            return True
    if depth > 0:
        for c in ast.walk(mm.node):
            if isinstance(c, ast.Call) and isinstance(c.func, ast.Attribute) and astq.src(c.func.value) in ("self", "super()"):
                callee = prog.find_method(ci, c.func.attr)
                if callee is not None and callee.node is not mm.node and _resets(prog, ci, callee, X, depth - 1):
                    return True
    return False


# ----------------------------------------------------------------------------- in-place operation on a local that is also known by another name
def alias_inplace_rule(prog, run, rule, quals):
    """`b = a` (also as one arm of `b = a if c else f()` / inside a tuple that is unpacked) makes b and a one object; an in-place
    operation on one of them (b /= n, np.f(.., out=b), b[..] = v) changes the other as well.  A violation when the other name is read
    afterwards (or is operated on in place as well: the operation is then applied twice to the same array)."""
    from .program import rel
    n = 0
    for q in quals:
        fi = prog.functions.get(q)
        if fi is None:
            continue
        f = rel(prog.mods[fi.mod].path)
        pairs = {}          # name -> {(other name, assignment node)}
        views = set()
        for a in ast.walk(fi.node):
            if not (isinstance(a, ast.Assign) and len(a.targets) == 1):
                continue
            t, v = a.targets[0], a.value
            arms = [v.body, v.orelse] if isinstance(v, ast.IfExp) else [v]
            for arm in arms:
                # a basic slice of an array (`b = a[:, :n]`) is a view: the same memory under another shape
                if isinstance(t, ast.Name) and isinstance(arm, ast.Subscript) and isinstance(arm.value, ast.Name) and arm.value.id != t.id \
                        and all(isinstance(z, ast.Slice) for z in astq.index_elts(arm)):
                    pairs.setdefault(t.id, set()).add((arm.value.id, a))
                    views.add((t.id, arm.value.id))
                if isinstance(t, ast.Name) and isinstance(arm, ast.Name) and arm.id != t.id:
                    pairs.setdefault(t.id, set()).add((arm.id, a))
                elif isinstance(t, (ast.Tuple, ast.List)) and isinstance(arm, (ast.Tuple, ast.List)) and len(arm.elts) == len(t.elts):
                    for tt, vv in zip(t.elts, arm.elts):
                        if isinstance(tt, ast.Name) and isinstance(vv, ast.Name) and vv.id != tt.id:
                            pairs.setdefault(tt.id, set()).add((vv.id, a))
        if not pairs:
            continue
        # evidence that a name holds an array (not a number): it is indexed, transposed, conjugated, multiplied as a matrix, reshaped ..
        arrayish = set()
        for x in ast.walk(fi.node):
            if isinstance(x, ast.Subscript) and isinstance(x.value, ast.Name):
                arrayish.add(x.value.id)
            elif isinstance(x, ast.Attribute) and isinstance(x.value, ast.Name) and x.attr in ("T", "conj", "shape", "reshape", "real", "imag", "ndim", "astype", "copy", "flatten", "ravel", "dtype"):
                arrayish.add(x.value.id)
            elif isinstance(x, ast.BinOp) and isinstance(x.op, ast.MatMult):
                for y in (x.left, x.right):
                    if isinstance(y, ast.Name):
                        arrayish.add(y.id)
        effects = []        # (name, node, text)
        for x in ast.walk(fi.node):
            if isinstance(x, ast.AugAssign) and isinstance(x.target, ast.Name):
                effects.append((x.target.id, x, f"`{astq.src(x, 40)}`"))
            elif isinstance(x, ast.Call):
                for k in x.keywords:
                    if k.arg == "out" and isinstance(k.value, ast.Name):
                        effects.append((k.value.id, x, f"`{astq.src(x, 40)}` (out=)"))
            elif isinstance(x, ast.Assign):
                for t in x.targets:
                    if isinstance(t, ast.Subscript) and isinstance(t.value, ast.Name):
                        if isinstance(x.value, ast.Subscript) and isinstance(x.value.value, ast.Name) and astq.dump(x.value.slice) == astq.dump(t.slice):
                            continue        # b[i] = a[i]: with b being a, the element keeps its value
                        effects.append((t.value.id, x, f"store into `{astq.src(t, 30)}`"))
        for nm, node, txt in effects:
            partners = set(o for o, a in pairs.get(nm, ())) | {b for b, ps in pairs.items() if any(o == nm for o, a in ps)}
            for other in sorted(partners):
                if not ({nm, other} & arrayish):
                    continue
                # the pair must have been made before the effect, and the other name be used at or after it
                made = [a for o, a in pairs.get(nm, ()) if o == other] + [a for o, a in pairs.get(other, ()) if o == nm]
                if not any(a.lineno <= node.lineno for a in made):
                    continue
                # a re-binding of either name between the pairing and the effect ends the sharing
                rebound = any(isinstance(r, ast.Assign) and any(isinstance(t, ast.Name) and t.id in (nm, other) for t in r.targets) and
                              max(a.lineno for a in made) < r.lineno < node.lineno for r in ast.walk(fi.node))
                if rebound:
                    continue
                later = [y for y in ast.walk(fi.node) if isinstance(y, ast.Name) and y.id == other and getattr(y, "lineno", 0) >= node.lineno and not any(y is z for z in ast.walk(node))]
                if not later:
                    continue
                n += 1
                twice = any(e_nm == other and e_node is not node for e_nm, e_node, _ in effects)
                run.ob(rule, fi.qual, f"`{nm}` and `{other}` may be one object", False,
                       f"{txt} works in place; `{nm}` is `{other}` itself on the path of `{astq.src(made[0], 50)}`, so `{other}` changes as well" +
                       (" - and it is operated on in place too: the operation is applied twice to the same array" if twice else " and is read afterwards"),
                       witness=f"{nm}~{other}", file=f, node=node)
                break
    if not n:
        run.ob(rule, quals[0] if quals else "-", "in-place operations on shared locals", True, "no in-place operation on a local that is also known by another name")


REMOVERS = ("pop", "popitem", "clear", "remove")


def _loop_parts(fn_node):
    """[(loop node, names bound per iteration, [nodes evaluated once per iteration])] for the for-loops and comprehensions of a function"""
    out = []
    for n in ast.walk(fn_node):
        if isinstance(n, ast.For):
            bound = {x.id for x in ast.walk(n.target) if isinstance(x, ast.Name)}
            bound |= {x.id for s_ in n.body for x in ast.walk(s_) if isinstance(x, ast.Name) and isinstance(x.ctx, ast.Store)}
            out.append((n, bound, list(n.body)))
        elif isinstance(n, (ast.ListComp, ast.SetComp, ast.GeneratorExp, ast.DictComp)):
            bound = {x.id for g in n.generators for x in ast.walk(g.target) if isinstance(x, ast.Name)}
            parts = ([n.key, n.value] if isinstance(n, ast.DictComp) else [n.elt]) + [c for g in n.generators for c in g.ifs] + [g.iter for g in n.generators[1:]]
            out.append((n, bound, parts))
    return out


def _is_bound(r, call):
    """the call fills the callee's parameters from the second one on (a method called on an object; not a static method)"""
    static = any(astq.src(d).split(".")[-1] == "staticmethod" for d in r.node.decorator_list)
    return r.cls is not None and isinstance(call.func, ast.Attribute) and not static


def _removals(prog, fi, depth=2):
    """{parameter name: description} of the parameters of fi from which entries are taken out in place (pop / popitem / clear / remove /
    del p[..]) with a key that does not depend on the other arguments, directly or in a helper the parameter is handed to"""
    pos = [a.arg for a in fi.node.args.posonlyargs + fi.node.args.args + fi.node.args.kwonlyargs]
    out = {}
    for n in ast.walk(fi.node):
        if isinstance(n, ast.Call) and isinstance(n.func, ast.Attribute) and n.func.attr in REMOVERS and isinstance(n.func.value, ast.Name) and n.func.value.id in pos:
            keynames = {x.id for a in n.args[:1] for x in ast.walk(a) if isinstance(x, ast.Name)}
            if not (keynames & (set(pos) - {n.func.value.id})):
                out.setdefault(n.func.value.id, f"`{astq.src(n, 40)}` in {fi.qual.split('.')[-1]}")
        elif isinstance(n, ast.Delete):
            for t in n.targets:
                if isinstance(t, ast.Subscript) and isinstance(t.value, ast.Name) and t.value.id in pos:
                    out.setdefault(t.value.id, f"`del {astq.src(t, 30)}` in {fi.qual.split('.')[-1]}")
        elif isinstance(n, ast.Call) and depth > 0:
            try:
                r = prog.resolve_call(fi, n)
            except Exception:
                r = None
            if r is not None and isinstance(getattr(r, "node", None), (ast.FunctionDef, ast.AsyncFunctionDef)) and r.node is not fi.node:
                sub = _removals(prog, r, depth - 1)
                if sub:
                    try:
                        m_, errs = astq.bind_args(r.node, n, bound=_is_bound(r, n))
                    except Exception:
                        continue
                    for p_, a_ in m_.items():
                        if p_ in sub and isinstance(a_, ast.Name) and a_.id in pos:
                            out.setdefault(a_.id, sub[p_])
    return out


def consumed_in_loop_rule(prog, run, rule, quals):
    """a dictionary / list that is the same object in every iteration of a loop (or comprehension) and from which the iteration takes entries
    OUT (pop with a fixed key, popitem, clear - itself or in a helper it is handed to) is complete for the first iteration only: the
    later ones find the defaults.  Reported when the key does not depend on the iteration."""
    from .program import rel
    n = 0
    for q in quals:
        fi = prog.functions.get(q)
        if fi is None:
            continue
        f = rel(prog.mods[fi.mod].path)
        for loop, bound, parts in _loop_parts(fi.node):
            for part in parts:
                for c in ast.walk(part):
                    if not isinstance(c, ast.Call):
                        continue
                    hit = None
                    if isinstance(c.func, ast.Attribute) and c.func.attr in REMOVERS and isinstance(c.func.value, ast.Name) and c.func.value.id not in bound:
                        keynames = {x.id for a in c.args[:1] for x in ast.walk(a) if isinstance(x, ast.Name)}
                        if not (keynames & bound) and (c.func.attr != "pop" or c.args):
                            hit = (c.func.value.id, f"`{astq.src(c, 40)}`")
                    else:
                        try:
                            r = prog.resolve_call(fi, c)
                        except Exception:
                            r = None
                        if r is not None and isinstance(getattr(r, "node", None), (ast.FunctionDef, ast.AsyncFunctionDef)) and r.node is not fi.node:
                            sub = _removals(prog, r)
                            if sub:
                                try:
                                    m_, errs = astq.bind_args(r.node, c, bound=_is_bound(r, c))
                                except Exception:
                                    m_ = {}
                                for p_, a_ in m_.items():
                                    if p_ in sub and isinstance(a_, ast.Name) and a_.id not in bound:
                                        # the other arguments of the call must not make the key iteration dependent: keys come from the helper
                                        hit = (a_.id, f"`{astq.src(c, 40)}` ({sub[p_]})")
                    if hit:
                        n += 1
                        run.ob(rule, fi.qual, f"`{hit[0]}` is complete in every iteration", False,
                               f"{hit[1]} takes entries out of `{hit[0]}`, which is one object for all iterations of `{astq.src(loop, 50)}`: only the first iteration sees what the caller put in",
                               witness=f"{hit[0]}:{astq.src(c, 30)}", file=f, node=c)
    if not n:
        run.ob(rule, quals[0] if quals else "-", "per-iteration removals from a loop-invariant container", True, "no iteration takes entries out of a container shared by all iterations")
