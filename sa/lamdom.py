"""Arrays as comprehensions over their indices ("lambda domain").

A numpy expression is evaluated to  Lam(dims, body): `body` is a SCALAR Python expression (an ast) in the index variables of `dims`
- the value of the array at that index.  Vectorised code and the loop it replaces evaluate to the same scalar expression:

    f_prev = Fn[:, o - 1] ; f_cur = Fn[:, o]
    dist   = np.abs(f_prev[:, None] - f_cur[None, :])         Lam([a, b], abs(Fn[a, o-1] - Fn[b, o]))
    rows   = np.flatnonzero(~np.isnan(dist).all(axis=0))       Lam([b | filter], b)         (the selected indices ARE the index variable)
    match  = np.nanargmin(dist[:, rows], axis=0)               Lam([b | filter], nanargmin(abs(Fn[:, o-1] - Fn[b, o])))
    for i, j in zip(rows[cand], match[cand]): ...              i = b, j = nanargmin(...), premises = filters of b (cand, ...)

Supported: basic / newaxis / integer-array / boolean-mask indexing, broadcasting, element-wise functions and operators, reductions and
arg-reductions along an axis (their operand is printed back in slice form, `Fn[:, o-1]`), arange / range, outer sums, transposition,
ravel / flatten / reshape as products of dimensions (compound dimensions - no div / mod appears), np.where, comprehensions, small
helpers (module level or closures) interpreted with their arguments.  The statement interpreter records, with the path condition that
guards them: appends to lists, stores into arrays, returns.  Anything else evaluates to None (unknown) - rules built on this domain
report *undecided* then, never a violation."""
import ast
import copy

from . import astq

ELEMENTWISE = {"numpy.abs", "numpy.absolute", "numpy.sqrt", "numpy.real", "numpy.imag", "numpy.conj", "numpy.conjugate", "numpy.isnan", "numpy.isinf", "numpy.isfinite",
               "numpy.log", "numpy.log10", "numpy.exp", "numpy.sign", "numpy.square", "numpy.negative", "numpy.logical_not", "numpy.angle", "abs", "numpy.float64", "float", "int",
               "numpy.isclose", "numpy.logical_and", "numpy.logical_or", "numpy.maximum", "numpy.minimum", "numpy.subtract", "numpy.add", "numpy.multiply", "numpy.divide"}
SAME = {"numpy.array", "numpy.asarray", "numpy.asanyarray", "numpy.ascontiguousarray", "numpy.copy", "numpy.atleast_1d", "tqdm.tqdm", "list", "tuple", "numpy.squeeze"}
SAME_METH = {"copy", "astype", "tolist", "squeeze"}
REDUCERS = {"numpy.sum", "numpy.nansum", "numpy.mean", "numpy.nanmean", "numpy.max", "numpy.amax", "numpy.nanmax", "numpy.min", "numpy.amin", "numpy.nanmin", "numpy.argmax",
            "numpy.argmin", "numpy.nanargmax", "numpy.nanargmin", "numpy.any", "numpy.all", "numpy.prod", "numpy.linalg.norm", "numpy.count_nonzero"}
REDUCER_METH = {"sum", "mean", "max", "min", "argmax", "argmin", "any", "all", "prod"}
BOOL_CALLS = {"numpy.isnan", "numpy.isinf", "numpy.isfinite", "numpy.isclose", "numpy.logical_and", "numpy.logical_or", "numpy.logical_not", "numpy.any", "numpy.all"}
SCALAR_FUNCS = ("MAC", "MPC", "MPD", "MCF")      # package indicators: vectors in, one number out


class Dim:
    """one axis: index variable `var`, extent (ast or None), premises that every index of it satisfies (boolean asts in `var`);
    a broadcast (length-1) axis has var None; a compound axis (`parts`) is the row-major product of its parts"""

    def __init__(self, var, extent=None, filt=(), parts=None):
        self.var, self.extent, self.filt, self.parts = var, extent, list(filt), parts

    def copy(self):
        return Dim(self.var, self.extent, list(self.filt), [p.copy() for p in self.parts] if self.parts else None)

    def __repr__(self):
        if self.parts:
            return "(" + "*".join(repr(p) for p in self.parts) + ")"
        return f"{self.var}" + (f"<{astq.src(self.extent, 20)}" if self.extent is not None else "") + ("|" + "&".join(astq.src(f, 30) for f in self.filt) if self.filt else "")


class Lam:
    def __init__(self, dims, body, is_bool=False, alloc=False):
        self.dims, self.body, self.is_bool, self.alloc = list(dims), body, is_bool, alloc

    @property
    def scalar(self):
        """one value: no axis, or only broadcast (length-1) axes"""
        return all(d.var is None and not d.parts for d in self.dims)

    def __repr__(self):
        return f"Lam[{', '.join(map(repr, self.dims))}]({astq.src(self.body, 80)})"


class Tab:
    """an input array of known rank (indexing creates fresh index variables)"""

    def __init__(self, name, rank):
        self.name, self.rank = name, rank


class Tup:
    def __init__(self, items):
        self.items = list(items)


class LstV:
    """a python list that is appended to: the appended values with their contexts"""

    def __init__(self, name):
        self.name = name


class Closure:
    def __init__(self, node, fi=None):
        self.node, self.fi = node, fi


class SliceV:
    """slice(lower, upper[, step]) held in a variable (bounds: scalar asts or None)"""

    def __init__(self, lower, upper, step=None):
        self.lower, self.upper, self.step = lower, upper, step


class Subst(ast.NodeTransformer):
    def __init__(self, env):
        self.env = env

    def visit_Name(self, node):
        if isinstance(node.ctx, ast.Load) and node.id in self.env:
            return copy.deepcopy(self.env[node.id])
        return node


def subst(e, env):
    return Subst(env).visit(copy.deepcopy(e)) if env else copy.deepcopy(e)


def N(name):
    return ast.Name(id=name, ctx=ast.Load())


def C(v):
    return ast.Constant(value=v)


def scal(e):
    return Lam([], e)


def is_zero(e):
    return isinstance(e, ast.Constant) and e.value == 0 and not isinstance(e.value, bool)


def add(a, b):
    if is_zero(a):
        return b
    if is_zero(b):
        return a
    return ast.BinOp(left=a, op=ast.Add(), right=b)


def sub_(a, b):
    if is_zero(b):
        return a
    return ast.BinOp(left=a, op=ast.Sub(), right=b)


class _Simp(ast.NodeTransformer):
    """`a if 0 == 0 else b` -> a  (selection among stacked items by a literal position)"""

    def visit_IfExp(self, node):
        self.generic_visit(node)
        t = node.test
        if isinstance(t, ast.Compare) and len(t.ops) == 1 and isinstance(t.ops[0], ast.Eq) and isinstance(t.left, ast.Constant) and isinstance(t.comparators[0], ast.Constant):
            return node.body if t.left.value == t.comparators[0].value else node.orelse
        return node


def simp(e):
    return _Simp().visit(e) if any(isinstance(n, ast.IfExp) for n in ast.walk(e)) else e


def names_in(e):
    return {n.id for n in ast.walk(e) if isinstance(n, ast.Name)}


class Unknown(Exception):
    pass


class Interp:
    """symbolic statement interpreter of one function.  seeds: {parameter: Tab | Lam | ast}; `ranks` shorthand: {parameter: rank}"""

    _count = [0]

    def __init__(self, prog, fi, ranks=None, seeds=None, consts=None, depth=0, shared=None):
        self.prog, self.fi = prog, fi
        self.env = {}
        for p_, r in (ranks or {}).items():
            self.env[p_] = Tab(p_, r) if r > 0 else scal(N(p_))
        for p_, v in (seeds or {}).items():
            self.env[p_] = v
        self.consts = dict(consts or {})
        self.depth = depth
        sh = shared if shared is not None else {"appends": [], "stores": [], "returns": [], "unknown": []}
        self.sh = sh
        self.appends, self.stores, self.returns, self.unknown = sh["appends"], sh["stores"], sh["returns"], sh["unknown"]
        self.path = []          # [(cond ast, polarity)]
        self.loops = []         # [(var name, Dim, ast.For node)]
        self.exited = False
        self.kinds = ["fn"]     # kind of the enclosing blocks: fn / loop / if / other (alternatives of a helper's returns are followed separately
        #                         only where leaving the block early is the end of the story: function and loop bodies)
        self.site = None        # statement of the outermost function that is being executed (for events raised inside helpers)

    # ------------------------------------------------------------------ helpers
    def fresh(self, stem="v"):
        self._count[0] += 1
        return f"{stem}{self._count[0]}"

    def cname(self, call):
        return astq.callee_name(self.prog, self.fi, call)

    def note(self, node, why):
        self.unknown.append((node, why))

    def premises(self):
        out = list(self.path)
        for v, d, _n in self.loops:
            out += [(f, True) for f in d.filt]
        norm = []
        for c, pol in out:
            while isinstance(c, ast.UnaryOp) and isinstance(c.op, ast.Not):
                c, pol = c.operand, not pol
            norm.append((c, pol))
        return norm

    # ------------------------------------------------------------------ array <-> vector text
    def vec_ast(self, lam, keep=()):
        """the array printed in slice notation (for the operand of a reduction): every index variable that only occurs as a direct
        subscript of an input array becomes `:`; raises Unknown otherwise"""
        vars_ = [d.var for d in lam.dims if d.var is not None and d.var not in keep]
        if any(d.parts for d in lam.dims):
            raise Unknown("compound axis inside a reduction")
        order = {v: k for k, v in enumerate(vars_)}
        ext_of = {d.var: d.extent for d in lam.dims if d.var is not None}

        class V(ast.NodeTransformer):
            def __init__(s):
                s.ok = True
                s.axes_seen = []

            def visit_Subscript(s, node):
                node.value = s.visit(node.value)
                el = astq.index_elts(node)
                new = []
                seen = []
                for x in el:
                    if isinstance(x, ast.Name) and x.id in order:
                        new.append(ast.Slice(lower=None, upper=None, step=None))
                        seen.append(x.id)
                    elif isinstance(x, ast.BinOp) and isinstance(x.op, ast.Add) and isinstance(x.right, ast.Name) and x.right.id in order \
                            and not (names_in(x.left) & set(order)) and ext_of.get(x.right.id) is not None:
                        # lo + j with j over an axis of extent hi - lo: the slice lo:hi
                        lo_, e_ = x.left, ext_of[x.right.id]
                        if isinstance(e_, ast.BinOp) and isinstance(e_.op, ast.Sub) and astq.dump(e_.right) == astq.dump(lo_):
                            up_ = e_.left
                        else:
                            up_ = add(copy.deepcopy(lo_), copy.deepcopy(e_))
                        new.append(ast.Slice(lower=copy.deepcopy(lo_), upper=copy.deepcopy(up_), step=None))
                        seen.append(x.right.id)
                    else:
                        new.append(s.visit(x))
                if seen:
                    s.axes_seen.append(tuple(seen))
                node.slice = ast.Tuple(elts=new, ctx=ast.Load()) if len(new) > 1 else new[0]
                return node

            def visit_Name(s, node):
                if node.id in order:
                    s.ok = False
                return node
        v = V()
        out = v.visit(copy.deepcopy(lam.body))
        if not v.ok:
            raise Unknown("index variable used outside a subscript")
        # every sliced access must present the variables in the order of the array's axes (no implicit transposition)
        for seen in v.axes_seen:
            if [order[x] for x in seen] != sorted(order[x] for x in seen):
                raise Unknown("transposed access inside a reduction")
        return out

    # ------------------------------------------------------------------ expressions
    def ev(self, e):
        try:
            return self._ev(e)
        except Unknown as u:
            self.note(e, str(u))
            return None

    def need(self, e):
        v = self._ev(e)
        if v is None:
            raise Unknown(f"`{astq.src(e, 40)}` not evaluable")
        return v

    def list_as_lam(self, name):
        """a list that received exactly one value per iteration of one (finished) loop, unconditionally: the array of those values"""
        aps = [a for a in self.appends if a["list"] == name and a.get("fi") is self.fi]
        if len(aps) != 1:
            return None
        a = aps[0]
        v = a["value"]
        if not isinstance(v, Lam) or not a["loops"] or a["path"]:
            return None
        # the loop must be over (the innermost loop of the append, all outer ones still running or none)
        if len(a["loops"]) != len(self.loops) + 1 or any(x[2] is not y[2] for x, y in zip(a["loops"], self.loops)):
            return None
        var, d, _node = a["loops"][-1]
        if var is None or d is None or d.parts:
            return None
        return Lam([d.copy()] + list(v.dims), v.body, v.is_bool)

    def as_lam(self, v):
        if isinstance(v, LstV):
            return self.list_as_lam(v.name)
        if isinstance(v, Tab):
            dims = [Dim(self.fresh("a"), ast.Subscript(value=ast.Attribute(value=N(v.name), attr="shape", ctx=ast.Load()), slice=C(k), ctx=ast.Load())) for k in range(v.rank)]
            idx = [N(d.var) for d in dims]
            body = ast.Subscript(value=N(v.name), slice=ast.Tuple(elts=idx, ctx=ast.Load()) if len(idx) > 1 else idx[0], ctx=ast.Load())
            return Lam(dims, body)
        if isinstance(v, Lam):
            return v
        return None

    def _ev(self, e):
        if isinstance(e, ast.Constant):
            return scal(e)
        if isinstance(e, ast.Name):
            if e.id in self.env:
                return self.env[e.id]
            if e.id in self.consts:
                return scal(C(self.consts[e.id]))
            return None
        if isinstance(e, ast.Tuple):
            return Tup([self._ev(x) for x in e.elts])
        if isinstance(e, ast.UnaryOp):
            v = self.as_lam(self.need(e.operand))
            if v is None:
                return None
            if isinstance(e.op, ast.Invert) and v.is_bool:
                return Lam(v.dims, ast.UnaryOp(op=ast.Not(), operand=v.body), True)
            return Lam(v.dims, ast.UnaryOp(op=e.op, operand=v.body), v.is_bool and isinstance(e.op, ast.Not))
        if isinstance(e, ast.BinOp):
            a, b = self.as_lam(self.need(e.left)), self.as_lam(self.need(e.right))
            if a is None or b is None:
                return None
            if isinstance(e.op, ast.MatMult):
                return self.matmul(a, b, e)
            if isinstance(e.op, (ast.BitAnd, ast.BitOr)) and a.is_bool and b.is_bool:
                return self.broadcast([a, b], lambda x, y: ast.BoolOp(op=ast.And() if isinstance(e.op, ast.BitAnd) else ast.Or(), values=[x, y]), True)
            return self.broadcast([a, b], lambda x, y: ast.BinOp(left=x, op=e.op, right=y))
        if isinstance(e, ast.BoolOp):
            vals = [self.as_lam(self.need(x)) for x in e.values]
            if any(v is None or not v.scalar for v in vals):
                return None
            return Lam([], ast.BoolOp(op=e.op, values=[v.body for v in vals]), True)
        if isinstance(e, ast.Compare) and len(e.ops) == 1:
            a, b = self.as_lam(self.need(e.left)), self.as_lam(self.need(e.comparators[0]))
            if a is None or b is None:
                return None
            return self.broadcast([a, b], lambda x, y: ast.Compare(left=x, ops=[e.ops[0]], comparators=[y]), True)
        if isinstance(e, ast.IfExp) and self.truth(e.test) is not None:
            return self._ev(e.body if self.truth(e.test) else e.orelse)        # decided by the seeded constants / flags
        if isinstance(e, ast.IfExp):
            t, a, b = self.as_lam(self.need(e.test)), self.as_lam(self.need(e.body)), self.as_lam(self.need(e.orelse))
            if None in (t, a, b):
                return None
            return self.broadcast([t, a, b], lambda c, x, y: ast.IfExp(test=c, body=x, orelse=y))
        if isinstance(e, ast.Attribute):
            return self.attribute(e)
        if isinstance(e, ast.Subscript):
            return self.subscript(e)
        if isinstance(e, ast.Call):
            return self.call(e)
        if isinstance(e, (ast.ListComp, ast.GeneratorExp)):
            return self.comp(e)
        if isinstance(e, ast.List):
            return None
        return None

    def broadcast(self, lams, f, is_bool=False):
        """element-wise combination, numpy alignment from the right; axes that denote the same index (same variable) or a broadcast
        axis combine; different variables on one axis are identified (the arrays are aligned position by position)"""
        n = max(len(l.dims) for l in lams)
        dims = []
        bodies = [l.body for l in lams]
        for k in range(1, n + 1):
            cands = [(i, l.dims[-k]) for i, l in enumerate(lams) if len(l.dims) >= k]
            real = [(i, d) for i, d in cands if d.var is not None or d.parts]
            if not real:
                dims.append(Dim(None))
                continue
            lead_i, lead = real[0]
            d = lead.copy()
            for i, od in real[1:]:
                if od.parts or lead.parts:
                    if repr(od) != repr(lead):
                        raise Unknown("element-wise combination of differently factored axes")
                    continue
                if od.var != lead.var:
                    bodies[i] = subst(bodies[i], {od.var: N(lead.var)})
                    d.filt += [subst(f_, {od.var: N(lead.var)}) for f_ in od.filt]
                else:
                    d.filt += [f_ for f_ in od.filt if astq.dump(f_) not in {astq.dump(x) for x in d.filt}]
                if d.extent is None:
                    d.extent = od.extent
            dims.append(d)
        dims.reverse()
        return Lam(dims, f(*bodies), is_bool)

    def attribute(self, e):
        if e.attr in ("T",):
            v = self.as_lam(self.need(e.value))
            return Lam(list(reversed(v.dims)), v.body, v.is_bool) if v is not None else None
        if e.attr in ("real", "imag"):
            v = self.as_lam(self.need(e.value))
            return Lam(v.dims, ast.Attribute(value=v.body, attr=e.attr, ctx=ast.Load()), False) if v is not None else None
        if e.attr == "shape":
            v = self._ev(e.value)
            lv = self.as_lam(v) if v is not None else None
            if lv is not None and all(d.extent is not None or d.parts for d in lv.dims):
                return Tup([scal(self.extent_of(d)) for d in lv.dims])
            return None
        if e.attr == "size":
            v = self.as_lam(self.need(e.value))
            if v is not None and len(v.dims) == 1:
                # number of (selected) elements: only its comparison with 0 is meaningful symbolically
                return scal(ast.Call(func=N("len"), args=[N(v.dims[0].var or "_")], keywords=[]))
            return None
        # attribute of a non-array value (np.nan, self.x): a scalar symbol
        r = self.prog.resolve_expr(self.fi.mod, e) if hasattr(self.prog, "resolve_expr") else None
        if r is not None or isinstance(e.value, ast.Name):
            base = self.env.get(e.value.id) if isinstance(e.value, ast.Name) else None
            if base is None:
                return scal(e)
        return None

    def extent_of(self, d):
        if d.parts:
            out = None
            for p in d.parts:
                x = self.extent_of(p)
                out = x if out is None else ast.BinOp(left=out, op=ast.Mult(), right=x)
            return out
        return d.extent if d.extent is not None else C(1)

    # -- indexing
    def subscript(self, e):
        base = self._ev(e.value)
        if isinstance(base, Tup):
            k = e.slice
            if isinstance(k, ast.Constant) and isinstance(k.value, int) and -len(base.items) <= k.value < len(base.items):
                return base.items[k.value]
            return None
        lam = self.as_lam(base) if base is not None else None
        if lam is None and base is None and isinstance(e.value, ast.Name) and e.value.id not in self.env:
            # an array this domain could not evaluate (built by accumulation, library call ...): an opaque table of the rank it is used with
            el = astq.index_elts(e)
            if not any(isinstance(x, ast.Constant) and x.value in (None, Ellipsis) for x in el):
                lam = self.as_lam(Tab(e.value.id, len(el)))
        if lam is None:
            return None
        return self.index(lam, astq.index_elts(e), e)

    def bound(self, b):
        """scalar body of a slice bound"""
        if getattr(b, "_lamdone", False):
            return b
        return self.as_lam(self.need(b)).body

    def index(self, lam, elts, node=None):
        dims_in = list(lam.dims)
        body = lam.body
        out = []
        pos = 0
        adv = None          # (position in out, dims of the advanced index)
        # slice objects held in names (band = slice(lo, hi)) are the slices they denote; `...` stands for the full slices it covers
        elts2 = []
        for x in elts:
            if isinstance(x, ast.Name) and isinstance(self.env.get(x.id), SliceV):
                sv_ = self.env[x.id]
                x = ast.Slice(lower=copy.deepcopy(sv_.lower), upper=copy.deepcopy(sv_.upper), step=copy.deepcopy(sv_.step))
                for b_ in (x.lower, x.upper, x.step):
                    if b_ is not None:
                        b_._lamdone = True          # bounds of a slice object are scalar bodies already
            elif isinstance(x, ast.Call) and isinstance(x.func, ast.Name) and x.func.id == "slice" and 1 <= len(x.args) <= 3 and not x.keywords:
                a_ = [None if (isinstance(z, ast.Constant) and z.value is None) else z for z in x.args]
                x = ast.Slice(lower=None, upper=a_[0], step=None) if len(a_) == 1 else ast.Slice(lower=a_[0], upper=a_[1], step=a_[2] if len(a_) == 3 else None)
            elts2.append(x)
        if any(isinstance(x, ast.Constant) and x.value is Ellipsis for x in elts2):
            k_ = next(i for i, x in enumerate(elts2) if isinstance(x, ast.Constant) and x.value is Ellipsis)
            consumed = sum(1 for x in elts2 if not ((isinstance(x, ast.Constant) and x.value in (None, Ellipsis)) or (isinstance(x, ast.Attribute) and x.attr == "newaxis")))
            fill = max(len(dims_in) - consumed, 0)
            elts2 = elts2[:k_] + [ast.Slice(lower=None, upper=None, step=None)] * fill + elts2[k_ + 1:]
        elts = elts2
        for x in elts:
            if (isinstance(x, ast.Constant) and x.value is None) or (isinstance(x, ast.Attribute) and x.attr == "newaxis"):
                out.append(Dim(None))
                continue
            if isinstance(x, ast.Constant) and x.value is Ellipsis:
                raise Unknown("ellipsis index")
            if pos >= len(dims_in):
                raise Unknown("too many indices")
            d = dims_in[pos]
            pos += 1
            if isinstance(x, ast.Slice):
                if x.step is not None:
                    st = self.as_lam(self.need(x.step)) if not getattr(x.step, "_lamdone", False) else scal(x.step)
                    if not (st.scalar and isinstance(st.body, ast.Constant) and st.body.value == 1):
                        raise Unknown("strided slice")
                if x.lower is None and x.upper is None:
                    out.append(d)
                    continue
                if d.var is None or d.parts:
                    lo_c = self.bound(x.lower) if x.lower is not None else C(0)
                    if d.parts and x.upper is not None:
                        r = self.block_slice(d, lo_c, self.bound(x.upper))
                        if r is not None:
                            nd, env_ = r
                            body = subst(body, env_)
                            out.append(nd)
                            continue
                    raise Unknown("partial slice of a broadcast / compound axis")
                lo = self.bound(x.lower) if x.lower is not None else C(0)
                nv = self.fresh("a")
                ext = None
                if x.upper is not None:
                    hi = self.bound(x.upper)
                    if isinstance(hi, ast.UnaryOp) and isinstance(hi.op, ast.USub) and d.extent is not None:
                        hi = sub_(d.extent, hi.operand)
                    ext = sub_(hi, lo)
                elif d.extent is not None:
                    ext = sub_(d.extent, lo)
                body = subst(body, {d.var: add(lo, N(nv))})
                out.append(Dim(nv, ext, [subst(f_, {d.var: add(lo, N(nv))}) for f_ in d.filt]))
                continue
            v = self.as_lam(self.need(x))
            if v is None:
                raise Unknown("index not evaluable")
            if v.scalar:
                if d.var is not None and not d.parts:
                    body = simp(subst(body, {d.var: v.body}))
                elif d.parts:
                    raise Unknown("scalar index into a compound axis")
                continue
            if v.is_bool:
                # boolean mask over this axis: the axis stays, restricted to the indices where the mask holds
                if len(v.dims) != 1 or d.var is None or d.parts:
                    raise Unknown("mask of another rank")
                m = subst(v.body, {v.dims[0].var: N(d.var)}) if v.dims[0].var != d.var else v.body
                nd = d.copy()
                nd.filt = nd.filt + [subst(f_, {v.dims[0].var: N(d.var)}) for f_ in v.dims[0].filt if astq.dump(f_) not in {astq.dump(z) for z in nd.filt}] + [m]
                out.append(nd)
                continue
            # integer index array: the axis is replaced by the axes of the index array
            if d.var is None or d.parts:
                raise Unknown("integer array index into a broadcast / compound axis")
            if adv is not None:
                # several index arrays are paired element by element
                k0, ad = adv
                if len(ad) != len(v.dims) or any(a_.parts or b_.parts for a_, b_ in zip(ad, v.dims)):
                    raise Unknown("index arrays of different shapes")
                ren = {b_.var: N(a_.var) for a_, b_ in zip(ad, v.dims) if b_.var is not None and a_.var is not None and b_.var != a_.var}
                body = subst(body, {d.var: subst(v.body, ren)})
                continue
            body = subst(body, {d.var: v.body})
            adv = (len(out), v.dims)
            out.extend(dd.copy() for dd in v.dims)
        out += dims_in[pos:]
        return Lam(out, body, lam.is_bool)

    def block_slice(self, d, lo, hi):
        """[k*n : (k+1)*n] of a compound axis (outer part of extent ?, inner parts of total extent n): fixes the outer index to k"""
        from . import symidx
        se = symidx.SymEval(self.prog, self.fi)
        plo, phi = se.ev(lo), se.ev(hi)
        if plo is None or phi is None or len(d.parts) < 2:
            return None
        inner = d.parts[1:]
        n_ast = None
        for p in inner:
            x = self.extent_of(p)
            n_ast = x if n_ast is None else ast.BinOp(left=n_ast, op=ast.Mult(), right=x)
        n = se.ev(n_ast)
        if n is None or not (phi - plo == n):
            return None
        from .poly import P_div
        k = P_div(plo, n)
        if k is None:
            return None
        try:
            k_ast = ast.parse(repr(k).replace("^", "**"), mode="eval").body
        except SyntaxError:
            return None
        outer = d.parts[0]
        nd = inner[0].copy() if len(inner) == 1 else Dim(None, None, [], [p.copy() for p in inner])
        return nd, ({outer.var: k_ast} if outer.var else {})

    # -- calls
    def matmul(self, a, b, node):
        if len(a.dims) == 1 and len(b.dims) == 1:
            va, vb = self.vec_ast(a), self.vec_ast(b)
            return scal(ast.BinOp(left=va, op=ast.MatMult(), right=vb))
        raise Unknown("matrix product")

    def reduce(self, lam, fn_node, axis, node, method=False, keywords=()):
        """reduction along `axis` (None: all axes of a vector)"""
        nd = [d for d in lam.dims if d.var is not None or d.parts]
        if axis is None:
            if len(nd) > 1:
                raise Unknown("full reduction of a matrix")
            k = lam.dims.index(nd[0]) if nd else None
        else:
            k = axis % len(lam.dims) if lam.dims else None
        if k is None:
            return lam
        d = lam.dims[k]
        if d.parts:
            raise Unknown("reduction over a compound axis")
        keep = [x.var for i, x in enumerate(lam.dims) if i != k and x.var is not None]
        inner = Lam([d], lam.body)
        vec = self.vec_ast(inner) if d.var is not None else lam.body
        if d.filt:
            raise Unknown("reduction over a filtered axis")
        if method:
            body = ast.Call(func=ast.Attribute(value=vec, attr=fn_node, ctx=ast.Load()), args=[], keywords=[])
        else:
            body = ast.Call(func=copy.deepcopy(fn_node), args=[vec], keywords=[kw for kw in keywords if kw.arg not in ("axis",)])
        return Lam([x for i, x in enumerate(lam.dims) if i != k], body, fn_node in ("any", "all") if method else False)

    def call(self, e):
        nm = self.cname(e)
        f = e.func
        kw = {k.arg: k.value for k in e.keywords if k.arg}
        if isinstance(f, ast.Name) and f.id == "bool" and len(e.args) == 1 and not e.keywords and "bool" not in self.env:
            return self._ev(e.args[0])          # the truth value of a test is the test
        # ---- closures / package helpers
        if isinstance(f, ast.Name) and isinstance(self.env.get(f.id), Closure):
            return self.inline(self.env[f.id], e)
        r = None
        try:
            r = self.prog.resolve_call(self.fi, e)
        except Exception:
            pass
        from .program import FuncInfo
        if isinstance(r, FuncInfo) and r.node.name in SCALAR_FUNCS:
            args = [self.as_lam(self.need(a)) for a in e.args]
            if any(a is None for a in args):
                return None
            return scal(ast.Call(func=copy.deepcopy(f), args=[self.vec_ast(a) if a.dims else a.body for a in args], keywords=[]))
        if isinstance(r, FuncInfo) and r.node is not self.fi.node and self.depth < 4:
            return self.inline(Closure(r.node, r), e)
        # ---- methods
        if isinstance(f, ast.Attribute) and nm.startswith("."):
            if f.attr in ("conj", "conjugate"):
                v = self.as_lam(self.need(f.value))
                return Lam(v.dims, ast.Call(func=ast.Attribute(value=v.body, attr="conj", ctx=ast.Load()), args=[], keywords=[])) if v else None
            if f.attr in SAME_METH:
                return self._ev(f.value)
            if f.attr in REDUCER_METH:
                v = self.as_lam(self.need(f.value))
                if v is None:
                    return None
                ax = kw.get("axis") or (e.args[0] if e.args else None)
                axv = self.const_int(ax) if ax is not None else None
                if ax is not None and axv is None:
                    raise Unknown("axis not constant")
                return self.reduce(v, f.attr, axv, e, method=True)
            if f.attr in ("ravel", "flatten"):
                v = self.as_lam(self.need(f.value))
                o = kw.get("order") or (e.args[0] if e.args else None)
                order = o.value.upper() if isinstance(o, ast.Constant) and isinstance(o.value, str) else ("C" if o is None else None)
                return self.flatten(v, order) if v is not None and order in ("C", "F") else None
            if f.attr == "reshape":
                v = self.as_lam(self.need(f.value))
                shp = e.args[0].elts if len(e.args) == 1 and isinstance(e.args[0], (ast.Tuple, ast.List)) else list(e.args)
                o = kw.get("order")
                if o is not None and not (isinstance(o, ast.Constant) and str(o.value).upper() == "C"):
                    raise Unknown("reshape in another order")
                return self.reshape(v, shp) if v is not None else None
            if f.attr == "transpose":
                v = self.as_lam(self.need(f.value))
                axes = e.args[0].elts if len(e.args) == 1 and isinstance(e.args[0], (ast.Tuple, ast.List)) else list(e.args)
                if v is None:
                    return None
                if not axes:
                    return Lam(list(reversed(v.dims)), v.body, v.is_bool)
                order = [self.const_int(a) for a in axes]
                if None in order or sorted(x % len(v.dims) for x in order) != list(range(len(v.dims))):
                    raise Unknown("transpose axes")
                return Lam([v.dims[x % len(v.dims)] for x in order], v.body, v.is_bool)
            if f.attr == "append":
                return None
            if f.attr == "any" or f.attr == "all":
                pass
            return None
        # ---- numpy functions
        if nm in SAME and e.args:
            v = self._ev(e.args[0]) if not isinstance(e.args[0], (ast.ListComp, ast.GeneratorExp, ast.List)) else self._ev(e.args[0])
            return v
        if nm in ELEMENTWISE and e.args:
            args = [self.as_lam(self.need(a)) for a in e.args]
            if any(a is None for a in args):
                return None
            kws = []
            for k in e.keywords:
                kv = self.as_lam(self.need(k.value))
                if kv is None or not kv.scalar:
                    raise Unknown("non-scalar keyword")
                kws.append(ast.keyword(arg=k.arg, value=kv.body))
            return self.broadcast(args, lambda *bs: ast.Call(func=copy.deepcopy(f), args=list(bs), keywords=kws), nm in BOOL_CALLS)
        if nm in REDUCERS and e.args:
            v = self.as_lam(self.need(e.args[0]))
            if v is None:
                return None
            ax = kw.get("axis") or (e.args[1] if len(e.args) > 1 else None)
            axv = self.const_int(ax) if ax is not None else None
            if ax is not None and axv is None:
                raise Unknown("axis not constant")
            out = self.reduce(v, f, axv, e, keywords=e.keywords)
            out.is_bool = nm in ("numpy.any", "numpy.all")
            return out
        if nm in ("numpy.arange", "range", "tqdm.trange"):
            args = [self.as_lam(self.need(a)) for a in e.args]
            if any(a is None or not a.scalar for a in args) or not 1 <= len(args) <= 3:
                return None
            lo = args[0].body if len(args) >= 2 else C(0)
            hi = args[1].body if len(args) >= 2 else args[0].body
            st = args[2].body if len(args) == 3 else C(1)
            v = self.fresh("r")
            if isinstance(st, ast.Constant) and st.value == 1:
                return Lam([Dim(v, sub_(hi, lo))], add(lo, N(v)))
            cnt = ast.BinOp(left=sub_(hi, lo), op=ast.FloorDiv(), right=st)
            return Lam([Dim(v, cnt)], add(lo, ast.BinOp(left=N(v), op=ast.Mult(), right=st)))
        if nm in ("numpy.flatnonzero",) and e.args:
            return self.nonzero(self.as_lam(self.need(e.args[0])))
        if nm in ("numpy.where", "numpy.nonzero", "numpy.argwhere") and len(e.args) == 1:
            v = self.nonzero(self.as_lam(self.need(e.args[0])))
            return Tup([v]) if v is not None and nm != "numpy.argwhere" else v
        if nm == "numpy.where" and len(e.args) == 3:
            t, a, b = [self.as_lam(self.need(x)) for x in e.args]
            if None in (t, a, b):
                return None
            return self.broadcast([t, a, b], lambda c_, x, y: ast.IfExp(test=c_, body=x, orelse=y))
        if nm in ("numpy.add.outer", "numpy.subtract.outer", "numpy.multiply.outer") and len(e.args) == 2:
            a, b = self.as_lam(self.need(e.args[0])), self.as_lam(self.need(e.args[1]))
            if a is None or b is None:
                return None
            op = {"add": ast.Add(), "subtract": ast.Sub(), "multiply": ast.Mult()}[nm.split(".")[1]]
            bb = self.rename_apart(b, a)
            return Lam(a.dims + bb.dims, ast.BinOp(left=a.body, op=op, right=bb.body))
        if nm == "numpy.outer" and len(e.args) == 2:
            a, b = self.as_lam(self.need(e.args[0])), self.as_lam(self.need(e.args[1]))
            if a is None or b is None:
                return None
            bb = self.rename_apart(b, a)
            return Lam(a.dims + bb.dims, ast.BinOp(left=a.body, op=ast.Mult(), right=bb.body))
        if nm in ("numpy.ravel",) and e.args:
            v = self.as_lam(self.need(e.args[0]))
            o = kw.get("order")
            order = o.value.upper() if isinstance(o, ast.Constant) and isinstance(o.value, str) else ("C" if o is None else None)
            return self.flatten(v, order) if v is not None and order in ("C", "F") else None
        if nm == "numpy.reshape" and len(e.args) == 2 and isinstance(e.args[1], (ast.Tuple, ast.List)):
            v = self.as_lam(self.need(e.args[0]))
            return self.reshape(v, e.args[1].elts) if v is not None else None
        if nm in ("numpy.transpose",) and e.args:
            v = self.as_lam(self.need(e.args[0]))
            ax = kw.get("axes") or (e.args[1] if len(e.args) > 1 else None)
            if v is None:
                return None
            if ax is None:
                return Lam(list(reversed(v.dims)), v.body, v.is_bool)
            order = [self.const_int(a) for a in ax.elts] if isinstance(ax, (ast.Tuple, ast.List)) else None
            if not order or None in order:
                raise Unknown("transpose axes")
            return Lam([v.dims[x % len(v.dims)] for x in order], v.body, v.is_bool)
        if nm in ("numpy.moveaxis", "numpy.swapaxes") and len(e.args) == 3:
            v = self.as_lam(self.need(e.args[0]))
            a, b = self.const_int(e.args[1]), self.const_int(e.args[2])
            if v is None or a is None or b is None:
                return None
            order = list(range(len(v.dims)))
            if nm == "numpy.moveaxis":
                order.remove(a % len(order))
                order.insert(b % len(v.dims), a % len(v.dims))
            else:
                order[a], order[b] = order[b], order[a]
            return Lam([v.dims[x] for x in order], v.body, v.is_bool)
        if nm in ("numpy.zeros", "numpy.zeros_like", "numpy.empty", "numpy.full") and e.args:
            if nm == "numpy.zeros_like":
                v = self.as_lam(self.need(e.args[0]))
                return Lam([Dim(self.fresh("z"), d.extent) if d.var is not None else Dim(None) for d in v.dims], C(0), alloc=True) if v is not None else None
            shp = e.args[0].elts if isinstance(e.args[0], (ast.Tuple, ast.List)) else [e.args[0]]
            exts = [self.as_lam(self.need(x)) for x in shp]
            if any(x is None or not x.scalar for x in exts):
                return None
            fill = self.as_lam(self.need(e.args[1])).body if nm == "numpy.full" and len(e.args) > 1 else C(0)
            return Lam([Dim(self.fresh("z"), x.body) for x in exts], fill, alloc=True)
        if nm == "len" and e.args:
            v = self._ev(e.args[0])
            lv = self.as_lam(v) if v is not None else None
            if lv is not None and lv.dims and (lv.dims[0].extent is not None or lv.dims[0].parts) and not lv.dims[0].filt:
                return scal(self.extent_of(lv.dims[0]))
            return scal(ast.Call(func=N("len"), args=[copy.deepcopy(e.args[0])], keywords=[])) if isinstance(e.args[0], ast.Name) else None
        if nm in ("numpy.vstack", "numpy.hstack", "numpy.concatenate", "numpy.stack", "numpy.column_stack") and e.args:
            return self.stack(nm, e)
        if nm in ("isinstance",):
            return None
        return None

    def const_int(self, e):
        if e is None:
            return None
        try:
            v = ast.literal_eval(e)
            return v if isinstance(v, int) and not isinstance(v, bool) else None
        except Exception:
            pass
        v = self.ev(e)
        lv = self.as_lam(v) if v is not None else None
        if lv is not None and lv.scalar and isinstance(lv.body, ast.Constant) and isinstance(lv.body.value, int):
            return lv.body.value
        return None

    def rename_apart(self, b, a):
        used = {d.var for d in a.dims}
        ren = {}
        dims = []
        for d in b.dims:
            nd = d.copy()
            if d.var in used:
                nv = self.fresh("a")
                ren[d.var] = N(nv)
                nd.var = nv
            dims.append(nd)
        for d in dims:
            d.filt = [subst(f_, ren) for f_ in d.filt]
        return Lam(dims, subst(b.body, ren), b.is_bool)

    def nonzero(self, m):
        """indices where a boolean vector holds: the index variable itself, restricted by the mask"""
        if m is None or len(m.dims) != 1 or m.dims[0].var is None or m.dims[0].parts:
            return None
        d = m.dims[0].copy()
        d.filt = d.filt + [m.body if m.is_bool else ast.Compare(left=m.body, ops=[ast.NotEq()], comparators=[C(0)])]
        return Lam([d], N(d.var))

    def flatten(self, v, order):
        real = [d for d in v.dims]
        if len(real) <= 1:
            return v
        parts = list(real) if order == "C" else list(reversed(real))
        flat = []
        for p in parts:
            flat += (p.parts if p.parts else [p])
        return Lam([Dim(None, None, [], [p.copy() for p in flat if p.var is not None or p.parts])], v.body, v.is_bool)

    def reshape(self, v, shp):
        """re-group the axes: every new axis must be a product of consecutive (flattened) old axes, or one old axis"""
        from . import symidx
        se = symidx.SymEval(self.prog, self.fi)
        flat = []
        for d in v.dims:
            flat += (d.parts if d.parts else [d])
        flat = [d for d in flat if d.var is not None]
        exts = []
        for d in flat:
            p = se.ev(d.extent) if d.extent is not None else None
            exts.append(p)
        targets = []
        for x in shp:
            lv = self.as_lam(self.need(x))
            if lv is None or not lv.scalar:
                raise Unknown("reshape extent")
            p = se.ev(lv.body)
            targets.append(p)
        wild = [k for k, t in enumerate(targets) if t is not None and t.is_const() and t.const() == -1]
        if len(wild) > 1:
            raise Unknown("reshape with several -1")

        def take(idx_iter, lo, hi, t, from_left):
            """consume consecutive old axes (from the left end `lo` or the right end `hi`) whose extents multiply to t"""
            acc, grp = None, []
            while lo < hi:
                k_ = lo if from_left else hi - 1
                if exts[k_] is None:
                    raise Unknown("reshape of an axis of unknown extent")
                acc = exts[k_] if acc is None else acc * exts[k_]
                grp.append(flat[k_])
                if from_left:
                    lo += 1
                else:
                    hi -= 1
                if acc == t:
                    return (grp if from_left else list(reversed(grp))), lo, hi
            raise Unknown("reshape does not regroup whole axes")
        groups = [None] * len(targets)
        lo, hi = 0, len(flat)
        stop = wild[0] if wild else len(targets)
        for k in range(stop):
            t = targets[k]
            if t is None:
                raise Unknown("reshape extent unknown")
            if t.is_const() and t.const() == 1:
                groups[k] = []
                continue
            groups[k], lo, hi = take(None, lo, hi, t, True)
        if wild:
            for k in range(len(targets) - 1, wild[0], -1):
                t = targets[k]
                if t is None:
                    raise Unknown("reshape extent unknown")
                if t.is_const() and t.const() == 1:
                    groups[k] = []
                    continue
                groups[k], lo, hi = take(None, lo, hi, t, False)
            groups[wild[0]] = flat[lo:hi]
            lo = hi
        if lo != hi:
            raise Unknown("reshape leaves axes over")
        out = []
        for grp in groups:
            if not grp:
                out.append(Dim(None))
            elif len(grp) == 1:
                out.append(grp[0].copy())
            else:
                out.append(Dim(None, None, [], [g.copy() for g in grp]))
        return Lam(out, v.body, v.is_bool)

    def stack(self, nm, e):
        a0 = e.args[0]
        items = None
        if isinstance(a0, (ast.Tuple, ast.List)) and nm == "numpy.stack" and 1 <= len(a0.elts) <= 4 and not any(isinstance(x, ast.Starred) for x in a0.elts):
            # np.stack((A, B), axis=k): a new axis of extent 2 whose position selects A or B
            ls = [self.as_lam(self.need(x)) for x in a0.elts]
            if any(l is None for l in ls):
                return None
            ax = self.const_int({k.arg: k.value for k in e.keywords}.get("axis") or (e.args[1] if len(e.args) > 1 else None))
            ax = 0 if ax is None else ax
            z = self.fresh("z")

            def sel(*bodies):
                out = bodies[-1]
                for i in range(len(bodies) - 2, -1, -1):
                    out = ast.IfExp(test=ast.Compare(left=N(z), ops=[ast.Eq()], comparators=[C(i)]), body=bodies[i], orelse=out)
                return out
            r = self.broadcast(ls, sel)
            nd = len(r.dims) + 1
            k = ax % nd
            dims = list(r.dims)
            dims.insert(k, Dim(z, C(len(ls))))
            return Lam(dims, r.body)
        if isinstance(a0, (ast.ListComp, ast.GeneratorExp)):
            v = self.comp(a0)
            if v is None:
                return None
            # leading axis = the comprehension; vstack merges it with the rows of the elements, hstack with their columns
            if nm in ("numpy.stack",):
                return v
            if len(v.dims) < 2:
                return v
            if nm == "numpy.vstack" or (nm == "numpy.concatenate" and self.const_int({k.arg: k.value for k in e.keywords}.get("axis")) in (None, 0)):
                lead, rows = v.dims[0], v.dims[1]
                return Lam([Dim(None, None, [], [lead.copy(), rows.copy()])] + v.dims[2:], v.body, v.is_bool)
            if nm == "numpy.hstack" and len(v.dims) >= 3:
                lead, rows, cols = v.dims[0], v.dims[1], v.dims[2]
                return Lam([rows, Dim(None, None, [], [lead.copy(), cols.copy()])] + v.dims[3:], v.body, v.is_bool)
            if nm == "numpy.hstack" and len(v.dims) == 2:
                return Lam([Dim(None, None, [], [v.dims[0].copy(), v.dims[1].copy()])], v.body, v.is_bool)
            return None
        return None

    def comp(self, e):
        """[elt for x in iter] as an array with a new leading axis"""
        if len(e.generators) != 1 or e.generators[0].ifs:
            raise Unknown("comprehension with a condition / several generators")
        g = e.generators[0]
        saved = dict(self.env)
        try:
            d = self.bind_iter(g.target, g.iter)
            if d is None:
                raise Unknown("comprehension iterable")
            v = self.as_lam(self.need(e.elt))
            if v is None:
                return None
            return Lam([d] + v.dims, v.body, v.is_bool)
        finally:
            self.env = saved

    def bind_iter(self, target, it):
        """bind the loop target(s) to the element of the iterable; returns the Dim that is iterated"""
        nm = self.cname(it) if isinstance(it, ast.Call) else None
        if nm in ("tqdm.tqdm",) and it.args:
            return self.bind_iter(target, it.args[0])
        if nm == "enumerate" and it.args and isinstance(target, ast.Tuple) and len(target.elts) == 2 and isinstance(target.elts[0], ast.Name):
            d = self.bind_iter(target.elts[1], it.args[0])
            if d is None:
                return None
            st = {k.arg: k.value for k in it.keywords}.get("start") or (it.args[1] if len(it.args) > 1 else None)
            idx = N(d.var) if d.var else None
            if idx is None:
                return None
            if st is not None:
                sv = self.as_lam(self.need(st))
                idx = add(sv.body, idx)
            self.env[target.elts[0].id] = scal(idx)
            return d
        if nm == "zip" and isinstance(target, ast.Tuple) and len(target.elts) == len(it.args):
            z = None
            for t_, a_ in zip(target.elts, it.args):
                d = self.bind_iter(t_, a_)
                if d is None:
                    return None
                if z is None:
                    z = d
                else:
                    # pair position by position: identify the two index variables
                    if d.var is not None and z.var is not None and d.var != z.var:
                        ren = {d.var: N(z.var)}
                        for n_ in self._targets(t_):
                            v = self.env.get(n_)
                            if isinstance(v, Lam):
                                self.env[n_] = Lam([self._rdim(x, ren) for x in v.dims], subst(v.body, ren), v.is_bool)
                        z.filt += [subst(f_, ren) for f_ in d.filt if astq.dump(subst(f_, ren)) not in {astq.dump(x) for x in z.filt}]
                    else:
                        z.filt += [f_ for f_ in d.filt if astq.dump(f_) not in {astq.dump(x) for x in z.filt}]
            return z
        v = self._ev(it)
        lv = self.as_lam(v) if v is not None else None
        if lv is None or not lv.dims or lv.dims[0].var is None or lv.dims[0].parts:
            return None
        d = lv.dims[0].copy()
        elem = Lam(lv.dims[1:], lv.body, lv.is_bool)
        if isinstance(target, ast.Name):
            self.env[target.id] = elem
        elif isinstance(target, ast.Tuple) and elem.dims and all(isinstance(t_, ast.Name) for t_ in target.elts) \
                and isinstance(elem.dims[0].extent, ast.Constant) and elem.dims[0].extent.value == len(target.elts) and elem.dims[0].var is not None:
            # for lo, hi in <array with two columns>: the columns of the row
            for i, t_ in enumerate(target.elts):
                self.env[t_.id] = Lam(elem.dims[1:], simp(subst(elem.body, {elem.dims[0].var: C(i)})), elem.is_bool)
        else:
            return None
        return d

    def _targets(self, t):
        return [n.id for n in ast.walk(t) if isinstance(n, ast.Name)]

    def _rdim(self, d, ren):
        nd = d.copy()
        if nd.var in ren:
            nd.var = ren[nd.var].id
        nd.filt = [subst(f_, ren) for f_ in nd.filt]
        return nd

    # -- helper functions, interpreted with their arguments
    def inline(self, clo, call):
        fnode = clo.node
        bound = False
        m, errs = astq.bind_args(fnode, call, bound=bound)
        if errs:
            raise Unknown("helper call does not conform")
        sub = Interp(self.prog, clo.fi or self.fi, depth=self.depth + 1, shared=self.sh, consts=self.consts)
        if clo.fi is None:
            sub.env = dict(self.env)        # a closure sees the enclosing scope
        a = fnode.args
        pos = [x.arg for x in a.posonlyargs + a.args]
        defaults = dict(zip(pos[len(pos) - len(a.defaults):], a.defaults))
        for p_ in pos + [x.arg for x in a.kwonlyargs]:
            if p_ in m and isinstance(m[p_], ast.AST):
                v = self._ev(m[p_]) if not isinstance(m[p_], ast.Lambda) else Closure(m[p_])
                if v is None:
                    raise Unknown(f"argument `{astq.src(m[p_], 30)}` of helper {fnode.name} not evaluable")
                sub.env[p_] = v
            elif p_ in defaults:
                v = sub._ev(defaults[p_])
                if v is not None:
                    sub.env[p_] = v
        sub.path = list(self.path)
        sub.loops = list(self.loops)
        sub.site = self.site
        n_ret = len(self.returns)
        sub.block(fnode.body, top=True)
        rets = self.returns[n_ret:]
        del self.returns[n_ret:]
        vals = [r["value"] for r in rets]
        self.last_alts = [(r["path"][len(self.premises()):] if len(r["path"]) >= len(self.premises()) else [], r["value"]) for r in rets]
        if not vals:
            return scal(C(None))
        if len(vals) == 1:
            return vals[0]
        # several returns: usable only if they agree
        d0 = repr(vals[0])
        if all(repr(v) == d0 for v in vals[1:]):
            return vals[0]
        # an early `return` of an empty selection next to the general one: keep the general (last) one
        return vals[-1]

    def call_alternatives(self, call):
        """[(extra premises, value)] when `call` is a closure / package helper whose returns differ, else None"""
        f = call.func
        clo = None
        if isinstance(f, ast.Name) and isinstance(self.env.get(f.id), Closure):
            clo = self.env[f.id]
        else:
            try:
                r = self.prog.resolve_call(self.fi, call)
            except Exception:
                r = None
            from .program import FuncInfo
            if isinstance(r, FuncInfo) and r.node is not self.fi.node and self.depth < 4 and r.node.name not in SCALAR_FUNCS:
                clo = Closure(r.node, r)
        if clo is None:
            return None
        n_ap, n_st, n_un = len(self.appends), len(self.stores), len(self.unknown)
        self.last_alts = None
        try:
            self.inline(clo, call)
        except Unknown:
            return None
        finally:
            # this was a trial run: what it recorded is recorded again when the call is executed for real
            del self.appends[n_ap:], self.stores[n_st:], self.unknown[n_un:]
        alts = self.last_alts
        if not alts or len(alts) < 2 or any(v is None for _p, v in alts):
            return None
        if all(repr(v) == repr(alts[0][1]) for _p, v in alts[1:]):
            return None
        return alts

    def bind_value(self, t, v):
        if isinstance(t, ast.Name):
            self.env[t.id] = v
        elif isinstance(t, (ast.Tuple, ast.List)) and isinstance(v, Tup) and len(v.items) == len(t.elts):
            for tt, vv in zip(t.elts, v.items):
                if isinstance(tt, ast.Name):
                    if vv is None:
                        self.env.pop(tt.id, None)
                    else:
                        self.env[tt.id] = vv
        else:
            for n_ in self._targets(t):
                self.env.pop(n_, None)

    # ------------------------------------------------------------------ statements
    def truth(self, test):
        if isinstance(test, ast.Compare) and len(test.ops) == 1 and isinstance(test.left, ast.Name) and test.left.id in self.consts and isinstance(test.comparators[0], ast.Constant):
            a, b = self.consts[test.left.id], test.comparators[0].value
            op = test.ops[0]
            if isinstance(op, (ast.Eq, ast.Is)):
                return a == b
            if isinstance(op, (ast.NotEq, ast.IsNot)):
                return a != b
        if isinstance(test, ast.Compare) and len(test.ops) == 1 and isinstance(test.ops[0], (ast.Is, ast.IsNot)) and isinstance(test.left, ast.Name) \
                and isinstance(test.comparators[0], ast.Constant) and test.comparators[0].value is None and test.left.id in self.env:
            # `x is None` for a value this model knows: the None a helper returned on one of its paths, or a tuple it returned on another
            v = self.env[test.left.id]
            isnone = None
            if isinstance(v, Tup):
                isnone = False
            elif isinstance(v, Lam) and v.scalar and isinstance(v.body, ast.Constant):
                isnone = v.body.value is None
            if isnone is not None:
                return isnone == isinstance(test.ops[0], ast.Is)
        t = astq.const_test(test, self.consts)
        return t if isinstance(t, bool) else None

    def cond_ast(self, test):
        v = self.ev(test)
        lv = self.as_lam(v) if v is not None else None
        if lv is not None and lv.scalar:
            return lv.body
        return copy.deepcopy(test)

    def block(self, stmts, top=False):
        plen = len(self.path)
        try:
            for k, s in enumerate(stmts):
                if self.exited:
                    return
                self.stmt(s, stmts[k + 1:])
        finally:
            del self.path[plen:]        # conditions added by early exits hold for the rest of THIS block only

    def ends(self, body):
        return bool(body) and isinstance(body[-1], (ast.Continue, ast.Break, ast.Return, ast.Raise))

    def stmt(self, s, rest):
        if self.depth == 0:
            self.site = s
        if isinstance(s, ast.FunctionDef):
            self.env[s.name] = Closure(s)
            return
        if isinstance(s, ast.Assign) and len(s.targets) == 1:
            if isinstance(s.value, ast.Call) and self.kinds[-1] in ("fn", "loop") and rest:
                alts = self.call_alternatives(s.value)
                if alts is not None and len(alts) > 1:
                    # the helper returns different things on different paths (None / a tuple): the rest of this block is followed once
                    # per alternative, under the conditions of that return
                    env0 = dict(self.env)
                    plen = len(self.path)
                    for extra, val in alts:
                        self.env = dict(env0)
                        self.path.extend(extra)
                        self.bind_value(s.targets[0], val)
                        self.exited = False
                        self.block(rest)
                        del self.path[plen:]
                    self.exited = True          # the rest of the block has been executed
                    return
            self.assign(s.targets[0], s.value, s)
            return
        if isinstance(s, ast.AnnAssign) and s.value is not None:
            self.assign(s.target, s.value, s)
            return
        if isinstance(s, ast.AugAssign):
            if isinstance(s.target, ast.Name):
                cur = self.env.get(s.target.id)
                v = self.ev(ast.BinOp(left=s.target, op=s.op, right=s.value)) if cur is not None else None
                if v is None:
                    self.env.pop(s.target.id, None)
                else:
                    self.env[s.target.id] = v
            return
        if isinstance(s, ast.Expr):
            c = s.value
            if isinstance(c, ast.Call) and isinstance(c.func, ast.Attribute) and c.func.attr == "append" and isinstance(c.func.value, ast.Name) and len(c.args) == 1:
                v = self.ev(c.args[0])
                self.appends.append({"list": c.func.value.id, "value": v, "node": c, "path": self.premises(), "loops": list(self.loops), "fi": self.fi, "site": self.site})
                return
            if isinstance(c, ast.Call):
                self.ev(c)
            return
        if isinstance(s, ast.If):
            t = self.truth(s.test)
            if t is True:
                self.block(s.body)
                return
            if t is False:
                self.block(s.orelse)
                return
            cond = self.cond_ast(s.test)
            env0 = dict(self.env)
            self.kinds.append("if")
            self.path.append((cond, True))
            self.block(s.body)
            ex1, self.exited = self.exited, False
            env1 = self.env
            self.path.pop()
            self.env = dict(env0)
            self.path.append((cond, False))
            self.block(s.orelse)
            ex2, self.exited = self.exited, False
            env2 = self.env
            self.path.pop()
            self.kinds.pop()
            e1 = self.ends(s.body) or ex1
            e2 = self.ends(s.orelse) or ex2
            if e1 and not e2:
                self.env = env2
                self.path.append((cond, False))     # the rest of the block runs only when the test failed
            elif e2 and not e1:
                self.env = env1
                self.path.append((cond, True))
            else:
                self.env = {k: env1[k] for k in env1 if k in env2 and (env1[k] is env2[k] or repr(env1[k]) == repr(env2[k]))}
            return
        if isinstance(s, ast.For):
            env0 = dict(self.env)
            plen = len(self.path)
            rng = self.cname(s.iter) if isinstance(s.iter, ast.Call) else None
            d = None
            if rng in ("range", "tqdm.trange") and isinstance(s.target, ast.Name):
                # a counting loop: the target is the (scalar) index itself
                self.env[s.target.id] = scal(N(s.target.id))
                d = Dim(s.target.id, None)
            else:
                try:
                    d = self.bind_iter(s.target, s.iter)
                except Unknown as u:
                    self.note(s.iter, str(u))
                    d = None
                if d is None:
                    for n_ in self._targets(s.target):
                        self.env[n_] = scal(N(n_))      # element of an iterable that is not modelled: an opaque value
                    d = Dim(None)
            self.loops.append((d.var, d, s))
            self.kinds.append("loop")
            try:
                self.block(s.body)
            finally:
                self.kinds.pop()
            self.exited = False
            self.loops.pop()
            del self.path[plen:]
            # names (re)bound in the loop are unknown afterwards, except lists that were appended to
            for n_ in astq.stored_names(s):
                if n_ in self.env and not isinstance(self.env.get(n_), LstV):
                    self.env.pop(n_, None)
            if s.orelse:
                self.block(s.orelse)
            return
        if isinstance(s, (ast.With,)):
            self.kinds.append("other")
            try:
                self.block(s.body)
            finally:
                self.kinds.pop()
            return
        if isinstance(s, ast.Try):
            self.kinds.append("other")
            try:
                self.block(s.body)
            finally:
                self.kinds.pop()
            return
        if isinstance(s, ast.Return):
            v = self.ev(s.value) if s.value is not None else scal(C(None))
            self.returns.append({"value": v, "node": s, "path": self.premises(), "fi": self.fi})
            self.exited = True
            return
        if isinstance(s, (ast.Continue, ast.Break, ast.Raise)):
            self.exited = True
            return

    def assign(self, t, value, s):
        if isinstance(t, ast.Name):
            if isinstance(value, (ast.List,)) and not value.elts:
                self.env[t.id] = LstV(t.id)
                return
            if isinstance(value, ast.Lambda):
                self.env[t.id] = Closure(value)
                return
            if isinstance(value, ast.Call) and isinstance(value.func, ast.Name) and value.func.id == "slice" and 1 <= len(value.args) <= 3 and not value.keywords \
                    and "slice" not in self.env:
                bs = []
                for z in value.args:
                    if isinstance(z, ast.Constant) and z.value is None:
                        bs.append(None)
                    else:
                        zl = self.as_lam(self.ev(z)) if self.ev(z) is not None else None
                        if zl is None or not zl.scalar:
                            bs = None
                            break
                        bs.append(zl.body)
                if bs is not None:
                    self.env[t.id] = SliceV(None, bs[0]) if len(bs) == 1 else SliceV(bs[0], bs[1], bs[2] if len(bs) == 3 else None)
                    return
            if isinstance(value, (ast.Compare, ast.BoolOp, ast.UnaryOp, ast.Name)) or \
                    (isinstance(value, ast.Call) and isinstance(value.func, ast.Name) and value.func.id == "isinstance"):
                tv = self.truth(value)
                if isinstance(tv, bool):
                    self.consts[t.id] = tv      # a flag derived from the seeded constants
                else:
                    self.consts.pop(t.id, None)
            v = self.ev(value)
            if v is None:
                self.env.pop(t.id, None)
            else:
                self.env[t.id] = v
            return
        if isinstance(t, (ast.Tuple, ast.List)):
            if isinstance(value, (ast.Tuple, ast.List)) and len(value.elts) == len(t.elts):
                vals = [self.ev(x) if not (isinstance(x, ast.List) and not x.elts) else "LIST" for x in value.elts]
                for tt, vv in zip(t.elts, vals):
                    if isinstance(tt, ast.Name):
                        if vv == "LIST":
                            self.env[tt.id] = LstV(tt.id)
                        elif vv is None:
                            self.env.pop(tt.id, None)
                        else:
                            self.env[tt.id] = vv
                return
            v = self.ev(value)
            if isinstance(v, Tup) and len(v.items) == len(t.elts):
                for tt, vv in zip(t.elts, v.items):
                    if isinstance(tt, ast.Name):
                        if vv is None:
                            self.env.pop(tt.id, None)
                        else:
                            self.env[tt.id] = vv
                return
            lv = self.as_lam(v) if v is not None and not isinstance(v, Tup) else None
            if lv is not None and lv.dims and lv.dims[0].var is not None and isinstance(value, (ast.GeneratorExp, ast.ListComp)):
                # a, b, c = (f(k) for k in (..)): not followed
                pass
            for tt in t.elts:
                for n_ in self._targets(tt):
                    self.env.pop(n_, None)
            return
        if isinstance(t, ast.Subscript) and isinstance(t.value, ast.Name):
            idx = []
            for x in astq.index_elts(t):
                if isinstance(x, ast.Slice):
                    idx.append(x)
                else:
                    v = self.ev(x)
                    idx.append(self.as_lam(v) if v is not None and not isinstance(v, Tup) else None)
            v = self.ev(value)
            self.stores.append({"array": t.value.id, "index": idx, "value": v, "node": s, "path": self.premises(), "loops": list(self.loops), "fi": self.fi, "site": self.site})
            # a masked store keeps the array known only in its functional form: not modelled here
            return

    def run(self):
        self.block(self.fi.node.body, top=True)
        return self


def pretty(lam_or_ast):
    if isinstance(lam_or_ast, Lam):
        return repr(lam_or_ast)
    return astq.src(lam_or_ast, 100) if isinstance(lam_or_ast, ast.AST) else repr(lam_or_ast)
