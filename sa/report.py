"""Obligations, verdicts, evidence, known findings, replay files."""
import hashlib
import json
import os
import pathlib
import time

VERIF = pathlib.Path(__file__).resolve().parent.parent
EVID = VERIF / "evidence"
REPLAY = VERIF / "replay"
KNOWN = VERIF / "known_findings.json"

HOLDS, VIOLATED, UNDECIDED = "holds", "violated", "undecided"


class Obligation:
    __slots__ = ("rule", "fn", "role", "status", "detail", "witness", "file", "line", "config")

    def __init__(self, rule, fn, role, status, detail="", witness="", file="", line=0, config=""):
        self.rule = rule
        self.fn = fn
        self.role = role
        self.status = status
        self.detail = detail
        self.witness = witness
        self.file = file
        self.line = line
        self.config = config

    def key(self):
        """finding key: rule, qualified function, semantic role, witness - never a line number"""
        return f"{self.rule}|{self.fn}|{self.role}|{self.witness}"

    def ident(self):
        """identity of the rule instance (for distinct counting)"""
        return f"{self.rule}|{self.fn}|{self.role}|{self.config}"

    def as_dict(self):
        return {"rule": self.rule, "function": self.fn, "role": self.role, "status": self.status,
                "detail": self.detail, "witness": self.witness, "file": self.file, "line": self.line,
                "config": self.config}


class Run:
    def __init__(self, prop, tier="quick", seed=0):
        self.prop = prop
        self.tier = tier
        self.seed = seed
        self.obs = []
        self.rules = {}          # rule id -> one-line statement
        self.min_instances = {}  # rule id -> minimum distinct instances (vacuity guard)
        self.notes = []
        self.assumptions = []
        self.trusted = set()
        self.extra = {}
        self.t0 = time.time()
        self.errors = []

    # -- declaration
    def rule(self, rid, text, min_instances=1):
        self.rules[rid] = text
        self.min_instances[rid] = min_instances

    def ob(self, rule, fn, role, ok, detail="", witness="", node=None, file="", config=""):
        """ok: True -> holds, False -> violated, None -> undecided"""
        if ok is False and ("?alt" in str(detail) or "?alt" in str(witness)):
            # the degree interpreter joined alternatives of different degree (a branch it could not decide): "either", not "sum";
            # nothing follows about the value that is really computed
            ok, detail = None, "alternatives of different degree were joined on an undecided branch (marked ?alt): " + str(detail)
        status = HOLDS if ok is True else (VIOLATED if ok is False else UNDECIDED)
        line = getattr(node, "lineno", 0) if node is not None else 0
        o = Obligation(rule, fn, role, status, detail, witness if status != HOLDS else "", file, line, config)
        self.obs.append(o)
        return o

    def error(self, msg):
        self.errors.append(msg)

    def under(self, mapping, skip=None):
        """a view of this run for rules shared between properties: obligations reported under rule R arrive here under mapping[R]
        (dropped when R is not mapped or skip(config) is true); rule declarations of the shared code are ignored"""
        return _RuleMap(self, mapping, skip)

    def assume(self, text):
        if text not in self.assumptions:
            self.assumptions.append(text)

    # -- results
    def violations(self):
        return [o for o in self.obs if o.status == VIOLATED]

    def undecided(self):
        return [o for o in self.obs if o.status == UNDECIDED]


def load_known():
    if not KNOWN.exists():
        return []
    return json.loads(KNOWN.read_text()).get("findings", [])


def finish(run, program_stats=None, selftest=None, replay_key=None):
    """Print the report, write evidence and replay files, return the exit code."""
    known = [k for k in load_known() if k.get("property") == run.prop and k.get("status") == "open"]
    known_keys = {k["key"]: k for k in known}
    viol = run.violations()
    new = []
    seen_known = {}
    seen_new = {}
    for o in viol:
        k = o.key()
        if k in known_keys:
            seen_known.setdefault(k, o)
        else:
            seen_new.setdefault(k, o)
    # vacuity guard
    per_rule = {}
    for o in run.obs:
        per_rule.setdefault(o.rule, set()).add(o.ident())
    for rid, mn in run.min_instances.items():
        n = len(per_rule.get(rid, ()))
        if n < mn:
            run.error(f"rule {rid} matched {n} instance(s), fewer than the {mn} confirmed by hand (vacuous)")
    und = run.undecided()
    for o in und:
        run.error(f"undecided: {o.rule} at {o.fn} [{o.role}] {o.detail}")

    # ---- console report
    print(f"== {run.prop} tier={run.tier} :: {len(run.obs)} obligation evaluations, "
          f"{sum(len(v) for v in per_rule.values())} distinct rule instances, {len(run.rules)} rules")
    if program_stats:
        print("   analysed: " + ", ".join(f"{v} {k}" for k, v in program_stats.items()))
    for rid, text in run.rules.items():
        obs = [o for o in run.obs if o.rule == rid]
        nh = sum(1 for o in obs if o.status == HOLDS)
        nv = sum(1 for o in obs if o.status == VIOLATED)
        nu = sum(1 for o in obs if o.status == UNDECIDED)
        print(f"   [{rid}] {len(per_rule.get(rid, ()))} instances: {nh} hold, {nv} violated, {nu} undecided -- {text}")
    for n in run.notes:
        print("   note: " + n)
    if selftest:
        print(f"   self-test: {selftest.get('mutants_detected', 0)}/{selftest.get('mutants', 0)} seeded mutants detected, "
              f"{selftest.get('rewrites_silent', 0)}/{selftest.get('rewrites', 0)} behaviour-preserving rewrites silent")

    code = 0
    for k, o in seen_known.items():
        print(f"KNOWN-FINDING: property={run.prop} {known_keys[k].get('what', o.detail)} [{o.fn}: {o.rule}]")
    scratch = bool(os.environ.get("VERIF_SCRATCH"))
    if not scratch:
        REPLAY.mkdir(exist_ok=True)
    for k, o in seen_new.items():
        h = hashlib.sha1(k.encode()).hexdigest()[:10]
        rp = REPLAY / f"{run.prop}-{h}.json"
        if not scratch:
            rp.write_text(json.dumps({"property": run.prop, "key": k, "obligation": o.as_dict(),
                                  "how": f"python3-vt check.py --replay {rp}"}, indent=1))
        print(f"   violated: {o.rule} at {o.file}:{o.line} in {o.fn} [{o.role}] -- {o.detail}")
        print(f"VIOLATION property={run.prop} replay={rp}")
        code = 1
    if run.errors and code == 0:
        for e in run.errors[:20]:
            print(f"ANALYSIS-ERROR property={run.prop} {e}")
        code = 2
    elif run.errors:
        for e in run.errors[:20]:
            print(f"   analysis-error (in addition): {e}")

    # ---- evidence
    distinct = sum(len(v) for v in per_rule.values())
    samples = []
    seen_rules = {}
    for o in run.obs:
        if seen_rules.get(o.rule, 0) < 3:
            seen_rules[o.rule] = seen_rules.get(o.rule, 0) + 1
            samples.append(o.as_dict())
    ev = {
        "property_id": run.prop,
        "tier": run.tier,
        "seed": run.seed,
        "level": "other",
        "coverage": {
            "explanation": ("static analysis of /repo/src/pyoma2 (ast only, nothing executed): every rule instance "
                            "listed under 'rules' was located through the resolved program model and evaluated on "
                            "every configuration of the property's obligation table; counts below are measured on this run"),
            "rule": "; ".join(f"{k}: {v}" for k, v in run.rules.items()),
            "evaluations": len(run.obs),
            "distinct_nontrivial": distinct,
            "obligations": len(run.obs),
            "discharged": sum(1 for o in run.obs if o.status == HOLDS),
            "samples": samples[:40],
            "rules": {rid: {"statement": t, "instances": len(per_rule.get(rid, ())),
                            "min_instances": run.min_instances.get(rid, 1)} for rid, t in run.rules.items()},
            "program": program_stats or {},
            "trusted_base": sorted(run.trusted),
            "known_findings_reported": sorted(seen_known),
            "notes": run.notes,
            "exhaustive": True,
        },
        "assumptions": run.assumptions,
        "wall_s": round(time.time() - run.t0, 3),
        "violations": len(seen_new),
    }
    ev["coverage"].update(run.extra)
    if selftest:
        ev["coverage"]["selftest"] = selftest
    if run.errors:
        ev["coverage"]["analysis_errors"] = run.errors[:50]
    if not scratch:
        EVID.mkdir(exist_ok=True)
        (EVID / f"{run.prop}.json").write_text(json.dumps(ev, indent=1, default=str))
    if code == 0:
        print(f"OK property={run.prop} ({ev['coverage']['discharged']}/{len(run.obs)} obligations hold"
              f"{', ' + str(len(seen_known)) + ' known finding(s)' if seen_known else ''}; {ev['wall_s']} s)")
    return code


class _RuleMap:
    def __init__(self, run, mapping, skip=None):
        self._run, self._map, self._skip = run, dict(mapping), skip
        self.extra = run.extra

    def rule(self, rid, text, min_instances=1):
        pass

    def assume(self, text):
        self._run.assume(text)

    def error(self, msg):
        self._run.error(msg)

    def ob(self, rule, fn, role, ok, detail="", witness="", node=None, file="", config=""):
        if rule not in self._map or (self._skip is not None and self._skip(config)):
            return None
        return self._run.ob(self._map[rule], fn, role, ok, detail, witness, node, file, config)
