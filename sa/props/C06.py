"""C06 - FDD picks the dominant line in the band and its singular vector.

Decided (structural): R-band - both band limits are argmin |freq - (sel -+ DF)| on the same grid; R-ratio - the scanned quantity is the
ratio of the FIRST to the SECOND singular value over ONE slice of the grid, and the selected index is its arg-max (argmax, or
argmin |x - max x|); R-rebase - the arg-reduction is relative to the slice origin, and the returned frequency and singular vector are
read at origin + relative index; R-vector - SD_svalsvec stores, per line, the singular values (monotone map of them) and the conjugate
transposed left singular vectors of ONE svd call (vectors in rows), and FDD_mpe / SDOF_bellandMS read vector k as S_vec[k, :, line]
(writer/reader agreement).  Unit normalisation: see C08.  Not decided: MAC = 1 as a number, unitarity (delegated to np.linalg.svd).
"""
import ast

from .. import astq, symidx
from ..program import rel, AnalysisError

MPE = "functions.fdd.FDD_mpe"
SVD = "functions.fdd.SD_svalsvec"


def check(prog, run):
    run.rule("R-dtype", "the returned frequencies are stored in a floating-point table whatever the caller typed (no table allocated like an argument that was converted "
             "without a dtype receives values of another origin)", 0)
    reach_ = sorted(q_ for q_ in prog.reachable([prog.func("functions.fdd.FDD_mpe").qual]) if q_ in prog.functions and not q_.startswith("pyoma2.functions.plot"))
    astq.inherited_dtype_rule(prog, run, "R-dtype", reach_)
    # the stored decomposition stays the decomposition: the extraction writes into nothing that may be (a view of) the arrays it is handed
    run.rule("R-inputs-intact", "FDD_mpe and what it calls change none of their array arguments in place (stores, augmented assignments, out=, in-place methods, "
             "through views and through helpers that hand back their argument): result.S_val / S_vec are the same after mpe as before", 1)
    from . import C15
    C15.shared_data(prog, run.under({"R-shared-data": "R-inputs-intact"}), reach_)
    run.rule("R-band", "band limits = argmin |freq - (sel - DF)|, argmin |freq - (sel + DF)| on the same grid", 2)
    run.rule("R-ratio", "scanned quantity = Sval[0,0,a:b] / Sval[1,1,a:b] over one slice; selection = arg-max of it", 3)
    run.rule("R-rebase", "frequency and vector are read at slice origin + relative index", 2)
    run.rule("R-vector", "writer stores conj-transposed left singular vectors (rows) and the singular values of one svd; readers index [k, :, line]", 5)
    fi = prog.func(MPE)
    f = rel(prog.mods[fi.mod].path)
    pos, _, _, _ = astq.params_of(fi.node)
    pSval, pSvec, pfreq, psel, pDF = pos[0], pos[1], pos[2], pos[3], pos[4]
    # the class layer hands THIS call's band and the stored decomposition to the routine
    run.rule("R-handover", "FDD.mpe / mpe_from_plot pass result.S_val, result.S_vec, result.freq and the DF of this call to FDD_mpe", 4)
    nh = 0
    for mname in ("mpe", "mpe_from_plot"):
        for ci, m in prog.class_methods("pyoma2.algorithms", mname):
            want = {pSval: {"self.result.S_val"}, pSvec: {"self.result.S_vec"}, pfreq: {"self.result.freq"}, pDF: {"DF"}}
            if mname == "mpe":
                want[psel] = {"sel_freq"}
            for c, p_, ok, detail in astq.handover(prog, m, fi.qual, want):
                nh += 1
                run.ob("R-handover", m.qual, f"{mname} -> FDD_mpe.{p_}", ok, detail, witness=detail[:90], file=rel(prog.mods[m.mod].path), node=c, config=p_)
    if not nh:
        run.ob("R-handover", "pyoma2.algorithms", "callers of FDD_mpe", None, "no mpe method calling FDD_mpe found")
    # the first stage of EFDD / FSDD is this same peak search: the band it scans is the DF1 of the call, on the stored spectrum and grid
    from .C07 import handover_rule as efdd_handover
    efdd_handover(prog, run.under({"R-handover": "R-handover"}), only=("Sy", "freq", "DF1", "sel_freq"))
    efdd = prog.func("functions.fdd.EFDD_mpe")
    for c, p_, ok, detail in astq.handover(prog, efdd, fi.qual, {pDF: {"DF1"}, psel: {"sel_freq"}, pfreq: {"freq"}}):
        run.ob("R-handover", efdd.qual, f"EFDD_mpe -> FDD_mpe.{p_}", ok, detail, witness=detail[:90], file=f, node=c, config=p_)

    def ob(rule, role, ok, detail, witness="", node=None):
        run.ob(rule, fi.qual, role, ok, detail, witness=witness or detail[:90], file=f, node=node)
    # the appended frequency and shape
    apps = {}
    for n in ast.walk(fi.node):
        if isinstance(n, ast.Call) and isinstance(n.func, ast.Attribute) and n.func.attr == "append" and isinstance(n.func.value, ast.Name) and len(n.args) == 1:
            apps.setdefault(n.func.value.id, []).append(n)
    fapp = vapp = None
    for lst, calls in apps.items():
        x = astq.expr_at(fi, calls[0], calls[0].args[0])
        if isinstance(x, ast.Subscript) and isinstance(x.value, ast.Name) and x.value.id == pfreq:
            fapp = (calls[0], x)
        if any(isinstance(s, ast.Subscript) and isinstance(s.value, ast.Name) and s.value.id == pSvec for s in ast.walk(x)) and vapp is None:
            vapp = (calls[0], x)
    lowered = _lam_outputs(prog, fi, pSval, pSvec, pfreq, psel, pDF) if (fapp is None or vapp is None) else None
    if lowered is not None:
        # the index-level model of the routine (sa/lamdom.py): element k of the returned frequencies / shapes as scalar expressions in
        # sel_freq[k], whatever mixture of loops, helpers and batched searches computes them
        fapp, vapp = lowered
    if fapp is None or vapp is None:
        ob("R-rebase", "appended frequency / shape", None, "appends of freq[...] / Svec[...] not found")
        return
    idx = fapp[1].slice
    # idx = origin + argreduce(...)
    rel_i = origin = None
    if isinstance(idx, ast.BinOp) and isinstance(idx.op, ast.Add):
        for a, b in ((idx.left, idx.right), (idx.right, idx.left)):
            arr_b = astq.argreduce(prog, fi, b, astq.ARGMAX | astq.ARGMIN)
            if arr_b is not None and (rel_i is None or any(isinstance(x, ast.Name) and x.id == pSval for x in ast.walk(arr_b))):
                origin, rel_i = a, b
    if rel_i is None:
        arr0 = astq.argreduce(prog, fi, idx, astq.ARGMAX | astq.ARGMIN)
        # a recognised different construct: the position inside a slice that does not start at line 0, used as a line number
        bare = arr0 is not None and any(isinstance(s_, ast.Subscript) and any(isinstance(e_, ast.Slice) and e_.lower is not None
                                        and not (isinstance(e_.lower, ast.Constant) and e_.lower.value == 0) for e_ in astq.index_elts(s_)) for s_ in ast.walk(arr0))
        ob("R-rebase", "line index = slice origin + relative index", False if bare else None,
           f"freq is indexed with `{astq.src(idx, 80)}`" + (": an arg-reduction over a slice used without adding the slice origin back" if bare else ": not of the form origin + arg-reduction"), astq.src(idx, 60), fapp[0])
        return
    red = astq.argreduce(prog, fi, rel_i, astq.ARGMAX | astq.ARGMIN)
    kind = "argmax" if astq.callee_name(prog, fi, rel_i) in astq.ARGMAX else "argmin"
    # the scanned quantity
    scanned = red
    if kind == "argmin":
        inner = astq.strip_abs(prog, fi, red)
        okm = False
        if isinstance(inner, ast.BinOp) and isinstance(inner.op, ast.Sub):
            for a, b in ((inner.left, inner.right), (inner.right, inner.left)):
                if isinstance(b, ast.Call) and astq.callee_name(prog, fi, b) in ("numpy.max", "numpy.amax", "numpy.nanmax", "max") and b.args and astq.dump(b.args[0]) == astq.dump(a):
                    scanned, okm = a, True
        ob("R-ratio", "selection = arg-max of the scanned quantity", okm, f"`{astq.src(rel_i, 90)}`" + ("" if okm else " is not argmin|x - max(x)|"), astq.src(rel_i, 70), fapp[0])
    else:
        ob("R-ratio", "selection = arg-max of the scanned quantity", True, f"`{astq.src(rel_i, 70)}`", node=fapp[0])
    okr = isinstance(scanned, ast.BinOp) and isinstance(scanned.op, ast.Div)
    slices = []
    if okr:
        for side, want in ((scanned.left, 0), (scanned.right, 1)):
            ok1 = isinstance(side, ast.Subscript) and isinstance(side.value, ast.Name) and side.value.id == pSval and len(astq.index_elts(side)) == 3
            if ok1:
                el = astq.index_elts(side)
                ok1 = all(isinstance(el[i], ast.Constant) and el[i].value == want for i in (0, 1)) and isinstance(el[2], ast.Slice)
                if ok1:
                    slices.append(el[2])
            okr = okr and ok1
    if not okr:
        # recognised as something else only when it IS written in terms of the singular values: another pair of them, or one alone
        def _sv(e_):
            return isinstance(e_, ast.Subscript) and isinstance(e_.value, ast.Name) and e_.value.id == pSval
        other = (isinstance(scanned, ast.BinOp) and isinstance(scanned.op, ast.Div) and _sv(scanned.left) and _sv(scanned.right)) or _sv(scanned)
        okr = False if other else None
    ob("R-ratio", "scanned = first / second singular value", okr, f"`{astq.src(scanned, 100)}`" + ("" if okr else " is not Sval[0,0,a:b] / Sval[1,1,a:b]"), astq.src(scanned, 80), fapp[0])
    if len(slices) == 2:
        same = astq.dump(slices[0]) == astq.dump(slices[1])
        ob("R-ratio", "numerator and denominator over the same slice", same, f"`{astq.src(slices[0], 60)}` vs `{astq.src(slices[1], 60)}`", "different slices", fapp[0])
        lo = slices[0].lower
        okb = lo is not None and astq.dump(lo) == astq.dump(origin)
        ob("R-rebase", "index added back = origin of the scanned slice", okb, f"origin `{astq.src(origin, 60)}`, slice starts at `{astq.src(lo, 60) if lo is not None else 0}`", astq.src(origin, 60), fapp[0])
        # band limits
        for bound, sign, nm in ((slices[0].lower, ast.Sub, "lower"), (slices[0].upper, ast.Add, "upper")):
            # the limit itself, or - when it is clipped against something else (max(lo, first line of a range)) - an arg-min inside it
            cands = [bound] if bound is not None else []
            if bound is not None and astq.argreduce(prog, fi, bound, astq.ARGMIN) is None:
                xb = astq.expr_at(fi, fapp[0], bound) if hasattr(astq, "expr_at") else bound
                cands = [c_ for c_ in ast.walk(xb) if isinstance(c_, ast.Call) and astq.argreduce(prog, fi, c_, astq.ARGMIN) is not None]
            ok = None if not cands else False
            for cand in cands:
                a = astq.argreduce(prog, fi, cand, astq.ARGMIN)
                d = astq.strip_abs(prog, fi, a) if a is not None else None
                if isinstance(d, ast.BinOp) and isinstance(d.op, ast.Sub) and isinstance(d.left, ast.Name) and d.left.id == pfreq:
                    r = d.right
                    # the selected frequency: the loop variable over sel_freq, or sel_freq[k] in the index-level model
                    is_sel = lambda z: isinstance(z, ast.Name) or (isinstance(z, ast.Subscript) and isinstance(z.value, ast.Name) and z.value.id == psel)
                    if isinstance(r, ast.BinOp) and isinstance(r.op, sign) and isinstance(r.right, ast.Name) and r.right.id == pDF and is_sel(r.left):
                        ok = True
                elif d is None or not isinstance(d, ast.BinOp):
                    ok = None if ok is False else ok
            ob("R-band", f"{nm} limit = argmin |freq - (sel {'-' if sign is ast.Sub else '+'} DF)|", ok, f"`{astq.src(bound, 90) if bound is not None else None}`", astq.src(bound, 70) if bound is not None else "none", fapp[0])
    # the vector read at the same index
    vsub = [s for s in ast.walk(vapp[1]) if isinstance(s, ast.Subscript) and isinstance(s.value, ast.Name) and s.value.id == pSvec]
    v = vsub[0]
    el = astq.index_elts(v)
    okv = len(el) == 3 and astq.dump(el[2]) == astq.dump(idx)
    dom = len(el) == 3 and isinstance(el[0], ast.Constant) and el[0].value == 0
    ob("R-vector", "returned shape is the DOMINANT (first) singular vector", dom, f"`{astq.src(v, 60)}`", astq.src(v, 60), vapp[0])
    ob("R-rebase", "singular vector read at the same line as the frequency", okv, f"`{astq.src(v, 90)}`", astq.src(v, 70), vapp[0])
    writer_reader(prog, run, [(fi, v)])


class _Norm(ast.NodeTransformer):
    """X[:] of a vector is X"""

    def visit_Subscript(self, node):
        self.generic_visit(node)
        if isinstance(node.value, ast.Name) and astq.is_full_slice(node.slice):
            return node.value
        return node


def _lam_outputs(prog, fi, pSval, pSvec, pfreq, psel, pDF):
    """((node, freq[...] expression), (node, expression containing Svec[...])) of one element of the two returned arrays, or None"""
    from .. import lamdom
    try:
        it = lamdom.Interp(prog, fi, ranks={pSval: 3, pSvec: 3, pfreq: 1, psel: 1, pDF: 0}, consts={})
        it.run()
    except Exception:
        return None
    rets = [r for r in it.returns if isinstance(r["value"], lamdom.Tup) and len(r["value"].items) == 2]
    if not rets:
        return None
    r = rets[-1]
    out = []
    for v in r["value"].items:
        lv = it.as_lam(v) if v is not None else None
        if lv is None:
            return None
        out.append(ast.fix_missing_locations(_Norm().visit(lv.body)))
    fexp, vexp = out
    if not (isinstance(fexp, ast.Subscript) and isinstance(fexp.value, ast.Name) and fexp.value.id == pfreq):
        return None
    if not any(isinstance(x, ast.Subscript) and isinstance(x.value, ast.Name) and x.value.id == pSvec for x in ast.walk(vexp)):
        return None
    return (r["node"], fexp), (r["node"], vexp)


def writer_reader(prog, run, reads):
    """axis-role interpretation of SD_svalsvec (sa/axisdom.py): whatever the spelling (per-line loop, batched decomposition, stacking),
    the returned vector array must carry (vector number, component, line) with conjugated left singular vectors, the value array the
    singular values of the SAME decomposition with the line axis last; the readers must index the vector axis with a number and
    take the whole component axis"""
    from .. import axisdom
    w = prog.func(SVD)
    fw = rel(prog.mods[w.mod].path)
    pos = astq.params_of(w.node)[0]
    it = axisdom.Interp(prog, w, {pos[0]: ("row", "col", "line")})
    rets = it.run()
    tup = [(v, n) for v, n in rets if isinstance(v, list) and len(v) >= 2]
    if not tup:
        raise AnalysisError("anchor lost: SD_svalsvec return")
    (val, vec), rnode = tup[-1][0][:2], tup[-1][1]
    layout = None
    if vec is None:
        run.ob("R-vector", w.qual, "stored vectors = conj(U)^T of the line's svd (vector k in row k)", None, "layout of the returned vector array not recognised", file=fw, node=rnode)
    else:
        roles = vec.roles
        is_left = vec.part == 0 and not vec.swapped
        known = set(roles) == {"vec", "comp", "line"} and len(roles) == 3
        if vec.part is not None and not is_left:
            ok = False          # right singular vectors / decomposition of the transposed matrices: not the left singular vectors at all
        else:
            ok = None if (vec.part is None or not known) else (vec.conj and roles[:2] == ("vec", "comp"))
        layout = "rows" if known and roles.index("vec") < roles.index("comp") else ("cols" if known else None)
        why = f"returned vector array: axes {roles}, " + (f"part {vec.part} of the decomposition" if vec.part is not None else "origin unknown") + f", conjugated {vec.conj}" + \
            (", of the TRANSPOSED matrices" if vec.swapped else "")
        run.ob("R-vector", w.qual, "stored vectors = conj(U)^T of the line's svd (vector k in row k)", ok, why, f"part{vec.part} axes={roles} conj={vec.conj}", file=fw, node=rnode)
    if val is None:
        run.ob("R-vector", w.qual, "stored values = singular values (or their square roots) on the diagonal", None, "layout of the returned value array not recognised", file=fw, node=rnode)
    else:
        okv = None if val.part is None else (val.part == 1 and val.mono and not val.swapped)
        run.ob("R-vector", w.qual, "stored values = singular values (or their square roots) on the diagonal", okv,
               f"returned value array: axes {val.roles}, part {val.part} of the decomposition, monotone image {val.mono}", f"part{val.part} mono={val.mono}", file=fw, node=rnode)
    n_svd = 0
    for c in ast.walk(w.node):
        if isinstance(c, ast.Call) and astq.callee_name(prog, w, c) in ("numpy.linalg.svd", "scipy.linalg.svd"):
            n_svd += 1
            h = astq.kwarg(c, "hermitian", 3)
            okh = h is None or (isinstance(h, ast.Constant) and h.value is False)
            run.ob("R-vector", w.qual, "general SVD of the line's matrix (no Hermitian shortcut: half spectra / correlogram spectra are not Hermitian)", okh,
                   f"`{astq.src(c, 70)}`", witness=astq.src(h, 40) if h is not None else "", file=fw, node=c)
    same = None
    if val is not None and vec is not None and val.origin is not None and vec.origin is not None:
        same = val.origin == vec.origin
    elif n_svd == 0:
        same = False
    run.ob("R-vector", w.qual, "values and vectors come from the same svd call", same,
           "one decomposition feeds both returned arrays" if same else ("the two returned arrays stem from different decompositions" if same is False else "origin of the returned arrays not recognised"),
           "origin", file=fw, node=w.node)
    okmv = None
    if val is not None and vec is not None:
        okmv = val.roles[-1:] == ("line",) and vec.roles[-1:] == ("line",)
    run.ob("R-vector", w.qual, "line axis moved last for values and vectors alike", okmv,
           f"value axes {val.roles if val is not None else '?'}, vector axes {vec.roles if vec is not None else '?'}", "layout", file=fw, node=rnode)
    # readers
    bell = prog.func("functions.fdd.SDOF_bellandMS")
    allreads = list(reads)
    for n in ast.walk(bell.node):
        if isinstance(n, ast.Subscript) and isinstance(n.value, ast.Name) and n.value.id == "Svec" and len(astq.index_elts(n)) == 3:
            allreads.append((bell, n))
    seen = set()
    for rf, sub in allreads:
        el = astq.index_elts(sub)
        key = (rf.qual, astq.src(sub))
        if key in seen:
            continue
        seen.add(key)
        import re as _re
        # (in the index-level model the whole component axis shows as its own index variable a<n>)
        whole = lambda z: astq.is_full_slice(z) or (isinstance(z, ast.Name) and _re.fullmatch(r"a\d+", z.id) is not None)
        rows_form = whole(el[1]) and not isinstance(el[0], ast.Slice) and not whole(el[0])
        cols_form = whole(el[0]) and not isinstance(el[1], ast.Slice) and not whole(el[1])
        ok = None if layout is None else ((layout == "rows" and rows_form) or (layout == "cols" and cols_form))
        run.ob("R-vector", rf.qual, "reader takes vector k as S_vec[k, :, line]" if layout != "cols" else "reader takes vector k as S_vec[:, k, line]", ok,
               f"`{astq.src(sub)}` with vectors stored in {layout}", astq.src(sub), file=rel(prog.mods[rf.mod].path), node=sub, config=astq.src(sub))


FD = "functions.fdd"
MUTANTS = [
    ("C06-m01 slice origin not added back", FD, "FDD_mpe", "idxfin = idxlim[0] + idx1", "idxfin = idx1"),
    ("C06-m02 component instead of vector", FD, "FDD_mpe", "phi_FDD = Svec[0, :, idxfin]", "phi_FDD = Svec[:, 0, idxfin]"),
    ("C06-m03 ratio inverted", FD, "FDD_mpe", "Sval[0, 0, idxlim[0]:idxlim[1]] / Sval[1, 1, idxlim[0]:idxlim[1]]", "Sval[1, 1, idxlim[0]:idxlim[1]] / Sval[0, 0, idxlim[0]:idxlim[1]]"),
    ("C06-m04 denominator over a shifted slice", FD, "FDD_mpe", "Sval[0, 0, idxlim[0]:idxlim[1]] / Sval[1, 1, idxlim[0]:idxlim[1]]", "Sval[0, 0, idxlim[0]:idxlim[1]] / Sval[1, 1, idxlim[0] + 1:idxlim[1] + 1]"),
    ("C06-m05 both limits on the same side", FD, "FDD_mpe", "lim = (sel_fn - DF, sel_fn + DF)", "lim = (sel_fn - DF, sel_fn - DF / 2)"),
    ("C06-m06 vectors stored without transposition", FD, "SD_svalsvec", "U1_1 = U1.conj().T", "U1_1 = U1.conj()"),
    ("C06-m07 right singular vectors stored", FD, "SD_svalsvec", "U1, S, _ = np.linalg.svd(SD[:, :, k])", "_, S, U1 = np.linalg.svd(SD[:, :, k])"),
    ("C06-m08 minimum of the ratio", FD, "FDD_mpe", "maxDiffS1S2 = np.max(diffS1S2)", "maxDiffS1S2 = np.min(diffS1S2)"),
    ("C06-m09 vector read at the requested line instead of the picked one", FD, "FDD_mpe", "phi_FDD = Svec[0, :, idxfin]", "phi_FDD = Svec[0, :, idxlim[0]]"),
    ("C06-m10 second singular vector", FD, "FDD_mpe", "phi_FDD = Svec[0, :, idxfin]", "phi_FDD = Svec[1, :, idxfin]"),
    ("C06-m12 hermitian shortcut for square matrices", FD, "SD_svalsvec", "np.linalg.svd(SD[:, :, k])", "np.linalg.svd(SD[:, :, k], hermitian=nr == nc)"),
    ("C06-m13 ratio formed in place in the stored singular values", FD, "FDD_mpe", "diffS1S2 = Sval[0, 0, idxlim[0]:idxlim[1]] / Sval[1, 1, idxlim[0]:idxlim[1]]",
     "diffS1S2 = Sval[0, 0, idxlim[0]:idxlim[1]]\ndiffS1S2 /= Sval[1, 1, idxlim[0]:idxlim[1]]"),
    ("C06-m11 bell reads components", FD, "SDOF_bellandMS", "Svec[csm, :, l_]", "Svec[:, csm, l_]", 1),
]
REWRITES = [
    ("C06-r01 direct argmax", FD, "FDD_mpe", "idx1 = np.argmin(np.abs(diffS1S2 - maxDiffS1S2))", "idx1 = np.argmax(diffS1S2)"),
    ("rename:C06-r02", FD, "FDD_mpe", "idxfin", "line"),
    ("C06-r03 limits as two variables", FD, "FDD_mpe", "diffS1S2 = Sval[0, 0, idxlim[0]:idxlim[1]] / Sval[1, 1, idxlim[0]:idxlim[1]]", "lo, hi = (idxlim[0], idxlim[1])\ndiffS1S2 = Sval[0, 0, lo:hi] / Sval[1, 1, lo:hi]"),
    ("rename:C06-r04", FD, "SD_svalsvec", "U1_1", "UH"),
]
