"""C06 - FDD picks the dominant line in the band and its singular vector.

Decided (structural): R-band - both band limits are argmin |freq - (sel -+ DF)| on the same grid; R-ratio - the scanned quantity is the
ratio of the FIRST to the SECOND singular value over ONE slice of the grid, and the selected index is its arg-max (argmax, or
argmin |x - max x|); R-rebase - the arg-reduction is relative to the slice origin, and the returned frequency and singular vector are
read at origin + relative index; R-vector - SD_svalsvec stores, per line, the singular values (monotone map of them) and the conjugate
transposed left singular vectors of ONE svd call (vectors in rows), and FDD_mpe / SDOF_bellandMS read vector k as S_vec[k, :, line]
(writer/reader agreement).  Unit normalisation: see C08.  Not decided: MAC = 1 as a number, unitarity (delegated to np.linalg.svd).
"""
import ast

from .. import astq, symidx
from ..program import rel, AnalysisError

MPE = "functions.fdd.FDD_mpe"
SVD = "functions.fdd.SD_svalsvec"


def check(prog, run):
    run.rule("R-band", "band limits = argmin |freq - (sel - DF)|, argmin |freq - (sel + DF)| on the same grid", 2)
    run.rule("R-ratio", "scanned quantity = Sval[0,0,a:b] / Sval[1,1,a:b] over one slice; selection = arg-max of it", 3)
    run.rule("R-rebase", "frequency and vector are read at slice origin + relative index", 2)
    run.rule("R-vector", "writer stores conj-transposed left singular vectors (rows) and the singular values of one svd; readers index [k, :, line]", 5)
    fi = prog.func(MPE)
    f = rel(prog.mods[fi.mod].path)
    pos, _, _, _ = astq.params_of(fi.node)
    pSval, pSvec, pfreq, psel, pDF = pos[0], pos[1], pos[2], pos[3], pos[4]
    # the class layer hands THIS call's band and the stored decomposition to the routine
    run.rule("R-handover", "FDD.mpe / mpe_from_plot pass result.S_val, result.S_vec, result.freq and the DF of this call to FDD_mpe", 4)
    nh = 0
    for ci in prog.classes.values():
        if not ci.mod.startswith("pyoma2.algorithms"):
            continue
        for mname in ("mpe", "mpe_from_plot"):
            m = ci.methods.get(mname)
            if m is None:
                continue
            want = {pSval: {"self.result.S_val"}, pSvec: {"self.result.S_vec"}, pfreq: {"self.result.freq"}, pDF: {"DF"}}
            if mname == "mpe":
                want[psel] = {"sel_freq"}
            for c, p_, ok, detail in astq.handover(prog, m, fi.qual, want):
                nh += 1
                run.ob("R-handover", m.qual, f"{mname} -> FDD_mpe.{p_}", ok, detail, witness=detail[:90], file=rel(prog.mods[m.mod].path), node=c, config=p_)
    if not nh:
        run.ob("R-handover", "pyoma2.algorithms", "callers of FDD_mpe", None, "no mpe method calling FDD_mpe found")

    def ob(rule, role, ok, detail, witness="", node=None):
        run.ob(rule, fi.qual, role, ok, detail, witness=witness or detail[:90], file=f, node=node)
    # the appended frequency and shape
    apps = {}
    for n in ast.walk(fi.node):
        if isinstance(n, ast.Call) and isinstance(n.func, ast.Attribute) and n.func.attr == "append" and isinstance(n.func.value, ast.Name) and len(n.args) == 1:
            apps.setdefault(n.func.value.id, []).append(n)
    fapp = vapp = None
    for lst, calls in apps.items():
        x = astq.expr_at(fi, calls[0], calls[0].args[0])
        if isinstance(x, ast.Subscript) and isinstance(x.value, ast.Name) and x.value.id == pfreq:
            fapp = (calls[0], x)
        if any(isinstance(s, ast.Subscript) and isinstance(s.value, ast.Name) and s.value.id == pSvec for s in ast.walk(x)) and vapp is None:
            vapp = (calls[0], x)
    if fapp is None or vapp is None:
        ob("R-rebase", "appended frequency / shape", None, "appends of freq[...] / Svec[...] not found")
        return
    idx = fapp[1].slice
    # idx = origin + argreduce(...)
    rel_i = origin = None
    if isinstance(idx, ast.BinOp) and isinstance(idx.op, ast.Add):
        for a, b in ((idx.left, idx.right), (idx.right, idx.left)):
            arr_b = astq.argreduce(prog, fi, b, astq.ARGMAX | astq.ARGMIN)
            if arr_b is not None and any(isinstance(x, ast.Name) and x.id == pSval for x in ast.walk(arr_b)):
                origin, rel_i = a, b
    if rel_i is None:
        bare = astq.argreduce(prog, fi, idx, astq.ARGMAX | astq.ARGMIN) is not None
        ob("R-rebase", "line index = slice origin + relative index", False,
           f"freq is indexed with `{astq.src(idx, 80)}`" + (": an arg-reduction over a slice used without adding the slice origin back" if bare else ""), astq.src(idx, 60), fapp[0])
        return
    red = astq.argreduce(prog, fi, rel_i, astq.ARGMAX | astq.ARGMIN)
    kind = "argmax" if astq.callee_name(prog, fi, rel_i) in astq.ARGMAX else "argmin"
    # the scanned quantity
    scanned = red
    if kind == "argmin":
        inner = astq.strip_abs(prog, fi, red)
        okm = False
        if isinstance(inner, ast.BinOp) and isinstance(inner.op, ast.Sub):
            for a, b in ((inner.left, inner.right), (inner.right, inner.left)):
                if isinstance(b, ast.Call) and astq.callee_name(prog, fi, b) in ("numpy.max", "numpy.amax", "numpy.nanmax", "max") and b.args and astq.dump(b.args[0]) == astq.dump(a):
                    scanned, okm = a, True
        ob("R-ratio", "selection = arg-max of the scanned quantity", okm, f"`{astq.src(rel_i, 90)}`" + ("" if okm else " is not argmin|x - max(x)|"), astq.src(rel_i, 70), fapp[0])
    else:
        ob("R-ratio", "selection = arg-max of the scanned quantity", True, f"`{astq.src(rel_i, 70)}`", node=fapp[0])
    okr = isinstance(scanned, ast.BinOp) and isinstance(scanned.op, ast.Div)
    slices = []
    if okr:
        for side, want in ((scanned.left, 0), (scanned.right, 1)):
            ok1 = isinstance(side, ast.Subscript) and isinstance(side.value, ast.Name) and side.value.id == pSval and len(astq.index_elts(side)) == 3
            if ok1:
                el = astq.index_elts(side)
                ok1 = all(isinstance(el[i], ast.Constant) and el[i].value == want for i in (0, 1)) and isinstance(el[2], ast.Slice)
                if ok1:
                    slices.append(el[2])
            okr = okr and ok1
    ob("R-ratio", "scanned = first / second singular value", bool(okr), f"`{astq.src(scanned, 100)}`" + ("" if okr else " is not Sval[0,0,a:b] / Sval[1,1,a:b]"), astq.src(scanned, 80), fapp[0])
    if len(slices) == 2:
        same = astq.dump(slices[0]) == astq.dump(slices[1])
        ob("R-ratio", "numerator and denominator over the same slice", same, f"`{astq.src(slices[0], 60)}` vs `{astq.src(slices[1], 60)}`", "different slices", fapp[0])
        lo = slices[0].lower
        okb = lo is not None and astq.dump(lo) == astq.dump(origin)
        ob("R-rebase", "index added back = origin of the scanned slice", okb, f"origin `{astq.src(origin, 60)}`, slice starts at `{astq.src(lo, 60) if lo is not None else 0}`", astq.src(origin, 60), fapp[0])
        # band limits
        for bound, sign, nm in ((slices[0].lower, ast.Sub, "lower"), (slices[0].upper, ast.Add, "upper")):
            a = astq.argreduce(prog, fi, bound, astq.ARGMIN) if bound is not None else None
            d = astq.strip_abs(prog, fi, a) if a is not None else None
            ok = False
            if isinstance(d, ast.BinOp) and isinstance(d.op, ast.Sub) and isinstance(d.left, ast.Name) and d.left.id == pfreq:
                r = d.right
                ok = isinstance(r, ast.BinOp) and isinstance(r.op, sign) and isinstance(r.right, ast.Name) and r.right.id == pDF and isinstance(r.left, ast.Name)
            ob("R-band", f"{nm} limit = argmin |freq - (sel {'-' if sign is ast.Sub else '+'} DF)|", ok, f"`{astq.src(bound, 90) if bound is not None else None}`", astq.src(bound, 70) if bound is not None else "none", fapp[0])
    # the vector read at the same index
    vsub = [s for s in ast.walk(vapp[1]) if isinstance(s, ast.Subscript) and isinstance(s.value, ast.Name) and s.value.id == pSvec]
    v = vsub[0]
    el = astq.index_elts(v)
    okv = len(el) == 3 and astq.dump(el[2]) == astq.dump(idx)
    dom = len(el) == 3 and isinstance(el[0], ast.Constant) and el[0].value == 0
    ob("R-vector", "returned shape is the DOMINANT (first) singular vector", dom, f"`{astq.src(v, 60)}`", astq.src(v, 60), vapp[0])
    ob("R-rebase", "singular vector read at the same line as the frequency", okv, f"`{astq.src(v, 90)}`", astq.src(v, 70), vapp[0])
    writer_reader(prog, run, [(fi, v)])


def writer_reader(prog, run, reads):
    w = prog.func(SVD)
    fw = rel(prog.mods[w.mod].path)
    # stores into the returned arrays inside the per-line loop
    rets = [n for n in ast.walk(w.node) if isinstance(n, ast.Return) and isinstance(n.value, ast.Tuple)]
    if not rets:
        raise AnalysisError("anchor lost: SD_svalsvec return")
    val_name, vec_name = [e.id if isinstance(e, ast.Name) else None for e in rets[-1].value.elts[:2]]
    stores = {}
    for n in ast.walk(w.node):
        if isinstance(n, ast.Assign) and isinstance(n.targets[0], ast.Subscript) and isinstance(n.targets[0].value, ast.Name):
            stores.setdefault(n.targets[0].value.id, []).append(n)
    layout = None
    svd_calls = set()
    if vec_name in stores:
        st = stores[vec_name][0]
        x = astq.expr_at(w, st, st.value)
        # conj-transpose of svd(..)[0]
        has_T = any(isinstance(a, ast.Attribute) and a.attr in ("T", "H") for a in ast.walk(x)) or any(isinstance(c, ast.Call) and astq.callee_name(prog, w, c) in ("numpy.transpose", ".transpose") for c in ast.walk(x))
        has_conj = any(isinstance(c, ast.Call) and astq.callee_name(prog, w, c) in (".conj", ".conjugate", "numpy.conj", "numpy.conjugate") for c in ast.walk(x))
        part = [s for s in ast.walk(x) if isinstance(s, ast.Subscript) and isinstance(s.value, ast.Call) and astq.callee_name(prog, w, s.value) in ("numpy.linalg.svd", "scipy.linalg.svd") and isinstance(s.slice, ast.Constant)]
        which = part[0].slice.value if part else None
        for p in part:
            svd_calls.add(astq.dump(p.value))
        el = astq.index_elts(st.targets[0])
        line_first = 1 <= len(el) <= 3 and not isinstance(el[0], ast.Slice) and all(astq.is_full_slice(e) or (isinstance(e, ast.Constant) and e.value is Ellipsis) for e in el[1:])
        ok = which == 0 and has_T and has_conj and line_first
        layout = "rows" if (which == 0 and has_T) or (which == 2 and not has_T) else "cols"
        run.ob("R-vector", w.qual, "stored vectors = conj(U)^T of the line's svd (vector k in row k)", ok,
               f"`{astq.src(st.targets[0])} = {astq.src(x, 70)}` (svd part {which}, transposed {has_T}, conjugated {has_conj})", f"part{which} T={has_T} conj={has_conj}", file=fw, node=st)
    else:
        run.ob("R-vector", w.qual, "vector store", None, "store into the returned vector array not found", file=fw)
    if val_name in stores:
        st = stores[val_name][0]
        x = astq.expr_at(w, st, st.value)
        part = [s for s in ast.walk(x) if isinstance(s, ast.Subscript) and isinstance(s.value, ast.Call) and astq.callee_name(prog, w, s.value) in ("numpy.linalg.svd", "scipy.linalg.svd") and isinstance(s.slice, ast.Constant)]
        which = part[0].slice.value if part else None
        for p in part:
            svd_calls.add(astq.dump(p.value))
        mono = True
        for c in ast.walk(x):
            if isinstance(c, ast.Call):
                nm = astq.callee_name(prog, w, c)
                if nm not in ("numpy.diag", "numpy.sqrt", "numpy.linalg.svd", "scipy.linalg.svd", "numpy.abs", "numpy.real"):
                    mono = False
        ok = which == 1 and mono
        run.ob("R-vector", w.qual, "stored values = singular values (or their square roots) on the diagonal", ok, f"`{astq.src(x, 80)}`", astq.src(x, 70), file=fw, node=st)
    for c in ast.walk(w.node):
        if isinstance(c, ast.Call) and astq.callee_name(prog, w, c) in ("numpy.linalg.svd", "scipy.linalg.svd"):
            h = astq.kwarg(c, "hermitian", 3)
            okh = h is None or (isinstance(h, ast.Constant) and h.value is False)
            run.ob("R-vector", w.qual, "general SVD of the line's matrix (no Hermitian shortcut: half spectra / correlogram spectra are not Hermitian)", okh,
                   f"`{astq.src(c, 70)}`", witness=astq.src(h, 40) if h is not None else "", file=fw, node=c)
    run.ob("R-vector", w.qual, "values and vectors come from the same svd call", len(svd_calls) == 1, f"{len(svd_calls)} distinct svd call(s)", str(len(svd_calls)), file=fw, node=w.node)
    # moveaxis(line axis 0 -> 2) for both returned arrays
    rx = [astq.expr_at(w, rets[-1], e) for e in rets[-1].value.elts[:2]]
    def mv(x):
        """True if x = moveaxis(A, 0, last) of a 3-d array; False if another move; None if not a moveaxis call"""
        if not (isinstance(x, ast.Call) and astq.callee_name(prog, w, x) == "numpy.moveaxis"):
            return None
        s_, d_ = astq.kwarg(x, "source", 1), astq.kwarg(x, "destination", 2)
        if not (isinstance(s_, ast.Constant) and isinstance(d_, (ast.Constant, ast.UnaryOp))):
            return None
        try:
            dv = ast.literal_eval(d_)
        except Exception:
            return None
        return s_.value == 0 and dv in (2, -1)
    mvs = [mv(x) for x in rx]
    okmv = False if any(m is False for m in mvs) else (None if any(m is None for m in mvs) else True)
    run.ob("R-vector", w.qual, "line axis moved last for values and vectors alike", okmv, f"returns `{astq.src(rets[-1].value.elts[0])}`, `{astq.src(rets[-1].value.elts[1])}` via moveaxis(.., 0, 2)" if okmv else "returned arrays are not both moveaxis(.., 0, 2)",
               "layout", file=fw, node=rets[-1])
    # readers
    bell = prog.func("functions.fdd.SDOF_bellandMS")
    allreads = list(reads)
    for n in ast.walk(bell.node):
        if isinstance(n, ast.Subscript) and isinstance(n.value, ast.Name) and n.value.id == "Svec" and len(astq.index_elts(n)) == 3:
            allreads.append((bell, n))
    seen = set()
    for rf, sub in allreads:
        el = astq.index_elts(sub)
        key = (rf.qual, astq.src(sub))
        if key in seen:
            continue
        seen.add(key)
        rows_form = astq.is_full_slice(el[1]) and not isinstance(el[0], ast.Slice)
        cols_form = astq.is_full_slice(el[0]) and not isinstance(el[1], ast.Slice)
        ok = (layout == "rows" and rows_form) or (layout == "cols" and cols_form)
        run.ob("R-vector", rf.qual, "reader takes vector k as S_vec[k, :, line]" if layout != "cols" else "reader takes vector k as S_vec[:, k, line]", ok,
               f"`{astq.src(sub)}` with vectors stored in {layout}", astq.src(sub), file=rel(prog.mods[rf.mod].path), node=sub, config=astq.src(sub))


FD = "functions.fdd"
MUTANTS = [
    ("C06-m01 slice origin not added back", FD, "FDD_mpe", "idxfin = idxlim[0] + idx1", "idxfin = idx1"),
    ("C06-m02 component instead of vector", FD, "FDD_mpe", "phi_FDD = Svec[0, :, idxfin]", "phi_FDD = Svec[:, 0, idxfin]"),
    ("C06-m03 ratio inverted", FD, "FDD_mpe", "Sval[0, 0, idxlim[0]:idxlim[1]] / Sval[1, 1, idxlim[0]:idxlim[1]]", "Sval[1, 1, idxlim[0]:idxlim[1]] / Sval[0, 0, idxlim[0]:idxlim[1]]"),
    ("C06-m04 denominator over a shifted slice", FD, "FDD_mpe", "Sval[0, 0, idxlim[0]:idxlim[1]] / Sval[1, 1, idxlim[0]:idxlim[1]]", "Sval[0, 0, idxlim[0]:idxlim[1]] / Sval[1, 1, idxlim[0] + 1:idxlim[1] + 1]"),
    ("C06-m05 both limits on the same side", FD, "FDD_mpe", "lim = (sel_fn - DF, sel_fn + DF)", "lim = (sel_fn - DF, sel_fn - DF / 2)"),
    ("C06-m06 vectors stored without transposition", FD, "SD_svalsvec", "U1_1 = U1.conj().T", "U1_1 = U1.conj()"),
    ("C06-m07 right singular vectors stored", FD, "SD_svalsvec", "U1, S, _ = np.linalg.svd(SD[:, :, k])", "_, S, U1 = np.linalg.svd(SD[:, :, k])"),
    ("C06-m08 minimum of the ratio", FD, "FDD_mpe", "maxDiffS1S2 = np.max(diffS1S2)", "maxDiffS1S2 = np.min(diffS1S2)"),
    ("C06-m09 vector read at the requested line instead of the picked one", FD, "FDD_mpe", "phi_FDD = Svec[0, :, idxfin]", "phi_FDD = Svec[0, :, idxlim[0]]"),
    ("C06-m10 second singular vector", FD, "FDD_mpe", "phi_FDD = Svec[0, :, idxfin]", "phi_FDD = Svec[1, :, idxfin]"),
    ("C06-m12 hermitian shortcut for square matrices", FD, "SD_svalsvec", "np.linalg.svd(SD[:, :, k])", "np.linalg.svd(SD[:, :, k], hermitian=nr == nc)"),
    ("C06-m11 bell reads components", FD, "SDOF_bellandMS", "Svec[csm, :, l_]", "Svec[:, csm, l_]", 1),
]
REWRITES = [
    ("C06-r01 direct argmax", FD, "FDD_mpe", "idx1 = np.argmin(np.abs(diffS1S2 - maxDiffS1S2))", "idx1 = np.argmax(diffS1S2)"),
    ("rename:C06-r02", FD, "FDD_mpe", "idxfin", "line"),
    ("C06-r03 limits as two variables", FD, "FDD_mpe", "diffS1S2 = Sval[0, 0, idxlim[0]:idxlim[1]] / Sval[1, 1, idxlim[0]:idxlim[1]]", "lo, hi = (idxlim[0], idxlim[1])\ndiffS1S2 = Sval[0, 0, lo:hi] / Sval[1, 1, lo:hi]"),
    ("rename:C06-r04", FD, "SD_svalsvec", "U1_1", "UH"),
]
