"""C02 - PoSER merging reproduces the global mode shape from re-scaled setups.

Decided (structural): O-scale - merge_mode_shapes returns every row in the scale of the FIRST setup, whatever
the other setups' factors (degree analysis with per-setup scale symbols c0, ck; MSF is inlined);
O-stat - merge_results: Fn/Xi are means over the setup axis, Fn_cov/Xi_cov are dimensionless (std/mean) and the
std is the population one (ddof absent or 0); R-order - row order signature of merge_mode_shapes equals the one of
flatten_sns_names (sa/seqsig.py).  Not decided: least-squares optimality on noisy shapes, complex factors,
the end-to-end clause through SSI runs.
"""
import ast

from ..absint import Interp, CTX, Cst, Lst, Dct, D, Obj, SCAL, num, Deg
from .. import hd, astq
from ..hd import HZ, expect, expect_support, events_to_obligations
from ..program import rel

def complex_kept(prog, run, mfi):
    """R-complex: the per-setup mode shapes reach merge_mode_shapes as they are stored in the results (complex for SSI / pLSCF), and the
    merged array is complex: no cast to a real dtype, no `.real`, on the way in or inside"""
    run.rule("R-complex", "mode shapes are handed to merge_mode_shapes and merged without a cast to a real dtype (complex shapes keep their imaginary part)", 2)
    f = rel(prog.mods[mfi.mod].path)
    merge = prog.func(MERGE)
    first = astq.params_of(merge.node)[0][0]
    recs = astq.forwarded_args(prog, mfi, merge.qual, depth=2)
    if not recs:
        run.ob("R-complex", mfi.qual, "call of merge_mode_shapes", None, "merge_results does not call merge_mode_shapes", file=f)
    for rec in recs:
        a = rec["args"].get(first)
        if a is None:
            run.ob("R-complex", mfi.qual, "shapes handed to merge_mode_shapes", None, "argument not expressible in merge_results", file=f, node=rec["outer_call"])
            continue
        exprs = [a]
        if isinstance(a, ast.Name):
            els = astq.list_elements(rec["holder"], a.id)
            exprs = [astq.expr_at(rec["holder"], el.at, el.elt) for el in els] or [a]
        casts = [t for e in exprs for n, t in astq.real_casts(e)]
        txt = "; ".join(astq.src(e, 60) for e in exprs)
        reads_phi = any(isinstance(n, ast.Attribute) and n.attr == "Phi" for e in exprs for n in ast.walk(e)) or any(isinstance(n, ast.Constant) and n.value == "Phi" for e in exprs for n in ast.walk(e))
        ok = False if casts else (True if reads_phi else None)
        run.ob("R-complex", mfi.qual, "shapes handed to merge_mode_shapes", ok,
               f"elements `{txt}`" + (f": cast to a real type by {casts[0]} - complex mode shapes lose their imaginary part" if casts else ""), witness=casts[0] if casts else txt[:80], file=f, node=rec["outer_call"])
    # inside: allocation of the merged array / values stored into it
    fm = rel(prog.mods[merge.mod].path)
    rets = [n for n in ast.walk(merge.node) if isinstance(n, ast.Return) and n.value is not None]
    bad = []
    seen_alloc = False
    for r in rets:
        x = astq.expr_at(merge, r, r.value)
        for c in ast.walk(x):
            if isinstance(c, ast.Call) and astq.callee_name(prog, merge, c) in ("numpy.zeros", "numpy.empty", "numpy.full", "numpy.ones"):
                seen_alloc = True
        casts = astq.real_casts(x)
        # an allocation without dtype is float64: stores into it drop the imaginary part unless it is converted to complex
        txt = astq.src(x, 200).replace(" ", "")
        alloc_real = seen_alloc and not ("complex" in txt)
        if casts or alloc_real:
            bad.append(casts[0][1] if casts else f"`{astq.src(x, 60)}` allocates a real array")
    run.ob("R-complex", merge.qual, "merged array is complex (or takes the dtype of its inputs)", not bad,
           "no real cast on the returned array" if not bad else bad[0] + ": complex mode shapes lose their imaginary part", witness=bad[0] if bad else "", file=fm, node=rets[-1] if rets else merge.node)


MERGE = "functions.gen.merge_mode_shapes"
POSER = "setup.multi.MultiSetup_PoSER"


def check(prog, run):
    run.rule("O-scale", "merge_mode_shapes([c0*.., ck*.., ...]) is homogeneous of degree 1 in c0 and 0 in every other setup's factor", 1)
    run.rule("O-msf", "MSF(a, b) has degree b/a (it scales its first argument to its second)", 1)
    run.rule("O-stat", "merge_results: Fn, Xi keep the unit of the per-setup values (mean over setups); Fn_cov, Xi_cov are dimensionless", 4)
    run.rule("R-mean", "the merged Fn / Xi are arithmetic means over the setup axis (np.mean/.mean with axis=0, or sum/len)", 2)
    run.rule("R-std", "every np.std feeding Fn_cov / Xi_cov is the population standard deviation over the setup axis (ddof absent or 0, axis=0)", 2)
    run.rule("R-order", "row order: references of the first setup (listed order) then each setup's roving rows in setup order, the same sequence "
             "signature in merge_mode_shapes, flatten_sns_names and pre_multisetup", 3)
    run.assume("positive real scale factors; MSF's division is by a quantity that is non-zero for non-zero reference rows")
    I = Interp(prog)
    # ---- O-scale
    fn = I.fn(MERGE)
    CTX.events.clear()
    ms = Lst([D(2, c0=1)], D(2, ck=1))
    refl = Lst([], Lst([], SCAL))
    r = I.call(fn, [ms, refl])
    expect(run, prog, "O-scale", fn.qual, "merged rows", r, dict(c0=1), "MSarr_list=[c0*Phi0, ck*Phik, ...]", allow_any=False)
    events_to_obligations(run, prog, "O-scale", "merge_mode_shapes")
    # ---- O-msf
    msf = I.fn("functions.gen.MSF")
    CTX.events.clear()
    r = I.call(msf, [D(1, a=1), D(1, b=1)])
    expect(run, prog, "O-msf", msf.qual, "factor", r, dict(a=-1, b=1), "MSF(a*x, b*x)", allow_any=False)
    # ---- O-stat by interpretation of merge_results
    ci = prog.cls(POSER)
    def setup(sym):
        res = Obj({"Fn": D(1, s=-1), "Xi": D(1), "Phi": D(2, **{sym: 1})})
        alg = Obj({"result": res, "name": Cst("algo")})
        return Obj({"algorithms": Dct({"algo": alg})})
    me = Obj({"_setups": Lst([setup("c0")], setup("ck")), "names": Lst([Cst("algo")]), "ref_ind": refl, "__result": Cst(None)}, ci)
    mr = I.method(POSER, "merge_results", me)
    CTX.events.clear()
    out = I.call(mr)
    resobj = None
    if isinstance(out, Dct) and out.d:
        resobj = list(out.d.values())[0]
    if not isinstance(resobj, Obj):
        run.ob("O-stat", mr.qual, "result", None, f"could not evaluate merge_results ({out!r})"[:200])
    else:
        for name, exp in (("Fn", dict(s=-1)), ("Xi", {}), ("Fn_cov", {}), ("Xi_cov", {})):
            v = resobj.attrs.get(name)
            if v is None:
                run.ob("O-stat", mr.qual, name, False, f"merged result has no field {name}", witness="missing")
            else:
                expect(run, prog, "O-stat", mr.qual, name, v, exp, "Fn~1/s, Xi~1 per setup", allow_any=False)
        v = resobj.attrs.get("Phi")
        if v is not None:
            expect(run, prog, "O-scale", mr.qual, "Phi", v, dict(c0=1), "merge_results -> merge_mode_shapes", allow_any=False)
    events_to_obligations(run, prog, "O-stat", "merge_results")
    run.trusted |= set(CTX.used)
    stat_structure(prog, run, mr.fi)
    complex_kept(prog, run, mr.fi)
    try:
        from .. import seqsig
    except ImportError:
        seqsig = None
        run.rules.pop("R-order"); run.min_instances.pop("R-order")
    if seqsig:
        seqsig.order_obligations(prog, run, "R-order", which=("merge", "flatten", "pre", "reflists"))


REDUCERS = ("numpy.median", "numpy.nanmedian", "numpy.max", "numpy.min", "numpy.amax", "numpy.amin", "numpy.var", "numpy.sum", "numpy.prod",
            ".median", ".max", ".min", ".var", ".sum", ".prod", "numpy.mean", "numpy.nanmean", ".mean", "numpy.average", "numpy.std", "numpy.nanstd", ".std")


def _mean_form(prog, fi, x):
    """x: expression already expanded at its program point.  (True, how) if x is mean(X, axis=0) / X.mean(axis=0) / sum(X, axis=0)/len(.);
    (False, how) if it is another recognised reduction; (None, how) if the form is not recognised"""
    if isinstance(x, ast.Call):
        nm = astq.callee_name(prog, fi, x)
        if nm in ("numpy.mean", "numpy.nanmean", ".mean", "numpy.average"):
            ax = astq.kwarg(x, "axis", 1 if not nm.startswith(".") else 0)
            if isinstance(ax, ast.Constant):
                return ax.value == 0, f"{nm}(axis={ax.value})"
            return (False, f"{nm} without axis") if ax is None else (None, astq.src(x, 80))
        if nm in REDUCERS:
            return False, astq.src(x, 80)
    if isinstance(x, ast.BinOp) and isinstance(x.op, ast.Div) and isinstance(x.left, ast.Call):
        nm = astq.callee_name(prog, fi, x.left)
        if nm in ("numpy.sum", ".sum", "sum"):
            return True, nm + "/n"
    return None, astq.src(x, 80)


def _arr_of(prog, fi, c):
    nm = astq.callee_name(prog, fi, c)
    if nm.startswith("."):
        return c.func.value
    return c.args[0] if c.args else astq.kwarg(c, "a")


def stat_structure(prog, run, fi):
    f = rel(prog.mods[fi.mod].path)
    STD = ("numpy.std", "numpy.nanstd", ".std")
    ctor = [c for c, nm in astq.calls_resolved(prog, fi, lambda n: n.endswith(".MsPoserResult"))]
    if not ctor:
        run.ob("R-mean", fi.qual, "constructor", None, "no MsPoserResult(...) construction found in merge_results", witness="missing", file=f)
        return
    call = ctor[0]
    for field in ("Fn", "Xi"):
        e = astq.kwarg(call, field)
        if e is None:
            run.ob("R-mean", fi.qual, field, None, f"{field} not passed by keyword to the merged result", witness="missing", file=f, node=call)
            continue
        ok, how = _mean_form(prog, fi, astq.expr_at(fi, call, e))
        run.ob("R-mean", fi.qual, field, ok, f"{field} = {how}" if ok else f"{field} is `{how}`" + (", not a mean over the setup axis" if ok is False else ": form not recognised"),
               witness=how, file=f, node=e)
    for field in ("Fn_cov", "Xi_cov"):
        e = astq.kwarg(call, field)
        if e is None:
            run.ob("R-std", fi.qual, field, None, f"{field} not passed by keyword to the merged result", witness="missing", file=f, node=call)
            continue
        x = astq.expr_at(fi, call, e)
        isstd = lambda n: isinstance(n, ast.Call) and astq.callee_name(prog, fi, n) in STD
        stds = [n for n in ast.walk(x) if isstd(n)]
        # dispersion = std(X) / mean(X) of the SAME stacked values
        okq = None
        if isinstance(x, ast.BinOp) and isinstance(x.op, ast.Div) and isstd(x.left):
            ismean, how = _mean_form(prog, fi, x.right)
            arr_s = _arr_of(prog, fi, x.left)
            arr_m = _arr_of(prog, fi, x.right) if isinstance(x.right, ast.Call) else None
            if ismean is False:
                okq = False
            elif ismean and arr_m is not None and arr_s is not None:
                okq = astq.dump(arr_s) == astq.dump(arr_m)
        elif isstd(x):
            okq = False          # a bare standard deviation: not divided by the mean
        elif isinstance(x, ast.BinOp) and isinstance(x.op, (ast.Mult, ast.Add, ast.Sub)) and stds:
            okq = False          # std combined with something else than a division by the mean
        run.ob("R-std", fi.qual, f"{field} = std / mean of the same per-setup values", okq, f"`{astq.src(x, 120)}`", witness=astq.src(x, 70), file=f, node=e)
        if not stds:
            red = [n for n in ast.walk(x) if isinstance(n, ast.Call) and astq.callee_name(prog, fi, n) in REDUCERS]
            run.ob("R-std", fi.qual, field, False if red else None, f"{field} = `{astq.src(x, 80)}` does not contain a standard deviation", witness="no-std", file=f, node=e)
            continue
        for sc in stds:
            nm = astq.callee_name(prog, fi, sc)
            ddof = astq.kwarg(sc, "ddof")
            ax = astq.kwarg(sc, "axis", 0 if nm.startswith(".") else 1)
            ok = (ddof is None or (isinstance(ddof, ast.Constant) and ddof.value == 0)) and isinstance(ax, ast.Constant) and ax.value == 0
            if ok is False and not ((ddof is None or isinstance(ddof, ast.Constant)) and (ax is None or isinstance(ax, ast.Constant))):
                ok = None
            why = f"{field}: `{astq.src(sc, 70)}`"
            run.ob("R-std", fi.qual, field, ok, why if ok else why + " is not the population std over axis 0", witness=astq.src(sc, 70), file=f, node=sc)


G, MU = "functions.gen", "setup.multi"
MUTANTS = [
    ("C02-m01 inverse scale factor", G, "merge_mode_shapes", "MSF(phi_ref_i_k, phi_ref_1_k)", "MSF(phi_ref_1_k, phi_ref_i_k)"),
    ("C02-m02 factor squared", G, "merge_mode_shapes", "alpha_i_k * phi_rov_i_k", "alpha_i_k ** 2 * phi_rov_i_k"),
    ("C02-m03 sample standard deviation", MU, "MultiSetup_PoSER.merge_results", "np.std(all_fn, axis=0)", "np.std(all_fn, axis=0, ddof=1)"),
    ("C02-m04 dispersion not divided by the mean", MU, "MultiSetup_PoSER.merge_results", "xi_cov = np.std(all_xi, axis=0) / xi_mean", "xi_cov = np.std(all_xi, axis=0)"),
    ("C02-m05 roving block prepended", G, "merge_mode_shapes", "np.hstack((merged_mode_k, alpha_i_k * phi_rov_i_k))", "np.hstack((alpha_i_k * phi_rov_i_k, merged_mode_k))"),
    ("C02-m06 first setup's reference list for every setup", G, "merge_mode_shapes", "ref_ind = reflist[i]", "ref_ind = reflist[0]"),
    ("C02-m07 median instead of mean", MU, "MultiSetup_PoSER.merge_results", "fn_mean = np.mean(all_fn, axis=0)", "fn_mean = np.median(all_fn, axis=0)"),
    ("C02-m08 roving rows of the first setup forgotten", G, "merge_mode_shapes", "np.concatenate((phi_ref_1_k, np.delete(phi_1_k, reflist[0])))", "np.concatenate((phi_ref_1_k, phi_1_k))"),
    ("C02-m09 flattened names: references last", G, "flatten_sns_names", "k = len(ref_ind[0])", "k = len(ref_ind[-1])"),
    ("C02-m10 names skipped with the first setup's reference indices", G, "flatten_sns_names", "j not in ref_ind[i]", "j not in ref_ind[0]"),
    ("C02-m11 MSF returns the ratio of norms", G, "MSF", "_msf = np.dot(phi_2[:, i].T, phi_1[:, i]) / np.dot(phi_1[:, i].T, phi_1[:, i])", "_msf = np.dot(phi_2[:, i].T, phi_2[:, i]) / np.dot(phi_1[:, i].T, phi_1[:, i])"),
    ("C02-m12 std over the mode axis", MU, "MultiSetup_PoSER.merge_results", "np.std(all_fn, axis=0)", "np.std(all_fn, axis=1)"),
    ("C02-m13 reference rows in ascending order", G, "merge_mode_shapes", "phi_ref_i_k = MSarr_list[i][ref_ind, k]", "phi_ref_i_k = MSarr_list[i][np.isin(np.arange(MSarr_list[i].shape[0]), reflist[i]), k]"),
]
REWRITES = [
    ("rename:C02-r01", G, "merge_mode_shapes", "alpha_i_k", "scale"),
    ("C02-r02 method mean", MU, "MultiSetup_PoSER.merge_results", "fn_mean = np.mean(all_fn, axis=0)", "fn_mean = all_fn.mean(axis=0)"),
    ("C02-r03 explicit ddof=0", MU, "MultiSetup_PoSER.merge_results", "np.std(all_fn, axis=0)", "np.std(all_fn, axis=0, ddof=0)"),
    ("C02-r04 concatenate instead of hstack", G, "merge_mode_shapes", "np.hstack((merged_mode_k, alpha_i_k * phi_rov_i_k))", "np.concatenate((merged_mode_k, alpha_i_k * phi_rov_i_k))"),
    ("C02-r05 roving rows by complement mask", G, "merge_mode_shapes", "phi_rov_i_k = np.delete(phi_i_k, ref_ind, axis=0)", "phi_rov_i_k = phi_i_k[~np.isin(np.arange(phi_i_k.shape[0]), ref_ind)]"),
]
