"""C20 - diagrams show exactly the identified poles at their frequency, order and damping.

Decided (structural): R-call - every call from the algorithm classes' plot methods / the selection dialog into functions.plot conforms
to the callee's signature (no unknown keyword, no missing required argument); R-bind - the plot_* methods pass the result fields under
the matching keywords; R-flatten - in stab_plot / cluster_plot every flattened table uses the same (column-major) order and the
model-order axis is computed with the formula that matches that order (index // number of rows, times step);
R-markers - stable markers come from where(Lab == 1, value, nan), unstable ones from where(Lab == 0, value, nan) for frequency and
damping alike, so rejected (NaN) cells are never drawn and the two sets are disjoint;  R-cmif - every curve is
10*log10(S_val[k, k, :] / max of the FIRST singular value) over the whole frequency grid.  Not decided: artist coordinates.
"""
import ast

from .. import astq
from ..program import rel, FuncInfo, AnalysisError

PLOT_MOD = "pyoma2.functions.plot"


def check(prog, run):
    run.rule("R-call", "calls into functions.plot (and of the selection dialog) conform to the callee signature", 8)
    run.rule("R-bind", "plot methods pass result fields under the matching keyword", 14)
    run.rule("R-flatten", "one flatten order per diagram and an order axis consistent with it", 4)
    run.rule("R-markers", "stable = where(Lab == 1, X, nan), unstable = where(Lab == 0, X, nan), same selection for frequency and damping", 6)
    run.rule("R-cmif", "each CMIF curve = 10*log10(S_val[k,k,:] / S_val[0,0,:][argmax S_val[0,0,:]]) drawn over freq", 2)
    run.rule("R-rejected", "the tables the diagrams read (result.Fn_poles, Xi_poles) carry every hard criterion of the run parameters: a rejected pole is NaN there, so no marker is drawn for it", 30)
    calls(prog, run)
    bind(prog, run)
    from . import C09
    run.assume("R-rejected is the dependence (taint) reading of C09 restricted to the plotted tables: necessary for 'no marker for rejected poles', not a proof that the right poles are blanked")
    C09.classes_rules(prog, run, C09.CLASSES, {"reach": "R-rejected"}, only=("Fn_poles", "Xi_poles"))
    run.rule("R-stateless", "the diagram routines change no module-level table and no memoised value in place (an order axis kept by a cache and scaled in place is "
             "wrong for every later diagram of the same shape)", 3)
    from ..effects import shared_state_rule
    reach_ = sorted(q for q in prog.reachable([prog.func("functions.plot." + n_).qual for n_ in ("stab_plot", "cluster_plot", "CMIF_plot")]) if q in prog.functions)
    shared_state_rule(prog, run, "R-stateless", reach_, "a later diagram is drawn with the values of an earlier one")
    run.rule("R-nothing-skipped", "a branch of a diagram that draws nothing is taken only when every kind of pole its sibling branches would draw is absent: "
             "its test looks at every label (stable 1, unstable 0) for which a sibling draws markers", 0)
    for name in ("stab_plot", "cluster_plot"):
        flatten(prog, run, prog.func("functions.plot." + name))
        markers(prog, run, prog.func("functions.plot." + name))
        nothing_skipped(prog, run, prog.func("functions.plot." + name))
    cmif(prog, run, prog.func("functions.plot.CMIF_plot"))


def _label_consts(e):
    """the integers k of comparisons `<..> == k` in e (the labels a selection / a test looks at)"""
    out = set()
    for c in ast.walk(e):
        if isinstance(c, ast.Compare) and len(c.ops) == 1 and isinstance(c.ops[0], ast.Eq):
            for a_ in (c.left, c.comparators[0]):
                if isinstance(a_, ast.Constant) and isinstance(a_.value, int) and not isinstance(a_.value, bool):
                    out.add(a_.value)
        if isinstance(c, ast.Call) and astq.src(c.func).split(".")[-1] == "isin" and len(c.args) == 2 and isinstance(c.args[1], (ast.Tuple, ast.List)):
            out |= {x.value for x in c.args[1].elts if isinstance(x, ast.Constant) and isinstance(x.value, int)}
    return out


def nothing_skipped(prog, run, fi):
    f = rel(prog.mods[fi.mod].path)

    def draws(stmts):
        return [c for s_ in stmts for c in ast.walk(s_) if isinstance(c, ast.Call) and isinstance(c.func, ast.Attribute) and c.func.attr in DRAW]

    def chain(ifn):
        """[(test or None, body)] of an if / elif / else chain"""
        out = [(ifn.test, ifn.body)]
        while len(ifn.orelse) == 1 and isinstance(ifn.orelse[0], ast.If):
            ifn = ifn.orelse[0]
            out.append((ifn.test, ifn.body))
        if ifn.orelse:
            out.append((None, ifn.orelse))
        return out
    n = 0
    elifs = {id(x.orelse[0]) for x in ast.walk(fi.node) if isinstance(x, ast.If) and len(x.orelse) == 1 and isinstance(x.orelse[0], ast.If)}
    for ifn in ast.walk(fi.node):
        if not isinstance(ifn, ast.If) or id(ifn) in elifs:
            continue
        br = chain(ifn)
        if len(br) < 2:
            continue
        drawing = [(t, b) for t, b in br if draws(b)]
        idle = [(t, b) for t, b in br if t is not None and not draws(b) and not astq._terminates(b)]
        if not drawing or not idle:
            continue
        drawn = set()
        for t, b in drawing:
            for c in draws(b):
                for a_ in c.args[:2]:
                    drawn |= _label_consts(astq.expr_at(fi, c, a_))
        for t, b in idle:
            g = astq.expr_at(fi, ifn, t)
            looked = _label_consts(g)
            if not looked or not drawn:
                continue                # not a test on the labels / no label-selected markers: another kind of branch
            n += 1
            miss = sorted(drawn - looked)
            run.ob("R-nothing-skipped", fi.qual, f"`if {astq.src(t, 30)}:` draws nothing", not miss,
                   f"the test looks at labels {sorted(looked)}, the sibling branches draw markers for labels {sorted(drawn)}" +
                   ("" if not miss else f": with no pole labelled {sorted(looked)} but poles labelled {miss}, nothing is drawn although the other branch would draw them"),
                   witness=f"{sorted(looked)}|{sorted(drawn)}", file=f, node=ifn)
    if not n:
        run.ob("R-nothing-skipped", fi.qual, "idle branches", True, "no branch that draws nothing is chosen by a test on the labels", file=f, node=fi.node)


def calls(prog, run):
    n = 0
    for fi in prog.functions.values():
        if not (fi.mod.startswith(("pyoma2.algorithms", "pyoma2.support.sel_from_plot", "pyoma2.setup"))):
            continue
        f = rel(prog.mods[fi.mod].path)
        for c, r in prog.calls_in(fi):
            if isinstance(r, FuncInfo) and r.mod == PLOT_MOD:
                n += 1
                m, errs = astq.bind_args(r.node, c)
                run.ob("R-call", fi.qual, f"call of {r.node.name}", not errs, f"`{astq.src(c, 60)}`" + ("" if not errs else f": {'; '.join(errs)} - TypeError at run time"),
                       witness="; ".join(errs), file=f, node=c)
    if n == 0:
        run.ob("R-call", "pyoma2.algorithms", "plot calls", None, "no call into functions.plot found")


BIND = [
    ("algorithms.ssi.SSIdat", "plot_stab", "stab_plot", {"Fn": "self.result.Fn_poles", "Lab": "self.result.Lab", "step": "self.run_params.step", "ordmax": "self.run_params.ordmax",
                                                        "ordmin": "self.run_params.ordmin", "Fn_cov": "self.result.Fn_poles_cov", "freqlim": "freqlim", "hide_poles": "hide_poles"}),
    ("algorithms.ssi.SSIdat", "plot_cluster", "cluster_plot", {"Fn": "self.result.Fn_poles", "Xi": "self.result.Xi_poles", "Lab": "self.result.Lab", "ordmin": "self.run_params.ordmin",
                                                              "freqlim": "freqlim", "hide_poles": "hide_poles"}),
    ("algorithms.plscf.pLSCF", "plot_stab", "stab_plot", {"Fn": "self.result.Fn_poles", "Lab": "self.result.Lab", "ordmax": "self.run_params.ordmax", "ordmin": "self.run_params.ordmin",
                                                         "freqlim": "freqlim", "hide_poles": "hide_poles"}),
    ("algorithms.plscf.pLSCF", "plot_cluster", "cluster_plot", {"Fn": "self.result.Fn_poles", "Xi": "self.result.Xi_poles", "Lab": "self.result.Lab", "ordmin": "self.run_params.ordmin",
                                                               "freqlim": "freqlim", "hide_poles": "hide_poles"}),
    ("algorithms.fdd.FDD", "plot_CMIF", "CMIF_plot", {"S_val": "self.result.S_val", "freq": "self.result.freq"}),
]


def bind(prog, run):
    for cq, mname, callee, want in BIND:
        ci = prog.cls(cq)
        m = prog.exact_method(ci, mname) if mname in ci.methods else None
        if m is None:
            raise AnalysisError(f"anchor lost: {cq}.{mname}")
        f = rel(prog.mods[m.mod].path)
        res = astq.handover(prog, m, f"{PLOT_MOD}.{callee}", {p: {s_} for p, s_ in want.items()}, depth=2)
        if not res:
            run.ob("R-bind", m.qual, f"call of {callee}", False, f"{mname} does not call {callee}", witness="missing", file=f)
            continue
        for c, p, ok, detail in res:
            got = detail.split("`")[3] if detail.count("`") >= 4 else ("default" if "not passed" in detail else detail[:60])
            run.ob("R-bind", m.qual, f"{callee}.{p} <- {want[p]}", ok, detail, witness=str(got), file=f, node=c)


DRAW = ("plot", "scatter", "errorbar")


def draw_calls(fi):
    """[(call, x expr, y expr)] of ax.plot / ax.scatter / ax.errorbar with two positional (or x=, y=) coordinates"""
    out = []
    for c in ast.walk(fi.node):
        if isinstance(c, ast.Call) and isinstance(c.func, ast.Attribute) and c.func.attr in DRAW:
            x = c.args[0] if len(c.args) >= 1 else astq.kwarg(c, "x")
            y = c.args[1] if len(c.args) >= 2 else astq.kwarg(c, "y")
            if x is not None and y is not None:
                out.append((c, x, y))
    return out


def flat_form(prog, fi, e):
    """(order 'F'/'C', flattened table expression) if e flattens a table, else None"""
    if isinstance(e, ast.Call) and isinstance(e.func, ast.Attribute) and e.func.attr in ("flatten", "ravel"):
        o = astq.kwarg(e, "order", 0)
        if o is not None and not (isinstance(o, ast.Constant) and isinstance(o.value, str)):
            return None
        order = o.value.upper() if o is not None else "C"
        base = e.func.value
        if order in ("C", "F") and isinstance(base, ast.Attribute) and base.attr == "T":
            return ("F" if order == "C" else "C"), base.value       # row-major walk of the transpose = column-major walk
        return (order, base) if order in ("C", "F") else None
    if isinstance(e, ast.Call) and astq.callee_name(prog, fi, e) == "numpy.ravel" and e.args:
        o = astq.kwarg(e, "order", 1)
        if o is not None and not (isinstance(o, ast.Constant) and isinstance(o.value, str)):
            return None
        return ((o.value.upper() if o is not None else "C"), e.args[0])
    return None


def order_axis_form(prog, fi, e):
    """decompose the model-order axis: {'op': '//' | '%', 'div': 'rows' | 'cols' | None, 'scaled': bool, 'offset': src or None} or None"""
    # np.repeat(a + arange(ncols) * step, nrows): every column index repeated once per row  ==  (index // rows) * step  (+ a)
    if isinstance(e, ast.Call) and astq.callee_name(prog, fi, e) in ("numpy.repeat", "numpy.tile") and len(e.args) >= 2:
        kind = "//" if astq.callee_name(prog, fi, e) == "numpy.repeat" else "%"
        inner, reps = e.args[0], e.args[1]
        offset = None
        terms = []

        def addends(x):
            if isinstance(x, ast.BinOp) and isinstance(x.op, ast.Add):
                addends(x.left); addends(x.right)
            else:
                terms.append(x)
        addends(inner)
        ramp = None
        for t_ in terms:
            cur_, sc_ = t_, False
            while isinstance(cur_, ast.BinOp) and isinstance(cur_.op, ast.Mult):
                if isinstance(cur_.right, ast.Name) and cur_.right.id == "step":
                    sc_, cur_ = True, cur_.left
                elif isinstance(cur_.left, ast.Name) and cur_.left.id == "step":
                    sc_, cur_ = True, cur_.right
                else:
                    break
            if isinstance(cur_, ast.Call) and astq.callee_name(prog, fi, cur_) in ("numpy.arange", "range") and len(cur_.args) == 1:
                ramp = (cur_, sc_)
            else:
                offset = astq.src(t_, 40) if not (isinstance(t_, ast.Constant) and t_.value == 0) else offset
        if ramp is None:
            return None
        nsrc, rsrc = astq.src(ramp[0].args[0]), astq.src(reps)
        ncols = nsrc.endswith(".shape[1]")
        nrows_ = (isinstance(reps, ast.Call) and astq.callee_name(prog, fi, reps) == "len") or rsrc.endswith(".shape[0]")
        div = None
        if kind == "//":
            div = "rows" if (ncols and nrows_) else ("cols" if (nsrc.endswith(".shape[0]") or (isinstance(ramp[0].args[0], ast.Call) and astq.src(ramp[0].args[0].func) == "len")) and rsrc.endswith(".shape[1]") else None)
        return {"op": kind, "div": div, "scaled": ramp[1], "divsrc": rsrc, "offset": offset}
    scaled = False
    cur = e
    # peel  (...) * step
    while isinstance(cur, ast.BinOp) and isinstance(cur.op, ast.Mult):
        if isinstance(cur.right, ast.Name) and cur.right.id == "step":
            scaled, cur = True, cur.left
        elif isinstance(cur.left, ast.Name) and cur.left.id == "step":
            scaled, cur = True, cur.right
        else:
            break
    if isinstance(cur, ast.Call) and astq.callee_name(prog, fi, cur) in ("numpy.array", "numpy.asarray") and cur.args:
        cur = cur.args[0]
    idx = None
    if isinstance(cur, ast.ListComp) and len(cur.generators) == 1 and isinstance(cur.generators[0].target, ast.Name):
        idx = cur.generators[0].target.id
        cur = cur.elt
        while isinstance(cur, ast.BinOp) and isinstance(cur.op, ast.Mult):
            if isinstance(cur.right, ast.Name) and cur.right.id == "step":
                scaled, cur = True, cur.left
            elif isinstance(cur.left, ast.Name) and cur.left.id == "step":
                scaled, cur = True, cur.right
            else:
                break
    if not (isinstance(cur, ast.BinOp) and isinstance(cur.op, (ast.FloorDiv, ast.Mod))):
        return None
    left = cur.left
    while isinstance(left, ast.Call) and astq.callee_name(prog, fi, left) in ("numpy.array", "numpy.asarray") and len(left.args) == 1:
        left = left.args[0]         # np.array(range(n)) is the ramp itself
    is_idx = (idx is not None and isinstance(left, ast.Name) and left.id == idx) or \
        (isinstance(left, ast.Call) and astq.callee_name(prog, fi, left) in ("numpy.arange", "range"))
    if not is_idx:
        return None
    div = cur.right
    dt = astq.src(div)
    kind = "rows" if (isinstance(div, ast.Call) and astq.callee_name(prog, fi, div) == "len") or dt.endswith(".shape[0]") else ("cols" if dt.endswith(".shape[1]") else None)
    return {"op": "//" if isinstance(cur.op, ast.FloorDiv) else "%", "div": kind, "scaled": scaled, "divsrc": dt, "offset": None}


def flatten(prog, run, fi):
    f = rel(prog.mods[fi.mod].path)
    draws = draw_calls(fi)
    if not draws:
        run.ob("R-flatten", fi.qual, "drawing calls", None, "no ax.plot / ax.scatter / ax.errorbar call with two coordinates found", file=f)
        return
    orders = {}
    seen = set()
    axes = []
    for c, x, y in draws:
        xs = [("x", astq.expr_at(fi, c, x)), ("y", astq.expr_at(fi, c, y))]
        xe = astq.kwarg(c, "xerr")
        if xe is not None:
            xs.append(("xerr", astq.expr_at(fi, c, xe)))
        for role, ex in xs:
            ff = flat_form(prog, fi, ex)
            if ff is not None:
                orders.setdefault(ff[0], []).append(astq.src(ff[1], 40))
            elif role == "y" and fi.node.name == "stab_plot":
                key = astq.dump(ex)
                if key not in seen:
                    seen.add(key)
                    axes.append((c, ex))
    n_fl = sum(len(v) for v in orders.values())
    ok = (len(orders) == 1) if n_fl else None
    run.ob("R-flatten", fi.qual, "all drawn tables flattened in the same order", ok, f"{n_fl} flattened coordinates, orders {sorted(orders)}", witness=str(sorted(orders)), file=f, node=fi.node)
    if fi.node.name != "stab_plot":
        return
    want = sorted(orders)[0] if len(orders) == 1 else None
    forms = [(c, ex, order_axis_form(prog, fi, ex)) for c, ex in axes]
    if not forms:
        run.ob("R-flatten", fi.qual, "order axis formula", None, "model-order axis of the drawn markers not found", file=f)
    for c, ex, fo in forms:
        if fo is None or want is None:
            run.ob("R-flatten", fi.qual, "order axis consistent with the flatten order", None, f"order axis `{astq.src(ex, 70)}` is not of the form index // rows (or index % columns)", file=f, node=c,
                   config=astq.src(ex, 50))
            continue
        okf = None
        if fo["div"] is not None:
            okf = (want == "F" and fo["op"] == "//" and fo["div"] == "rows") or (want == "C" and fo["op"] == "%" and fo["div"] == "cols")
        run.ob("R-flatten", fi.qual, "order axis consistent with the flatten order", okf,
               f"`index {fo['op']} {fo['divsrc']}` with flatten order {want}", witness=f"{fo['op']} {fo['div']}|{want}", file=f, node=c, config=astq.src(ex, 50))
        run.ob("R-flatten", fi.qual, "order axis scaled by step", fo["scaled"], f"`{astq.src(ex, 70)}`" + ("" if fo["scaled"] else " is not multiplied by `step`"),
               witness=astq.src(ex, 60), file=f, node=c, config=astq.src(ex, 50))
        if fo.get("offset"):
            run.ob("R-flatten", fi.qual, "order axis starts at the first table column (no offset)", False,
                   f"`{astq.src(ex, 70)}`: the order axis is shifted by `{fo['offset']}` although table column j always holds order j*step", witness=fo["offset"], file=f, node=c, config=astq.src(ex, 50))


def markers(prog, run, fi):
    f = rel(prog.mods[fi.mod].path)
    pos, _, _, _ = astq.params_of(fi.node)
    lab = [p_ for p_ in pos if p_.lower().startswith("lab")]
    wh = []
    seen_w = set()
    cands = [(c, c) for c in ast.walk(fi.node) if isinstance(c, ast.Call)]
    # selections made inside a helper show up in the expansion of the drawn coordinates
    for dc, x, y in draw_calls(fi):
        for e in (x, y):
            ex = astq.expr_at(fi, dc, e)
            cands += [(c, dc) for c in ast.walk(ex) if isinstance(c, ast.Call)]
    for c, at in cands:
        if astq.callee_name(prog, fi, c) == "numpy.where" and len(c.args) == 3:
            cond = astq.expr_at(fi, at, c.args[0]) if at is c else c.args[0]
            if isinstance(cond, ast.Compare) and isinstance(cond.left, ast.Name) and cond.left.id in lab:
                a1_, a2_ = (astq.expr_at(fi, at, c.args[1]), astq.expr_at(fi, at, c.args[2])) if at is c else (c.args[1], c.args[2])
                key = (astq.dump(cond), astq.dump(a1_), astq.dump(a2_))
                if key in seen_w:
                    continue
                seen_w.add(key)
                wh.append((c, cond, a1_, a2_, at))
    if not wh:
        run.ob("R-markers", fi.qual, "label selections", None, "no np.where(Lab == k, X, nan) selection found", file=f)
        return
    sel = {}
    for c, cmp_, a1, a2, at_ in wh:
        k = cmp_.comparators[0].value if isinstance(cmp_.comparators[0], ast.Constant) else None
        c = at_
        isnan = isinstance(a2, ast.Attribute) and a2.attr.lower() == "nan"
        tbl = a1.id if isinstance(a1, ast.Name) else astq.src(a1)
        okform = isinstance(cmp_.ops[0], ast.Eq) and k in (0, 1) and isnan and tbl in pos
        run.ob("R-markers", fi.qual, f"selection of {tbl} by label {k}", okform, f"`np.where({astq.src(cmp_)}, {astq.src(a1, 30)}, {astq.src(a2, 20)})`", witness=f"{astq.src(cmp_)}|{tbl}|{astq.src(a2, 20)}", file=f, node=c)
        sel.setdefault(tbl, set()).add(k)
    tables = [t for t in sel if t in pos]
    full = all(sel[t] == {0, 1} for t in tables)
    run.ob("R-markers", fi.qual, "each drawn table has a stable (1) and an unstable (0) selection", full, f"{ {t: sorted(v) for t, v in sel.items()} }", witness=str({t: sorted(v) for t, v in sel.items()}), file=f, node=fi.node)


def cmif(prog, run, fi):
    f = rel(prog.mods[fi.mod].path)
    pos, _, _, _ = astq.params_of(fi.node)
    sv, fr = pos[0], pos[1]
    plots = [c for c in ast.walk(fi.node) if isinstance(c, ast.Call) and isinstance(c.func, ast.Attribute) and c.func.attr == "plot" and len(c.args) >= 2]
    if not plots:
        run.ob("R-cmif", fi.qual, "curves", None, "no ax.plot(freq, ...) call found", file=f)
        return
    pm = astq.parent_map(fi.node)
    for c in plots:
        x, y = astq.expr_at(fi, c, c.args[0]), astq.expr_at(fi, c, c.args[1])
        okx = isinstance(x, ast.Name) and x.id == fr
        ok = None
        why = astq.src(y, 110)
        if isinstance(y, ast.BinOp) and isinstance(y.op, ast.Mult) and isinstance(y.left, ast.Constant) and isinstance(y.right, ast.Call) \
                and astq.callee_name(prog, fi, y.right) in ("numpy.log10", "numpy.log", "numpy.log2") and isinstance(y.right.args[0], ast.BinOp) and isinstance(y.right.args[0].op, ast.Div):
            scale_ok = y.left.value == 10 and astq.callee_name(prog, fi, y.right) == "numpy.log10"
            num, den = y.right.args[0].left, y.right.args[0].right
            # numerator S_val[k, k, :]
            numok = isinstance(num, ast.Subscript) and isinstance(num.value, ast.Name) and num.value.id == sv and len(astq.index_elts(num)) == 3 \
                and astq.dump(astq.index_elts(num)[0]) == astq.dump(astq.index_elts(num)[1]) and astq.is_full_slice(astq.index_elts(num)[2])
            # denominator: S_val[a, a, :][argmax(S_val[a, a, :])] or max(S_val[a,a,:]) with a == 0 (literally, or k under `if k == 0`)
            guard0 = None
            i = astq.enclosing(pm, c, (ast.If,))
            if i is not None and astq.branch_of(pm, c, i) == "body" and isinstance(i.test, ast.Compare) and isinstance(i.test.ops[0], ast.Eq) \
                    and isinstance(i.test.comparators[0], ast.Constant) and i.test.comparators[0].value == 0 and isinstance(i.test.left, ast.Name):
                guard0 = i.test.left.id

            def is_zero(e):
                return (isinstance(e, ast.Constant) and e.value == 0) or (isinstance(e, ast.Name) and e.id == guard0)

            def first_sv(e):
                return isinstance(e, ast.Subscript) and isinstance(e.value, ast.Name) and e.value.id == sv and len(astq.index_elts(e)) == 3 \
                    and is_zero(astq.index_elts(e)[0]) and is_zero(astq.index_elts(e)[1]) and astq.is_full_slice(astq.index_elts(e)[2])

            def any_sv(e):
                return isinstance(e, ast.Subscript) and isinstance(e.value, ast.Name) and e.value.id == sv
            denok = None
            if isinstance(den, ast.Subscript) and any_sv(den.value):
                a = astq.argreduce(prog, fi, den.slice, astq.ARGMAX)
                denok = first_sv(den.value) and a is not None and first_sv(a)
            elif isinstance(den, ast.Subscript) and isinstance(den.value, ast.Name) and den.value.id == sv and len(astq.index_elts(den)) == 3:
                el = astq.index_elts(den)
                a = astq.argreduce(prog, fi, el[2], astq.ARGMAX)
                denok = is_zero(el[0]) and is_zero(el[1]) and a is not None and first_sv(a)
            elif isinstance(den, ast.Call) and astq.callee_name(prog, fi, den) in ("numpy.max", "numpy.amax", "numpy.nanmax", "max") and den.args and any_sv(den.args[0]):
                denok = first_sv(den.args[0])
            ok = None if denok is None else (numok and denok and scale_ok)
        run.ob("R-cmif", fi.qual, "curve = 10 log10(sigma_k / max sigma_1) over the frequency grid", (ok and okx) if ok is not None else None, f"x=`{astq.src(x)}`, y=`{why}`", witness=why[:90], file=f, node=c,
               config=f"plot#{plots.index(c)}")


P, AS, AP = "functions.plot", "algorithms.ssi", "algorithms.plscf"
MUTANTS = [
    ("C20-m13 order axis offset by ordmin", P, "stab_plot", "y = np.array([i // len(Fns_stab) for i in range(len(x))]) * step", "y = np.repeat(ordmin + np.arange(Fns_stab.shape[1]) * step, Fns_stab.shape[0])", 1),
    ("C20-m01 cluster plot called with an unknown keyword", AP, "pLSCF.plot_cluster", "plot.cluster_plot(Fn=self.result.Fn_poles, Xi=self.result.Xi_poles, Lab=self.result.Lab, ordmin=self.run_params.ordmin, freqlim=freqlim, hide_poles=hide_poles)",
     "plot.cluster_plot(Fn=self.result.Fn_poles, Sm=self.result.Xi_poles, Lab=self.result.Lab, ordmin=self.run_params.ordmin, freqlim=freqlim, hide_poles=hide_poles)"),
    ("C20-m02 row-major flatten of the stable poles", P, "stab_plot", "Fns_stab.flatten(order='F')", "Fns_stab.flatten(order='C')"),
    ("C20-m03 order axis from the column count", P, "stab_plot", "i // len(Fns_stab)", "i // Fns_stab.shape[1]", 1),
    ("C20-m04 unstable markers from label 1", P, "stab_plot", "np.where(Lab == 0, Fn, np.nan)", "np.where(Lab == 1, Fn, np.nan)"),
    ("C20-m05 damping selected by the other label", P, "cluster_plot", "aa = np.where(Lab == 1, Xi, np.nan)", "aa = np.where(Lab == 0, Xi, np.nan)"),
    ("C20-m06 higher singular values relative to their own maximum", P, "CMIF_plot", "S_val[0, 0, :][np.argmax(S_val[0, 0, :])]", "S_val[k, k, :][np.argmax(S_val[k, k, :])]"),
    ("C20-m07 damping table passed as frequencies", AS, "SSIdat.plot_cluster", "self.result.Fn_poles", "self.result.Xi_poles", 1),
    ("C20-m08 order axis not scaled by step", P, "stab_plot", "y = np.array([i // len(Fns_stab) for i in range(len(x))]) * step", "y = np.array([i // len(Fns_stab) for i in range(len(x))])", 1),
    ("C20-m09 20 log10", P, "CMIF_plot", "10 * np.log10(S_val[k, k, :] / S_val[0, 0, :][np.argmax(S_val[0, 0, :])])", "20 * np.log10(S_val[k, k, :] / S_val[0, 0, :][np.argmax(S_val[0, 0, :])])"),
    ("C20-m10 rejected poles drawn as zeros", P, "cluster_plot", "b = np.where(Lab == 0, Fn, np.nan)", "b = np.where(Lab == 0, Fn, 0)"),
    ("C20-m11 covariance table of damping passed to stab plot", AS, "SSIdat.plot_stab", "self.result.Fn_poles_cov", "self.result.Xi_poles_cov"),
    ("C20-m12 modulo order axis", P, "stab_plot", "i // len(Fns_stab)", "i % len(Fns_stab)", 2),
]
REWRITES = [
    ("C20-r05 order axis by np.repeat", P, "stab_plot", "y = np.array([i // len(Fns_stab) for i in range(len(x))]) * step", "y = np.repeat(np.arange(Fns_stab.shape[1]) * step, Fns_stab.shape[0])", 1),
    ("rename:C20-r01", P, "stab_plot", "Fns_stab", "stable"),
    ("C20-r02 lower-case order", P, "stab_plot", "Fns_stab.flatten(order='F')", "Fns_stab.flatten(order='f')"),
    ("C20-r03 shape[0] instead of len", P, "stab_plot", "i // len(Fns_stab)", "i // Fns_stab.shape[0]", 1),
    ("C20-r04 np.max for the reference level", P, "CMIF_plot", "S_val[0, 0, :][np.argmax(S_val[0, 0, :])]", "np.max(S_val[0, 0, :])"),
]
