"""C16 - interactive pole picking hands over exactly the picked (frequency, order) pairs.

Decided (structural, in support.sel_from_plot.SelFromPlot, for each dialog variant SSI / pLSCF / FDD by constant propagation of
self.plot): R-lockstep - the frequency list and its partner list (model-order indices, resp. frequency-line indices) receive the same
mutation in the same block of every method: append/append, pop()/pop(), pop(i)/pop(i) with one i, re-assignment through one and the
same permutation - so each frequency stays paired with its order for EVERY sequence of clicks; R-types - no arithmetic on an attribute
whose every assignment is a list; R-pick - a pick takes the order nearest to the click, then the retained pole nearest in frequency at
that order, and appends exactly that (frequency, order); deselect-nearest removes the entry nearest in frequency to the click;
R-handover - the dialog's result is (frequencies, partner list).  Event delivery by the GUI toolkit is out of scope.
"""
import ast

from .. import astq
from ..program import rel, AnalysisError

CLS = "support.sel_from_plot.SelFromPlot"
MODES = {"SSI": "pole_ind", "pLSCF": "pole_ind", "FDD": "freq_ind"}
MAIN = "sel_freq"


def self_attr(e, name=None):
    return isinstance(e, ast.Attribute) and isinstance(e.value, ast.Name) and e.value.id == "self" and (name is None or e.attr == name)


MUTATORS = ("append", "pop", "remove", "insert", "clear", "extend", "sort", "reverse")


def _rebinders(ci, lst, _cache={}):
    """methods of the dialog that (transitively, through calls on self) assign self.<lst> anew"""
    key = (id(ci), lst)
    if key in _cache:
        return _cache[key]
    direct = {n_ for n_, m in ci.methods.items() if any(isinstance(a, ast.Assign) and any(self_attr(t, lst) or (isinstance(t, (ast.Tuple, ast.List)) and any(self_attr(x, lst) for x in t.elts)) for t in a.targets)
                                                       for a in ast.walk(m.node))}
    out = set(direct)
    changed = True
    while changed:
        changed = False
        for n_, m in ci.methods.items():
            if n_ in out:
                continue
            if any(self_attr(x) and x.attr in out for x in ast.walk(m.node)):
                out.add(n_)
                changed = True
    _cache[key] = out
    return out


def _alias_of(e, lists, fi, stmt, ci):
    """(tracked list, status) for a local name holding a reference to self.<list>: status True = the reference is still the list
    the attribute names, None = the attribute may have been re-bound (or an unknown callable ran) between the fetch and the use"""
    if fi is None or not isinstance(e, ast.Name):
        return None, True
    try:
        ex = astq.expr_at(fi, stmt, e)
    except Exception:
        return None, True
    if isinstance(ex, ast.Call) and isinstance(ex.func, ast.Name) and ex.func.id == "getattr" and ex.args and isinstance(ex.args[0], ast.Name) and ex.args[0].id == "self":
        return "?", None        # an attribute of the dialog chosen at run time: may be either list
    if not (self_attr(ex) and ex.attr in lists):
        return None, True
    # the fetch: last plain assignment of the name before the use
    fetch = None
    for a in ast.walk(fi.node):
        if isinstance(a, ast.Assign) and len(a.targets) == 1 and isinstance(a.targets[0], ast.Name) and a.targets[0].id == e.id and a.lineno <= getattr(stmt, "lineno", 0):
            if fetch is None or a.lineno > fetch.lineno:
                fetch = a
    if fetch is None:
        return ex.attr, None
    reb = _rebinders(ci, ex.attr) if ci is not None else set()
    params = set(astq.params_of(fi.node)[0] + astq.params_of(fi.node)[1]) - {"self"}
    for n in ast.walk(fi.node):
        ln = getattr(n, "lineno", None)
        if ln is None or not (fetch.lineno < ln <= getattr(stmt, "lineno", 0)):
            continue
        if isinstance(n, ast.Assign) and any(self_attr(t, ex.attr) for t in n.targets):
            return ex.attr, None
        if isinstance(n, ast.Call):
            if self_attr(n.func) and n.func.attr in reb:
                return ex.attr, None
            if isinstance(n.func, ast.Name) and n.func.id in params:
                return ex.attr, None    # a callable handed in by the caller: effect unknown
    return ex.attr, True


def _target_list(e, lists, alias):
    """name of the tracked list that expression e denotes: self.<list>, or a parameter known to alias one"""
    if self_attr(e) and e.attr in lists:
        return e.attr
    if isinstance(e, ast.Name) and e.id in alias:
        return alias[e.id]
    return None


def _perm_names(fi, stmt, value):
    """names used in `value` that hold an arg-sort permutation (decided on their flow-sensitive expansion)"""
    out = []
    for x in ast.walk(value):
        if isinstance(x, ast.Name) and x.id not in ("self", "np", "list"):
            try:
                ex = astq.expr_at(fi, stmt, x)
            except Exception:
                continue
            if any(isinstance(c, ast.Call) and isinstance(c.func, ast.Attribute) and c.func.attr == "argsort" for c in ast.walk(ex)):
                out.append(astq.dump(ex))
    return sorted(set(out))


def mutations(body, lists, fi=None, alias=None, ci=None, depth=1):
    """{list name: [(kind, detail, node)]} for the statements DIRECTLY in this block; calls of own private helpers that receive a
    tracked list as argument are followed once (the helper's mutations are attributed to the lists it was given)"""
    alias = alias or {}
    out = {l: [] for l in lists}
    for s in body:
        if isinstance(s, (ast.If, ast.For, ast.While, ast.Try, ast.With)):
            continue
        for n in ast.walk(s):
            if isinstance(n, ast.Call) and isinstance(n.func, ast.Attribute):
                tl = _target_list(n.func.value, lists, alias)
                if tl is None and n.func.attr in MUTATORS and isinstance(n.func.value, ast.Name):
                    tl, valid = _alias_of(n.func.value, lists, fi, s, ci)
                    if tl is not None and valid is None:
                        for l_ in (lists if tl == "?" else (tl,)):
                            out[l_].append(("unknown", f"{n.func.attr} through `{n.func.value.id}`, a reference that may no longer be (or may not be) self.{l_}", n))
                        continue
                if tl is not None and n.func.attr in MUTATORS:
                    # what keeps the lists in step is WHERE an entry goes in / comes out, not which value: insert(pos, v) is insert(pos)
                    pos_args = [] if n.func.attr == "append" else (n.args[:1] if n.func.attr == "insert" else n.args)
                    det = n.func.attr + "(" + ",".join(astq.src(a) for a in pos_args) + ")"
                    out[tl].append((n.func.attr, det, n))
                # own helper given a tracked list
                if ci is not None and depth > 0 and self_attr(n.func) and n.func.attr in ci.methods and n.func.attr.startswith("_"):
                    callee = ci.methods[n.func.attr]
                    m_, errs = astq.bind_args(callee.node, n, bound=True)
                    sub_alias = {p_: _target_list(a_, lists, alias) for p_, a_ in m_.items() if isinstance(a_, ast.AST) and _target_list(a_, lists, alias)}
                    has_effect = any(isinstance(c, ast.Call) and isinstance(c.func, ast.Attribute) and c.func.attr in ("append", "pop", "remove", "insert", "clear", "extend", "sort", "reverse")
                                     and (_target_list(c.func.value, lists, sub_alias) is not None) for c in ast.walk(callee.node))
                    if has_effect and not errs:
                        argmap = {p_: astq.src(a_) for p_, a_ in m_.items() if isinstance(a_, ast.AST)}
                        if fi is not None:
                            callee = astq.SpecialisedFn(callee, fi, n)      # constants / attributes / lambdas travel over the call edge
                        for blk in blocks(callee.node):
                            sub = mutations(blk, lists, callee, sub_alias, ci, depth - 1)
                            for l_, items in sub.items():
                                for kind, det, node_ in items:
                                    # express the helper's arguments in the caller's terms
                                    for p_, a_src in argmap.items():
                                        det = det.replace("(" + p_ + ")", "(" + a_src + ")").replace("(" + p_ + ",", "(" + a_src + ",")
                                    out[l_].append((kind, det, n))
            if isinstance(n, ast.Assign):
                for t in [e_ for t_ in n.targets for e_ in (t_.elts if isinstance(t_, (ast.Tuple, ast.List)) else [t_])]:
                    tl = t.attr if (self_attr(t) and t.attr in lists) else None
                    if tl is not None:
                        perms = _perm_names(fi, n, n.value) if fi is not None else []
                        if perms:
                            out[tl].append(("assign", f"re-ordered by {len(perms)} arg-sort permutation(s) #" + str(abs(hash(tuple(perms))) % 10000), n))
                        else:
                            # a new list bound to the attribute: which values it holds is not judged here (no verdict from the names they come
                            # through); what would put the lists out of step is ONE of them being re-ordered on the way
                            reord = any((isinstance(x, ast.Call) and astq.src(x.func).split(".")[-1] in ("sorted", "reversed", "argsort", "sort", "flip", "unique", "set"))
                                        or (isinstance(x, ast.Slice) and x.step is not None) for x in ast.walk(n.value))
                            out[tl].append(("assign", "assign" + (" (re-ordered)" if reord else ""), n))
                    if isinstance(t, ast.Subscript) and _target_list(t.value, lists, alias):
                        out[_target_list(t.value, lists, alias)].append(("setitem", "setitem", n))
            if isinstance(n, ast.Delete):
                for t in n.targets:
                    if isinstance(t, ast.Subscript) and _target_list(t.value, lists, alias):
                        out[_target_list(t.value, lists, alias)].append(("del", f"del [{astq.src(t.slice)}]", n))
    return out


def _is_list_expr(ci, v, depth=1):
    if isinstance(v, (ast.List, ast.ListComp)):
        return True
    if isinstance(v, ast.Call) and isinstance(v.func, ast.Name) and v.func.id in ("list", "sorted"):
        return True
    if isinstance(v, ast.Call) and self_attr(v.func) and v.func.attr in ci.methods and depth > 0:
        rets = [r.value for r in ast.walk(ci.methods[v.func.attr].node) if isinstance(r, ast.Return) and r.value is not None]
        return bool(rets) and all(_is_list_expr(ci, r, depth - 1) for r in rets)
    return False


def blocks(node):
    yield node.body
    for n in ast.walk(node):
        if n is node:
            continue
        for field in ("body", "orelse", "finalbody"):
            sub = getattr(n, field, None)
            if isinstance(sub, list) and sub and isinstance(sub[0], ast.stmt) and not isinstance(n, (ast.FunctionDef, ast.ClassDef, ast.Lambda)):
                yield sub
        if isinstance(n, ast.Try):
            for h in n.handlers:
                yield h.body


def mode_methods(ci, mode):
    """methods of the dialog reachable (called or connected as handlers) when self.plot == mode"""
    seen = set()
    work = ["__init__"]
    while work:
        name = work.pop()
        if name in seen or name not in ci.methods:
            continue
        seen.add(name)
        pf = astq.PrunedFn(ci.methods[name], {"self.plot": mode, "plot": mode})
        for n in ast.walk(pf.node):
            if self_attr(n) and n.attr in ci.methods:
                work.append(n.attr)
    return seen


def units(ci, live, mode, depth=3):
    """analysis units of one dialog variant: (method, specialised + pruned body, call site description).  A method that other methods
    of the dialog call with arguments is analysed once per call site, with the arguments propagated (SpecialisedFn); it is ALSO
    analysed on its own when it is referenced without a call (connected as a handler) or never called with arguments."""
    consts = {"self.plot": mode, "plot": mode}
    called_with_args, bare = {}, set()
    for m in ci.methods.values():
        if m.node.name not in live:
            continue
        calls = {id(c.func) for c in ast.walk(m.node) if isinstance(c, ast.Call)}
        for n in ast.walk(m.node):
            if isinstance(n, ast.Call) and self_attr(n.func) and n.func.attr in ci.methods and (n.args or n.keywords):
                called_with_args.setdefault(n.func.attr, []).append((m, n))
            if self_attr(n) and n.attr in ci.methods and id(n) not in calls:
                bare.add(n.attr)
    out = []
    for m in ci.methods.values():
        if m.node.name not in live:
            continue
        if m.node.name not in called_with_args or m.node.name in bare or not m.node.name.startswith("_"):
            out.append((m, astq.PrunedFn(m, consts, subst=True), None))
    work = [(u[1], 0) for u in out]
    seen = set()
    while work:
        holder, d = work.pop()
        if d >= depth:
            continue
        for n in ast.walk(holder.node):
            if isinstance(n, ast.Call) and self_attr(n.func) and n.func.attr in ci.methods and (n.args or n.keywords) and n.func.attr in live:
                callee = ci.methods[n.func.attr]
                if callee.node is getattr(holder, "fi", holder).node or (id(n), callee.qual) in seen:
                    continue
                seen.add((id(n), callee.qual))
                sp = astq.SpecialisedFn(callee, holder, n)
                if not sp.bound_params:
                    continue
                pf = astq.PrunedFn(sp, consts, subst=True)
                out.append((callee, pf, f"{holder.node.name}:{getattr(n, 'lineno', 0)}"))
                work.append((pf, d + 1))
    return out


ARRAY_MAKERS = ("numpy.arange", "numpy.array", "numpy.asarray", "numpy.zeros", "numpy.ones", "numpy.linspace", "numpy.abs", "numpy.full")


def check(prog, run):
    run.rule("R-lockstep", "in every block of every SelFromPlot method the frequency list and its partner list receive the same mutation (per dialog variant)", 12)
    run.rule("R-types", "no arithmetic on an attribute that is only ever assigned lists", 2)
    run.rule("R-pick", "pick = (order nearest to the click, retained pole nearest in frequency at that order); deselect-nearest = entry nearest in frequency", 7)
    run.rule("R-handover", "dialog result = (sel_freq, partner list) for SSI/pLSCF, (sel_freq, None) for FDD", 3)
    ci = prog.cls(CLS)
    f = rel(prog.mods[ci.mod].path)
    # the list that runs parallel to sel_freq is known to these rules by its attribute name; a dialog that keeps it under another name and
    # offers the old names as properties is not read (the attribute the rules would follow is never touched directly)
    aliased = sorted(p_ for p_ in set(MODES.values()) | {MAIN} if p_ in ci.methods)
    if aliased:
        for r_ in ("R-lockstep", "R-pick", "R-handover"):
            run.ob(r_, ci.qual, "selection lists", None, f"`{aliased[0]}` is a property of the dialog (an alias for a list kept under another name): the rules that follow "
                   f"`self.{aliased[0]}` do not read this form", file=f, node=ci.node)
        return
    # ---------------- lockstep
    for mode, partner in MODES.items():
        lists = (MAIN, partner)
        live = mode_methods(ci, mode)
        for m, pf, site in units(ci, live, mode):
            # a private helper that mutates a list it receives as a parameter is judged at its call sites (with the argument substituted)
            params = set(astq.params_of(m.node)[0]) - {"self"}
            by_param = m.node.name.startswith("_") and any(isinstance(c, ast.Call) and isinstance(c.func, ast.Attribute) and isinstance(c.func.value, ast.Name)
                                                           and c.func.value.id in params and c.func.attr in MUTATORS
                                                           for c in ast.walk(m.node))
            if by_param:
                continue
            for body in blocks(pf.node):
                mu = mutations(body, lists, pf, None, ci)
                a, b = mu[MAIN], mu[partner]
                if not a and not b:
                    continue
                # (binding a new list once or twice is the same thing: assignments count once)
                ka = sorted([x[1] for x in a if x[0] != "assign"] + sorted({x[1] for x in a if x[0] == "assign"}))
                kb = sorted([x[1] for x in b if x[0] != "assign"] + sorted({x[1] for x in b if x[0] == "assign"}))
                ok = ka == kb
                if any(x[0] == "unknown" for x in a + b):
                    ok = None
                node = (a or b)[0][2]
                run.ob("R-lockstep", m.qual, f"{MAIN} / {partner} mutated together" + (f" (as called from {site})" if site else ""), ok,
                       f"{MAIN}: {ka}; {partner}: {kb}" + ("" if ok is not False else f" - the lists get out of step in dialog variant {mode}"),
                       witness=f"{ka} vs {kb}", file=f, node=node, config=f"plot={mode}")
    # ---------------- types
    assigned = {}
    for m in ci.methods.values():
        for n in ast.walk(m.node):
            if isinstance(n, ast.Assign):
                for t in n.targets:
                    if self_attr(t):
                        v = n.value
                        kind = "list" if _is_list_expr(ci, v) else "other"
                        if kind == "other" and not ((isinstance(v, ast.Call) and astq.callee_name(prog, m, v) in ARRAY_MAKERS) or isinstance(v, (ast.Tuple, ast.Dict, ast.Set))
                                                    or (isinstance(v, ast.Constant) and v.value is not None)):
                            kind = "unknown"        # a value handed in / computed elsewhere: its type is not read off the assignment
                        assigned.setdefault(t.attr, set()).add(kind)
    listattrs = {a for a, k in assigned.items() if k == {"list"}}
    maybe_lists = {a for a, k in assigned.items() if k <= {"list", "unknown"}}
    nsites = 0
    for m in ci.methods.values():
        for n in ast.walk(m.node):
            if isinstance(n, ast.BinOp) and isinstance(n.op, (ast.Sub, ast.Mult, ast.Div, ast.Pow)) or (isinstance(n, ast.BinOp) and isinstance(n.op, ast.Add)):
                for side in (n.left, n.right):
                    if self_attr(side) and side.attr in listattrs:
                        other = n.right if side is n.left else n.left
                        if isinstance(n.op, ast.Add) and isinstance(other, (ast.List, ast.ListComp)):
                            continue
                        ox = astq.expr_at(m, n, other) if isinstance(other, ast.Name) else other
                        def _arr0(e_):
                            return (isinstance(e_, ast.Call) and astq.callee_name(prog, m, e_) in ARRAY_MAKERS) or (isinstance(e_, ast.BinOp) and (_arr0(e_.left) or _arr0(e_.right)))
                        if _arr0(ox):
                            continue  # ndarray (op) list broadcasts
                        if isinstance(ox, ast.Call):
                            # a helper of the package that hands back an array (np.arange(n) * step ..)
                            try:
                                r_ = prog.resolve_call(m, ox)
                            except Exception:
                                r_ = None
                            if not hasattr(r_, "node"):
                                r_ = prog.functions.get(astq.callee_name(prog, m, ox) or "")
                            rets_ = [x.value for x in ast.walk(r_.node) if isinstance(x, ast.Return) and x.value is not None] if hasattr(r_, "node") else []

                            def _arr(e_):
                                return (isinstance(e_, ast.Call) and astq.callee_name(prog, r_, e_) in ARRAY_MAKERS) or (isinstance(e_, ast.BinOp) and (_arr(e_.left) or _arr(e_.right)))
                            if rets_ and all(_arr(astq.expr_at(r_, x_, x_.value)) for x_ in ast.walk(r_.node) if isinstance(x_, ast.Return) and x_.value is not None):
                                continue
                        scalar = isinstance(ox, ast.Constant) or (isinstance(ox, ast.Call) and astq.src(ox.func) in ("int", "float", "len", "round", "abs")) \
                            or (isinstance(ox, ast.Attribute) and ox.attr in ("xdata", "ydata"))
                        nsites += 1 if scalar else 0
                        run.ob("R-types", m.qual, f"arithmetic on list attribute self.{side.attr}", False if scalar else None,
                               f"`{astq.src(n, 60)}`: self.{side.attr} is only ever assigned lists, `{type(n.op).__name__}` with a number raises TypeError",
                               witness=astq.src(n, 60), file=f, node=n)
    run.ob("R-types", ci.qual, "list attributes", True, f"list-valued attributes {sorted(listattrs)}: no arithmetic directly on them" if nsites == 0 else f"{nsites} offending site(s)", file=f, node=ci.node)
    run.ob("R-types", ci.qual, "frequency list and partner lists are list-valued", True if {MAIN, "pole_ind", "freq_ind"} <= listattrs else (None if {MAIN, "pole_ind", "freq_ind"} <= maybe_lists else False),
           f"{sorted(listattrs)}", witness=str(sorted(listattrs)), file=f, node=ci.node)
    pick(prog, run, ci, f)
    click_position(prog, run, ci, f)
    own_lists(prog, run, ci, f)
    # "the modes extracted afterwards are those poles": per-mode order lists are resolved to the nearest retained pole (rules of C11)
    from . import C11
    C11.declare_extraction_rules(run, first_order=False, handover_min=10)
    C11.extraction(prog, run, first_order=False, with_handover=True, only_methods=("mpe_from_plot",))
    handover(prog, run, ci, f)


def own_lists(prog, run, ci, f):
    """R-own-lists: the dialog changes its lists in place (append / pop / insert ..), so every list it binds to those attributes must be
    its own - built there (literal, comprehension, list(..), sorted(..), a copy) - and not an object that outlives the dialog: a mutable
    default / module-level constant handed in through a parameter is ONE object for all dialogs, and what one dialog picks stays in it"""
    run.rule("R-own-lists", "the lists the dialog mutates in place are built by the dialog, not taken over from a default or module-level object shared by all dialogs", 3)
    tracked = (MAIN, "pole_ind", "freq_ind")
    inplace = {a: False for a in tracked}
    for m in ci.methods.values():
        for n in ast.walk(m.node):
            if isinstance(n, ast.Call) and isinstance(n.func, ast.Attribute) and n.func.attr in MUTATORS and self_attr(n.func.value) and n.func.value.attr in inplace:
                inplace[n.func.value.attr] = True
            if isinstance(n, (ast.Assign, ast.Delete)):
                for t in (n.targets if isinstance(n, (ast.Assign, ast.Delete)) else []):
                    if isinstance(t, ast.Subscript) and self_attr(t.value) and t.value.attr in inplace:
                        inplace[t.value.attr] = True
    mod = prog.mods[ci.mod]

    def shared_default(d):
        """(True, what) when the default expression denotes one object that every call shares and that holds a list"""
        if isinstance(d, ast.Name):
            for st in mod.tree.body:
                if (isinstance(st, ast.Assign) and any(isinstance(t_, ast.Name) and t_.id == d.id for t_ in st.targets)) or \
                        (isinstance(st, ast.AnnAssign) and isinstance(st.target, ast.Name) and st.target.id == d.id and st.value is not None):
                    ok_, what = shared_default(st.value)
                    return ok_, f"module-level `{d.id}`" if ok_ else what
            return None, f"`{d.id}`"
        if isinstance(d, (ast.List, ast.Dict, ast.Set)):
            return True, f"mutable default `{astq.src(d, 30)}`"
        if isinstance(d, ast.Tuple):
            for e in d.elts:
                ok_, what = shared_default(e)
                if ok_:
                    return True, f"default `{astq.src(d, 30)}` (holds a list)"
            return False, ""
        if isinstance(d, ast.Constant):
            return False, ""
        return None, f"`{astq.src(d, 30)}`"

    def origin(m, at, e, depth=0):
        """'fresh' / ('shared', what) / ('param', what) / None for the object expression e denotes at statement `at` of method m"""
        if _is_list_expr(ci, e) or isinstance(e, (ast.BinOp, ast.ListComp, ast.List)):
            return "fresh"
        if isinstance(e, ast.Call) and isinstance(e.func, ast.Attribute) and e.func.attr in ("copy", "tolist"):
            return "fresh"
        if isinstance(e, ast.Subscript) and isinstance(e.slice, ast.Slice):
            return "fresh"                       # a slice of a list is a new list
        base = e
        while isinstance(base, ast.Subscript):
            base = base.value
        if isinstance(base, ast.Name):
            pos = [a.arg for a in m.node.args.posonlyargs + m.node.args.args + m.node.args.kwonlyargs]
            stores = [n for n in ast.walk(m.node) if isinstance(n, (ast.Assign,)) and any(isinstance(x, ast.Name) and x.id == base.id and isinstance(x.ctx, ast.Store) for t_ in n.targets for x in ast.walk(t_))]
            if stores:
                if len(stores) != 1:
                    return None
                st = stores[0]
                tgt = st.targets[0]
                if isinstance(tgt, ast.Name):
                    return origin(m, st, st.value, depth) if e is base else origin(m, st, st.value, depth)
                if isinstance(tgt, (ast.Tuple, ast.List)):
                    # a, b = <expr>: the element of the unpacked object
                    if isinstance(st.value, (ast.Tuple, ast.List)) and len(st.value.elts) == len(tgt.elts):
                        k = next((i for i, x in enumerate(tgt.elts) if isinstance(x, ast.Name) and x.id == base.id), None)
                        return origin(m, st, st.value.elts[k], depth) if k is not None else None
                    return origin(m, st, st.value, depth)
                return None
            if base.id in pos:
                args = m.node.args
                allp = args.posonlyargs + args.args
                d = None
                if base.id in [a.arg for a in allp]:
                    i = [a.arg for a in allp].index(base.id) - (len(allp) - len(args.defaults))
                    d = args.defaults[i] if i >= 0 else None
                else:
                    i = [a.arg for a in args.kwonlyargs].index(base.id)
                    d = args.kw_defaults[i]
                if m.node.name == "__init__" or d is not None:
                    if d is not None:
                        ok_, what = shared_default(d)
                        if ok_:
                            return ("shared", f"parameter `{base.id}` of {m.node.name}, whose default is the {what}")
                    if m.node.name == "__init__":
                        return ("param", f"parameter `{base.id}` of the constructor")
                # a helper of the dialog: what its callers hand in
                if depth < 3:
                    res = []
                    for cm in ci.methods.values():
                        for c in ast.walk(cm.node):
                            if isinstance(c, ast.Call) and self_attr(c.func) and c.func.attr == m.node.name:
                                b_, errs = astq.bind_args(m.node, c, bound=True)
                                a_ = b_.get(base.id)
                                if isinstance(a_, ast.AST):
                                    res.append(origin(cm, c, a_, depth + 1))
                    if res and all(r == "fresh" for r in res):
                        return "fresh"
                    for r in res:
                        if isinstance(r, tuple) and r[0] == "shared":
                            return r
                    for r in res:
                        if isinstance(r, tuple):
                            return r
                return None
            return None
        if self_attr(base):
            return None
        return None

    n = 0
    for m in ci.methods.values():
        for st in ast.walk(m.node):
            if not isinstance(st, ast.Assign):
                continue
            for t in st.targets:
                pairs = []
                if self_attr(t) and t.attr in tracked:
                    pairs.append((t.attr, st.value))
                elif isinstance(t, (ast.Tuple, ast.List)):
                    for k, x in enumerate(t.elts):
                        if self_attr(x) and x.attr in tracked:
                            v = st.value.elts[k] if isinstance(st.value, (ast.Tuple, ast.List)) and len(st.value.elts) == len(t.elts) else ast.Subscript(value=st.value, slice=ast.Constant(value=k), ctx=ast.Load())
                            pairs.append((x.attr, v))
                for attr, v in pairs:
                    if not inplace[attr]:
                        continue
                    o = origin(m, st, v)
                    n += 1
                    ok = True if o == "fresh" else (False if isinstance(o, tuple) and o[0] == "shared" else None)
                    why = "a list built here" if o == "fresh" else (f"`{astq.src(v, 40)}` is taken over from {o[1]}" + (": one object for every dialog - the entries one dialog appends stay in it for the next" if o[0] == "shared" else
                                                                     ": the caller's own list is changed in place") if isinstance(o, tuple) else f"origin of `{astq.src(v, 40)}` not followed")
                    run.ob("R-own-lists", m.qual, f"self.{attr} is the dialog's own list", ok, why, witness=f"{attr}:{o if isinstance(o, str) else (o[0] if o else None)}", file=f, node=st)
    if n == 0 and not any(inplace.values()):
        run.ob("R-own-lists", ci.qual, "list attributes", True, "the selection lists are never changed in place in the dialog (every change binds a new list): nothing taken over can be modified", file=f, node=ci.node)
    elif n == 0:
        run.ob("R-own-lists", ci.qual, "list attributes", None, "no binding of the selection lists found", file=f, node=ci.node)


def pick(prog, run, ci, f):
    m = ci.methods.get("get_closest_pole")
    if m is None:
        raise AnalysisError("anchor lost: SelFromPlot.get_closest_pole")
    m = astq.PrunedFn(m, {"plot": "SSI", "self.plot": "SSI"})
    apps = {}
    for n in ast.walk(m.node):
        if isinstance(n, ast.Call) and isinstance(n.func, ast.Attribute) and n.func.attr in ("append", "insert") and len(n.args) == (1 if n.func.attr == "append" else 2):
            recv = n.func.value
            if isinstance(recv, ast.Name):
                recv = astq.expr_at(m, n, recv)         # a local name for one of the lists (chosen by the dialog variant)
            if self_attr(recv):
                apps[recv.attr] = n
    if not {"pole_ind", MAIN} <= set(apps):
        # entries may be put in by a helper of the dialog (sorted insertion): not read here
        helper = any(isinstance(n, ast.Call) and ((self_attr(n.func) and n.func.attr.startswith("_")) or
                                                  (isinstance(n.func, ast.Name) and (astq.callee_name(prog, m, n) or "").startswith("pyoma2."))) for n in ast.walk(m.node))
        run.ob("R-pick", m.qual, "appends", None if helper else False, "pick does not append to both lists" + (" itself (a helper of the dialog is called: not followed)" if helper else ""),
               witness="missing", file=f, node=m.node)
        return
    yv = astq.uncoerce(astq.expr_at(m, apps["pole_ind"], apps["pole_ind"].args[-1]))
    fv = astq.uncoerce(astq.expr_at(m, apps[MAIN], apps[MAIN].args[-1]))
    # order index = argmin |arange(n_orders) - y|
    inner = yv
    if isinstance(inner, ast.Call) and astq.callee_name(prog, m, inner) == "int":
        inner = inner.args[0]
    arr = astq.argreduce(prog, m, inner, astq.ARGMIN)
    d = astq.strip_abs(prog, m, arr) if arr is not None else None
    ok = None
    why = astq.src(yv, 100)
    if isinstance(d, ast.BinOp) and isinstance(d.op, ast.Sub):
        l, r = d.left, d.right
        if isinstance(l, ast.BinOp) and isinstance(l.op, ast.Mult):
            # the order of column k where the chart draws one column every `step` orders: arange(n) * step
            l = l.left if isinstance(l.left, ast.Call) else l.right
        if isinstance(l, ast.Call) and astq.callee_name(prog, m, l) == "numpy.arange" and "Fn_poles" in astq.src(l) and "y_data_pole" in astq.src(r):
            # a ramp over the other extent of the pole table (the poles of one order) is a recognised different construct
            ok = True if ".shape[1]" in astq.src(l) else (False if ".shape[0]" in astq.src(l) else None)
    elif arr is None and isinstance(inner, ast.expr) and "y_data_pole" in astq.src(inner) and not any(isinstance(c_, ast.Call) for c_ in ast.walk(inner)):
        ok = False          # the click height itself stored as the order: no nearest-order search at all
    run.ob("R-pick", m.qual, "order index = argmin |arange(number of orders) - click y|", ok, f"`{why}`", witness=why[:80], file=f, node=apps["pole_ind"])
    tbl = "self.algo.result.Fn_poles"
    fvx, yvx = fv, yv
    acc = astq.access_path(fvx, {tbl})
    okc = acc is not None and acc.col is not None and astq.dump(acc.col) == astq.dump(yvx)
    run.ob("R-pick", m.qual, "appended frequency is read at the appended order", okc, f"{acc!r}; order appended `{astq.src(yvx, 60)}`", witness=repr(acc)[:80], file=f, node=apps[MAIN])
    okr = False
    whyr = "no row"
    if acc is not None and acc.row is not None:
        arr = astq.argreduce(prog, m, acc.row, {"numpy.nanargmin"})
        d = astq.strip_abs(prog, m, arr) if arr is not None else None
        if isinstance(d, ast.BinOp) and isinstance(d.op, ast.Sub):
            a1 = astq.access_path(d.left, {tbl})
            okr = a1 is not None and a1.row is None and a1.col is not None and astq.dump(a1.col) == astq.dump(acc.col) and "x_data_pole" in astq.src(d.right)
        whyr = astq.src(acc.row, 100)
    run.ob("R-pick", m.qual, "row = retained pole nearest in frequency to the click at that order (NaN-aware)", okr, f"`{whyr}`", witness=whyr[:80], file=f, node=apps[MAIN])
    # FDD pick
    g = ci.methods.get("get_closest_freq")
    if g is not None:
        ap = {}
        for n in ast.walk(g.node):
            if isinstance(n, ast.Call) and isinstance(n.func, ast.Attribute) and n.func.attr == "append" and self_attr(n.func.value):
                ap[n.func.value.attr] = n
        if {"freq_ind", MAIN} <= set(ap):
            iv = astq.uncoerce(astq.expr_at(g, ap["freq_ind"], ap["freq_ind"].args[0]))
            fvv = astq.uncoerce(astq.expr_at(g, ap[MAIN], ap[MAIN].args[0]))
            arr = astq.argreduce(prog, g, iv, astq.ARGMIN)
            d = astq.strip_abs(prog, g, arr) if arr is not None else None
            ok = isinstance(d, ast.BinOp) and "result.freq" in astq.src(d.left) and "x_data_pole" in astq.src(d.right)
            run.ob("R-pick", g.qual, "line index = argmin |freq - click x|", bool(ok), f"`{astq.src(iv, 90)}`", witness=astq.src(iv, 80), file=f, node=ap["freq_ind"])
            ok2 = isinstance(fvv, ast.Subscript) and "result.freq" in astq.src(fvv.value) and astq.dump(fvv.slice) == astq.dump(iv)
            run.ob("R-pick", g.qual, "appended frequency is the grid line at that index", ok2, f"`{astq.src(fvv, 90)}`", witness=astq.src(fvv, 80), file=f, node=ap[MAIN])
    # deselect-nearest in both click handlers
    for hname, partner in (("on_click_SSI", "pole_ind"), ("on_click_FDD", "freq_ind")):
        h = ci.methods.get(hname)
        if h is None:
            raise AnalysisError(f"anchor lost: SelFromPlot.{hname}")
        # pops of the frequency list with an index: directly, or inside an own private helper (index expressed in the handler's terms)
        pops = []
        for n in ast.walk(h.node):
            if isinstance(n, ast.Call) and isinstance(n.func, ast.Attribute) and n.func.attr == "pop" and n.args \
                    and (self_attr(n.func.value, MAIN) or (isinstance(n.func.value, ast.Name) and self_attr(astq.expr_at(h, n, n.func.value), MAIN))):
                # (the list itself or a local name for it: `lst = self.sel_freq; lst.pop(i)`)
                iv0 = astq.expr_at(h, n, n.args[0])
                if isinstance(iv0, ast.Name) and astq.reaching_values(h, n, iv0.id):
                    pops.extend((n, v_) for v_ in astq.reaching_values(h, n, iv0.id))
                else:
                    pops.append((n, iv0))
            if isinstance(n, ast.Call) and self_attr(n.func) and n.func.attr in ci.methods and n.func.attr.startswith("_"):
                callee = ci.methods[n.func.attr]
                m_, errs = astq.bind_args(callee.node, n, bound=True)
                for c in ast.walk(callee.node):
                    if isinstance(c, ast.Call) and isinstance(c.func, ast.Attribute) and c.func.attr == "pop" and c.args and self_attr(c.func.value, MAIN):
                        a0 = astq.expr_at(callee, c, c.args[0])
                        if isinstance(a0, ast.Name) and a0.id in m_ and isinstance(m_[a0.id], ast.AST):
                            pops.append((n, astq.expr_at(h, n, m_[a0.id])))
                        elif isinstance(a0, ast.Name) and astq.reaching_values(callee, c, a0.id):
                            # an index chosen in branches (`pos = -1` / `pos = argmin(...)`): every value it may hold is judged
                            pops.extend((n, v_) for v_ in astq.reaching_values(callee, c, a0.id))
                        else:
                            pops.append((n, a0))
        # pop(-1) is the deselect-LAST gesture, judged by R-lockstep
        def _is_last(e):
            try:
                return ast.literal_eval(e) == -1
            except Exception:
                return False
        # an index chosen by a conditional expression (`-1 if <last> else <nearest>`): each alternative is judged
        flat = []
        for n, iv in pops:
            todo = [iv]
            while todo:
                x_ = todo.pop()
                if isinstance(x_, ast.IfExp):
                    todo += [x_.body, x_.orelse]
                else:
                    flat.append((n, x_))
        pops = [(n, iv) for n, iv in flat if not _is_last(iv)]
        if not pops:
            removers = [n for n in ast.walk(h.node) if (isinstance(n, ast.Call) and isinstance(n.func, ast.Attribute) and n.func.attr in ("pop", "remove")) or isinstance(n, ast.Delete)]
            # "no pop on the frequency list" is a fact only when every removal in the handler is from a list we can name
            named = all(isinstance(n, ast.Call) and self_attr(astq.expr_at(h, n, n.func.value)) for n in removers)
            run.ob("R-pick", h.qual, "deselect-nearest", False if removers and named else None, "no pop(i) on the frequency list" + ("" if removers and named else " could be identified"),
                   witness="missing", file=f, node=h.node)
            continue
        for pnode, iv in pops:
            inner = iv
            while isinstance(inner, ast.Call) and isinstance(inner.func, ast.Name) and inner.func.id == "int" and len(inner.args) == 1:
                inner = inner.args[0]
            arr = astq.argreduce(prog, h, inner, astq.ARGMIN)
            d = astq.strip_abs(prog, h, arr) if arr is not None else None
            ok = None
            if isinstance(d, ast.BinOp) and isinstance(d.op, ast.Sub):
                right = astq.src(d.right)
                stale = ""
                if "xdata" not in right and self_attr(d.right):
                    # the click position read back from an attribute: it is this click's only if the handler stored it on the way here
                    kind, val = astq.dominating_attr_store(h, pnode, right)
                    if kind == "value":
                        right = astq.src(val)
                    elif kind == "none":
                        stale = f" - `{right}` is not set on the way to this removal: it still holds the position of an earlier pick"
                    else:
                        right = None
                ok = None if right is None else ("self.sel_freq" in astq.src(d.left) and "xdata" in right)
                if stale:
                    run.ob("R-pick", h.qual, "deselect-nearest removes the entry nearest in frequency to the click", False, f"index `{astq.src(iv, 80)}`{stale}", witness=astq.src(iv, 80), file=f, node=pnode)
                    continue
            elif arr is not None or astq.argreduce(prog, h, inner, astq.ARGMAX) is not None:
                ok = False
            run.ob("R-pick", h.qual, "deselect-nearest removes the entry nearest in frequency to the click", ok, f"index `{astq.src(iv, 80)}`", witness=astq.src(iv, 80), file=f, node=pnode)


def click_position(prog, run, ci, f):
    """attributes that hold the position of a click (assigned from event.xdata / event.ydata somewhere in the dialog) are read by a
    handler - directly, or in a helper of the dialog it calls - only after THIS event's position was stored into them on the way"""
    cp = set()
    for m in ci.methods.values():
        for a in ast.walk(m.node):
            if isinstance(a, ast.Assign) and any(isinstance(x, ast.Attribute) and x.attr in ("xdata", "ydata") for x in ast.walk(a.value)):
                for t in a.targets:
                    if self_attr(t):
                        cp.add(t.attr)
    if not cp:
        return
    readers = {}            # method -> click attributes it reads (directly or through helpers on self)
    for nm, m in ci.methods.items():
        readers[nm] = {x.attr for x in ast.walk(m.node) if self_attr(x) and isinstance(x.ctx, ast.Load) and x.attr in cp}
    changed = True
    while changed:
        changed = False
        for nm, m in ci.methods.items():
            for c in ast.walk(m.node):
                if isinstance(c, ast.Call) and self_attr(c.func) and c.func.attr in readers and readers[c.func.attr] - readers[nm]:
                    readers[nm] |= readers[c.func.attr]
                    changed = True
    def reads_of(x):
        """click attributes an expression reads when it is evaluated (directly / through helpers on self)"""
        out = set()
        for y in ast.walk(x):
            if self_attr(y) and isinstance(y.ctx, ast.Load) and y.attr in cp:
                out.add(y.attr)
            elif isinstance(y, ast.Call) and self_attr(y.func) and readers.get(y.func.attr):
                out |= readers[y.func.attr]
        return out

    def deferred_in(m):
        """nodes of m that sit in a lambda / nested function: evaluated when that is called, not where it is written"""
        inner = set()
        for x in ast.walk(m.node):
            if x is not m.node and isinstance(x, (ast.Lambda, ast.FunctionDef)):
                for y in ast.walk(x):
                    if y is not x:
                        inner.add(id(y))
        return inner

    def verdicts(m, attr, called=None, depth=0):
        """[(ok, node, method, kind)] for every read of self.<attr> that executing m leads to; `called` = {parameter: click attributes read
        when that callable parameter is called}"""
        called = dict(called or {})
        out = []
        inner = deferred_in(m)
        local_l = set()
        for x in ast.walk(m.node):
            if isinstance(x, ast.Assign) and len(x.targets) == 1 and isinstance(x.targets[0], ast.Name) and isinstance(x.value, ast.Lambda) \
                    and sum(1 for y in ast.walk(m.node) if isinstance(y, ast.Name) and isinstance(y.ctx, ast.Store) and y.id == x.targets[0].id) == 1:
                local_l.add(id(x.value))
                if attr in reads_of(x.value.body):
                    called[x.targets[0].id] = True
        for x in ast.walk(m.node):
            if id(x) in inner:
                continue
            sub = None
            if self_attr(x) and isinstance(x.ctx, ast.Load) and x.attr == attr:
                pass
            elif isinstance(x, ast.Call) and self_attr(x.func) and x.func.attr in ci.methods:
                callee = ci.methods[x.func.attr]
                # callables handed over: what they read is read where the callee calls them
                cpos = [a.arg for a in callee.node.args.posonlyargs + callee.node.args.args][1:]
                handed = {}
                for k_, a_ in enumerate(x.args):
                    if isinstance(a_, ast.Lambda) and k_ < len(cpos) and attr in reads_of(a_.body):
                        handed[cpos[k_]] = True
                for kw in x.keywords:
                    if kw.arg and isinstance(kw.value, ast.Lambda) and attr in reads_of(kw.value.body):
                        handed[kw.arg] = True
                if attr not in readers.get(x.func.attr, ()) and not handed:
                    continue
                sub = (callee, handed)
            elif isinstance(x, ast.Call) and isinstance(x.func, ast.Name) and called.get(x.func.id):
                pass
            else:
                continue
            kind, val = astq.dominating_attr_store(m, x, "self." + attr)
            if kind == "value" and any(isinstance(y, ast.Attribute) and y.attr in ("xdata", "ydata") for y in ast.walk(val)):
                out.append((True, x, m, kind))
            elif sub is not None and depth < 4:
                inner_v = verdicts(sub[0], attr, sub[1], depth + 1)
                if kind == "maybe":
                    inner_v = [(None if ok_ is False else ok_, n_, m_, k_) for ok_, n_, m_, k_ in inner_v]
                out.extend(inner_v if inner_v else [(None, x, m, "not followed")])
            else:
                out.append((False if kind == "none" else None, x, m, kind))
        # lambdas stored / passed anywhere else are not followed
        for x in ast.walk(m.node):
            if isinstance(x, ast.Lambda) and attr in reads_of(x.body) and id(x) not in local_l:
                par = astq.parent_map(m.node).get(x)
                if not (isinstance(par, (ast.Call, ast.keyword))):
                    out.append((None, x, m, "callable kept for later"))
                elif isinstance(par, ast.Call) and not (self_attr(par.func) and par.func.attr in ci.methods):
                    out.append((None, x, m, "callable handed to a function this rule does not follow"))
        return out
    n = 0
    for hname in ("on_click_SSI", "on_click_FDD"):
        h = ci.methods.get(hname)
        if h is None:
            continue
        for a in sorted(cp):
            for ok, node, m, kind in verdicts(h, a):
                n += 1
                run.ob("R-pick", h.qual, f"self.{a} read here is this click's position", ok,
                       f"`{astq.src(node, 50)}`" + (f" (in {m.node.name})" if m is not h else "") + f" reads self.{a}"
                       + ("" if ok else (": no store of this event's position precedes it on this path - it still holds the position of an earlier click"
                                         if ok is False else f": {kind if kind not in ('maybe',) else 'a store of the position sits in another branch / loop'}")),
                       witness=f"self.{a}:{kind}", file=f, node=node)


def handover(prog, run, ci, f):
    init = ci.methods.get("__init__")
    for mode, partner in MODES.items():
        pf = astq.PrunedFn(init, {"self.plot": mode, "plot": mode})
        res = [n for n in ast.walk(pf.node) if isinstance(n, ast.Assign) and any(self_attr(t, "result") for t in n.targets)]
        if len(res) != 1:
            run.ob("R-handover", init.qual, "result assignment", None, f"{len(res)} assignments of self.result for plot={mode}", file=f, config=f"plot={mode}")
            continue
        v = res[0].value
        if mode == "FDD":
            ok = isinstance(v, ast.Tuple) and len(v.elts) == 2 and self_attr(v.elts[0], MAIN)
        else:
            ok = isinstance(v, ast.Tuple) and len(v.elts) == 2 and self_attr(v.elts[0], MAIN) and self_attr(v.elts[1], partner)
        run.ob("R-handover", init.qual, "result = (frequencies, partner list)", ok, f"`{astq.src(v)}`", witness=astq.src(v), file=f, node=res[0], config=f"plot={mode}")
        # the tuple holds the list OBJECTS of the moment it is made: made before the dialog runs, it follows the selection only as long as
        # every handler changes those lists in place
        order, k_ = {}, 0
        stack = list(reversed(pf.node.body))
        while stack:
            st = stack.pop()
            order[id(st)] = k_
            k_ += 1
            for fld in ("finalbody", "orelse", "body"):
                stack.extend(reversed(getattr(st, fld, None) or []))
            for h_ in getattr(st, "handlers", None) or []:
                stack.extend(reversed(h_.body))
        loops = [st for st in ast.walk(pf.node) if isinstance(st, ast.stmt) and not isinstance(st, (ast.FunctionDef, ast.If, ast.For, ast.While, ast.Try, ast.With))
                 and any(isinstance(c_, ast.Call) and isinstance(c_.func, ast.Attribute) and c_.func.attr in ("mainloop", "exec", "exec_", "show", "wait_window") for c_ in ast.walk(st))]
        held = [e_.attr for e_ in (v.elts if isinstance(v, ast.Tuple) else []) if self_attr(e_)]
        early = [l_ for l_ in loops if order.get(id(l_), -1) > order.get(id(res[0]), 10 ** 9)]
        if held and loops:
            rebinders = []
            for mm in ci.methods.values():
                if mm.node.name == "__init__":
                    continue
                for st in ast.walk(mm.node):
                    if isinstance(st, (ast.Assign, ast.AugAssign, ast.AnnAssign)):
                        tg = st.targets if isinstance(st, ast.Assign) else [st.target]
                        for t_ in tg:
                            for e_ in (t_.elts if isinstance(t_, (ast.Tuple, ast.List)) else [t_]):
                                if self_attr(e_) and e_.attr in held and not isinstance(st, ast.AugAssign):
                                    rebinders.append((mm, st, e_.attr))
            if early and rebinders:
                mm, st, a_ = rebinders[0]
                run.ob("R-handover", init.qual, "result follows the selection until the dialog closes", False,
                       f"`{astq.src(res[0], 60)}` is executed before the dialog runs (`{astq.src(early[0], 40)}`), so it holds the list objects of that moment; "
                       f"{mm.qual.split('.')[-1]} later replaces self.{a_} by a new list (`{astq.src(st, 60)}`), which the tuple does not see",
                       witness=f"rebinding of self.{a_} in {mm.qual.split('.')[-1]}", file=f, node=st, config=f"plot={mode}")
            else:
                run.ob("R-handover", init.qual, "result follows the selection until the dialog closes", True,
                       "the tuple is made after the dialog closed" if not early else "made before the dialog runs; no handler replaces the lists it holds (in-place updates only)",
                       file=f, node=res[0], config=f"plot={mode}")


SF = "support.sel_from_plot"
MUTANTS = [
    ("C16-m01 sort permutes the frequencies only", SF, "SelFromPlot.sort_selected_poles", "self.pole_ind = [self.pole_ind[i] for i in sorted_indices]", "pass"),
    ("C16-m02 list minus float", SF, "SelFromPlot.on_click_SSI", "np.asarray(self.sel_freq) - event.xdata", "self.sel_freq - event.xdata"),
    ("C16-m03 deselect-one pops the frequency only", SF, "SelFromPlot.on_click_SSI", "self.pole_ind.pop()", "pass"),
    ("C16-m04 deselect-nearest pops different entries", SF, "SelFromPlot.on_click_SSI", "self.pole_ind.pop(i)", "self.pole_ind.pop()"),
    ("C16-m05 order from x instead of y", SF, "SelFromPlot.get_closest_pole", "np.arange(Fn_poles.shape[1]) - self.y_data_pole", "np.arange(Fn_poles.shape[1]) - self.x_data_pole"),
    ("C16-m06 frequency from the neighbouring order", SF, "SelFromPlot.get_closest_pole", "self.sel_freq.append(Fn_poles[sel, y_ind])", "self.sel_freq.append(Fn_poles[sel, y_ind - 1])"),
    ("C16-m07 nearest pole ignores NaN handling", SF, "SelFromPlot.get_closest_pole", "np.nanargmin(np.abs(x - self.x_data_pole))", "np.argmin(np.abs(x - self.x_data_pole))"),
    ("C16-m08 result hands over line indices as orders", SF, "SelFromPlot.__init__", "self.result = (self.sel_freq, self.pole_ind)", "self.result = (self.pole_ind, self.sel_freq)"),
    ("C16-m09 FDD sort forgets the line indices", SF, "SelFromPlot.sort_selected_poles", "self.freq_ind = [self.freq_ind[i] for i in sorted_indices]", "pass"),
    ("C16-m10 partner permuted with a different index", SF, "SelFromPlot.sort_selected_poles", "self.pole_ind = [self.pole_ind[i] for i in sorted_indices]", "self.pole_ind = [self.pole_ind[i] for i in np.argsort(self.pole_ind)]"),
    ("C16-m11 deselect-nearest by order distance", SF, "SelFromPlot.on_click_SSI", "np.abs(np.asarray(self.sel_freq) - event.xdata)", "np.abs(np.asarray(self.pole_ind) - event.ydata)"),
    ("C16-m12 pick appends the order twice", SF, "SelFromPlot.get_closest_pole", "self.pole_ind.append(y_ind)", "self.pole_ind.append(y_ind)\nself.pole_ind.append(y_ind)"),
]
REWRITES = [
    ("rename:C16-r01", SF, "SelFromPlot.sort_selected_poles", "sorted_indices", "perm"),
    ("C16-r02 array conversion via np.array", SF, "SelFromPlot.on_click_FDD", "np.asarray(self.sel_freq) - event.xdata", "np.array(self.sel_freq) - event.xdata"),
    ("C16-r03 comprehension for both lists", SF, "SelFromPlot.sort_selected_poles", "self.sel_freq = list(np.array(self.sel_freq)[sorted_indices])", "self.sel_freq = [self.sel_freq[i] for i in sorted_indices]"),
    ("rename:C16-r04", SF, "SelFromPlot.get_closest_pole", "y_ind", "order_index"),
]
