"""C15 - runs are gated, deterministic, isolated, persistent; PoSER validates inputs.

Decided (structural): R-gate - run_by_name calls _pre_run() before run() before _set_result(); _pre_run raises ValueError when fs/data or
the run parameters are missing; every mpe / mpe_from_plot override checks for a prior run (explicitly or through a super() chain that
reaches the base-class check) BEFORE its first store into run_params / result.  R-shared-data - no function reachable from the
run/mpe implementations has an in-place effect on a value that may alias the bound data or one of its parameters.  R-determinism - none
of them reads an RNG, the clock or the environment.  R-result-fresh - run() returns a newly constructed result object; result, run
parameters and data are only ever assigned on the instance.  R-poser - every raise of the PoSER validation is ValueError, the count
guard rejects 0 and 1 setups, each yielded setup passed the run/mode check, the generator is exhausted inside __init__.  R-pickle - no
instance attribute of a setup / algorithm object is assigned a generator, lambda, file or GUI object.
Not decided: equality of results across orders/repetitions as values; pickle equality.
"""
import ast
import re

from .. import astq
from ..program import rel, FuncInfo, ClassInfo, Ext, AnalysisError

ALGO_MODS = ("pyoma2.algorithms.ssi", "pyoma2.algorithms.fdd", "pyoma2.algorithms.plscf")
BASEALG = "algorithms.base.BaseAlgorithm"


def algo_classes(prog):
    base = prog.cls(BASEALG)
    return [c for c in prog.subclasses(base) if c is not base]


def _is_result_test(t):
    """`not self.result` / `self.result is None` / `not self.result or ...`"""
    s = astq.src(t, 200)
    return "self.result" in s


STORE_PREFIX = ("self.run_params.", "self.result.")


def _stores(stmt):
    for n in ast.walk(stmt):
        tg = n.targets if isinstance(n, ast.Assign) else ([n.target] if isinstance(n, (ast.AugAssign, ast.AnnAssign)) else [])
        for t in tg:
            if isinstance(t, ast.Attribute) and astq.src(t).startswith(STORE_PREFIX):
                return True
    return False


def gate_status(prog, fi, seen=None):
    """With `self.result` seeded as None (no run happened): 'gated' if every path raises before the first store into
    run_params / result (directly, or inside the same-named base method / a private helper called first), 'store-first' if a store
    is reached before any raise, 'ungated' if the method can complete without raising."""
    seen = seen or set()
    if fi.qual in seen:
        return "ungated"
    seen = seen | {fi.qual}
    stmts = astq.prune(fi.node.body, {"self.result": None})
    for i, s in enumerate(stmts):
        if isinstance(s, ast.Expr) and isinstance(s.value, ast.Constant):
            continue
        out = astq._outcomes([s])
        if "fall" not in out and all(o.startswith("raise:") for o in out):
            return "gated"
        if _stores(s):
            return "store-first"
        # a call of the base implementation / a private helper that is itself gated
        for c in [n for n in ast.walk(s) if isinstance(n, ast.Call)]:
            r = prog.resolve_call(fi, c)
            if isinstance(r, FuncInfo) and (r.node.name == fi.node.name or r.node.name.startswith("_")) and r.cls is not None:
                st = gate_status(prog, r, seen)
                if st == "gated":
                    return "gated"
                if st == "store-first":
                    return "store-first"
    return "ungated"


def check(prog, run):
    run.rule("R-kept", "an algorithm / setup method that keeps a computed value on the instance hands it out again only while the bound data and the parameters it was "
             "computed from are the same (part of the validity test, or discarded by every method that replaces them)", 0)
    from ..effects import memo_rule
    memo_rule(prog.raw, run, "R-kept", ["pyoma2.algorithms", "pyoma2.setup"], "a run gives the result of the data / parameters of an earlier run")
    run.rule("R-one-object", "no in-place operation on a local array that is also known by another local name used afterwards, in any function reachable from run / mpe", 0)
    from ..effects import alias_inplace_rule
    raw_ = prog.raw
    alias_inplace_rule(raw_, run, "R-one-object", [q_ for q_ in reachable_set(raw_) if q_ in raw_.functions])
    run.rule("R-gate", "run_by_name: _pre_run() < run() < _set_result(); _pre_run raises on missing fs/data/run_params; every mpe/mpe_from_plot override is gated before its first store", 12)
    run.rule("R-shared-data", "no in-place effect on values that may alias the bound data or a parameter, in every function reachable from run/mpe", 30)
    run.rule("R-params-intact", "no in-place effect (pop/update/clear/append/item store/del) on a container that is, or is reached through a shallow copy of, the instance's run / mpe parameters, in every function reachable from run/mpe - a second run sees the same parameters", 25)
    run.rule("R-determinism", "no RNG / clock / environment read in those functions", 30)
    run.rule("R-result-fresh", "run() returns a newly constructed result; result/run_params/data/fs are assigned on the instance only", 8)
    run.rule("R-poser", "PoSER validation: only ValueError, count guard <= 1, yield after the run/mode check, generator exhausted in __init__", 5)
    run.rule("R-pickle", "no generator / lambda / file / GUI object stored on a setup or algorithm instance", 10)
    gate(prog, run)
    reach = reachable_set(prog)
    shared_data(prog, run, reach)
    params_intact(prog, run, reach)
    from ..effects import shared_state_rule
    run.rule("R-no-shared-state", "no function reachable from run / mpe changes a module-level or class-level container in place (tables of defaults, registries): "
             "such a change survives the call and makes the next run - of this or of any other algorithm - depend on it", 30)
    shared_state_rule(prog, run, "R-no-shared-state", reach, "a run is no longer independent of the runs before it")
    determinism(prog, run, reach)
    result_fresh(prog, run)
    poser(prog, run)
    pickle_rule(prog, run)
    run.extra["reachable_functions"] = len(reach)


# ----------------------------------------------------------------------------- R-gate
def gate(prog, run):
    bs = prog.cls("setup.base.BaseSetup")
    rb = bs.methods.get("run_by_name")
    if rb is None:
        raise AnalysisError("anchor lost: BaseSetup.run_by_name")
    f = rel(prog.mods[rb.mod].path)
    order = []
    for i, s in enumerate(rb.node.body):
        for n in ast.walk(s):
            if isinstance(n, ast.Call) and isinstance(n.func, ast.Attribute) and n.func.attr in ("_pre_run", "run", "_set_result"):
                order.append((i, n.func.attr, n))
    names = [x[1] for x in order]
    ok = names == ["_pre_run", "run", "_set_result"] and order[0][0] < order[1][0] < order[2][0]
    if not ok and "run" not in names:
        ok = None          # the run() call itself is not in this function: structure not recognised
    run.ob("R-gate", rb.qual, "_pre_run() < run() < _set_result()", ok, f"call order {names}", witness=str(names), file=f, node=rb.node)
    if ok:
        # the three calls address the same algorithm object, and the stored result is what run() returned
        recv = [astq.dump(astq.expr_at(rb, x[2], x[2].func.value)) for x in order]
        run.ob("R-gate", rb.qual, "the three calls address the same algorithm", len(set(recv)) == 1, f"receivers `{[astq.src(x[2].func.value, 30) for x in order]}`",
               witness=str(len(set(recv))), file=f, node=rb.node)
        setcall = order[2][2]
        a = setcall.args[0] if setcall.args else astq.kwarg(setcall, "result")
        x = astq.expr_at(rb, setcall, a) if a is not None else None
        ok2 = None
        if x is not None:
            ok2 = isinstance(x, ast.Call) and isinstance(x.func, ast.Attribute) and x.func.attr == "run"
            if not ok2 and not isinstance(x, (ast.Call, ast.Name, ast.Constant, ast.Attribute)):
                ok2 = None
        run.ob("R-gate", rb.qual, "_set_result stores what run() returned", ok2, f"`{astq.src(x, 50) if x is not None else None}`", witness=astq.src(x, 50) if x is not None else "none", file=f, node=setcall)
    base = prog.cls(BASEALG)
    pr = base.methods.get("_pre_run")
    if pr is None:
        raise AnalysisError("anchor lost: BaseAlgorithm._pre_run")
    fp = rel(prog.mods[pr.mod].path)
    excs = set()
    for what in ("self.fs", "self.data", "self.run_params"):
        out = astq.outcomes(pr.node.body, {what: None})
        okw = all(o.startswith("raise:") for o in out)
        excs |= {o.split(":", 1)[1] for o in out if o.startswith("raise:")}
        run.ob("R-gate", pr.qual, f"raises when {what} is missing", okw, f"outcomes with {what} = None: {sorted(out)}", witness=str(sorted(out)), file=fp, node=pr.node)
    allr = {astq._exc_name(n) for n in ast.walk(pr.node) if isinstance(n, ast.Raise)}
    okv = bool(allr) and allr == {"ValueError"}
    run.ob("R-gate", pr.qual, "raises ValueError", okv, f"exceptions {sorted(allr)}", witness=str(sorted(allr)), file=fp, node=pr.node)
    # mpe / mpe_from_plot overrides
    for ci in algo_classes(prog):
        for name in ("mpe", "mpe_from_plot"):
            m = ci.methods.get(name)
            if m is None:
                continue
            fm = rel(prog.mods[m.mod].path)
            st = gate_status(prog, m)
            ok = st == "gated"
            why = "every path raises before the first store when no run has happened" if ok else (
                "no check for a prior run: run parameters are overwritten, then AttributeError on result=None" if st == "ungated"
                else "the first store into run_params/result precedes the check")
            run.ob("R-gate", m.qual, "prior-run check precedes the first store", ok, why, witness="ungated" if st == "ungated" else "late gate", file=fm, node=m.node)


# ----------------------------------------------------------------------------- reachability
def reachable_set(prog):
    roots = []
    for ci in algo_classes(prog):
        for name in ("run", "mpe", "_pre_run", "_set_result", "_set_data"):
            m = prog.find_method(ci, name)
            if m is not None:
                roots.append(m.qual)
    bs = prog.cls("setup.base.BaseSetup")
    for name in ("run_by_name", "run_all", "mpe", "add_algorithms"):
        if name in bs.methods:
            roots.append(bs.methods[name].qual)
    reach = prog.reachable(roots)
    return sorted(q for q in reach if not q.startswith("pyoma2.functions.plot") and ".setter" not in q)


from .C14 import VIEW_ATTRS, VIEW_CALLS, VIEW_FUNCS, INPLACE_METHODS, INPLACE_FUNCS  # noqa: E402

LIST_ONLY = {"append", "remove", "extend", "insert", "pop", "clear", "reverse", "update"}


_RET_ALIAS = {}


def returns_alias_of(prog, fi, depth=2):
    """names of the parameters of fi that (a view of) the returned value may be: `return values` on one path of a helper that otherwise
    returns a new array makes every in-place effect on its result an effect on the caller's argument"""
    key = (id(prog), id(fi.node))
    if key in _RET_ALIAS:
        return _RET_ALIAS[key]
    _RET_ALIAS[key] = set()             # (recursion guard)
    pos, kwo, va, kwa = astq.params_of(fi.node)
    out = set()
    for p_ in set(pos + kwo) - {"self", "cls"}:
        eff_, al = alias_effects(prog, fi, seeds={p_}, depth=depth - 1)
        chk = al["__is_alias__"]
        for r in ast.walk(fi.node):
            if isinstance(r, ast.Return) and r.value is not None:
                vals = r.value.elts if isinstance(r.value, ast.Tuple) else [r.value]
                if any(chk(v) for v in vals):
                    out.add(p_)
    _RET_ALIAS[key] = out
    return out


def alias_effects(prog, fi, seeds=None, depth=2):
    """[(node, description)] of in-place effects on values that may alias a parameter or self.data"""
    pos, kwo, va, kwa = astq.params_of(fi.node)
    params = set(pos + kwo) - {"self", "cls"}
    alias = set(params) if seeds is None else set(seeds)

    def is_alias(e):
        if isinstance(e, ast.Name):
            return e.id in alias
        if isinstance(e, ast.Attribute):
            if isinstance(e.value, ast.Name) and e.value.id == "self":
                return e.attr in ("data",)
            return e.attr in VIEW_ATTRS and is_alias(e.value)
        if isinstance(e, ast.Subscript):
            el = astq.index_elts(e)
            basic = all(isinstance(i, (ast.Slice, ast.Constant, ast.Name)) or (isinstance(i, ast.UnaryOp)) for i in el)
            return basic and is_alias(e.value)
        if isinstance(e, ast.Call):
            nm = astq.callee_name(prog, fi, e)
            if nm in VIEW_FUNCS and e.args:
                return is_alias(e.args[0])
            if isinstance(e.func, ast.Attribute) and e.func.attr in VIEW_CALLS:
                return is_alias(e.func.value)
            if depth > 0:
                # a helper of the package that hands back (a view of) one of its arguments on some path
                try:
                    r_ = prog.resolve_call(fi, e)
                except Exception:
                    r_ = None
                if isinstance(r_, FuncInfo) and r_.node is not fi.node:
                    ra = returns_alias_of(prog, r_, depth)
                    if ra:
                        m_, _errs = astq.bind_args(r_.node, e, bound=isinstance(e.func, ast.Attribute) and r_.cls is not None and not getattr(r_, "is_static", False))
                        return any(isinstance(m_.get(p_), ast.AST) and is_alias(m_[p_]) for p_ in ra)
        if isinstance(e, ast.IfExp):
            return is_alias(e.body) or is_alias(e.orelse)
        return False
    # flow-insensitive closure, but a name that is ALSO rebound to a fresh value is still kept (may-alias)
    changed = True
    while changed:
        changed = False
        for n in ast.walk(fi.node):
            if isinstance(n, ast.Assign) and len(n.targets) == 1:
                t = n.targets[0]
                if isinstance(t, ast.Name) and t.id not in alias and is_alias(n.value):
                    alias.add(t.id)
                    changed = True
            if isinstance(n, ast.For) and isinstance(n.target, ast.Name) and n.target.id not in alias and is_alias(n.iter):
                alias.add(n.target.id)
                changed = True
    # a parameter that is unconditionally rebound to a fresh value before any store is not an alias at that store: handled by
    # checking, for stores through a name, that no fresh rebinding of the name precedes it in the same block
    out = []
    fresh_before = {}
    for s, path in astq.walk_stmts(fi.node.body):
        pass

    def rebound_fresh_before(name, node):
        """is `name` assigned a non-alias (fresh) value by a statement that precedes `node` in the same block or in an enclosing
        block (i.e. on every path that reaches node)?"""
        def search(body):
            for i, s in enumerate(body):
                if any(x is node for x in ast.walk(s)):
                    for prev in body[:i]:
                        if isinstance(prev, ast.Assign) and any(isinstance(t, ast.Name) and t.id == name for t in prev.targets) and not is_alias(prev.value):
                            return True
                    for field in ("body", "orelse", "finalbody"):
                        sub = getattr(s, field, None)
                        if isinstance(sub, list) and sub and isinstance(sub[0], ast.stmt) and any(x is node for y in sub for x in ast.walk(y)):
                            return search(sub)
                    if isinstance(s, ast.Try):
                        for h in s.handlers:
                            if any(x is node for y in h.body for x in ast.walk(y)):
                                return search(h.body)
                    return False
            return False
        return search(fi.node.body)
    pm = astq.parent_map(fi.node)

    def guarded_fresh(name, node):
        """`name = FRESH if flag else ALIAS` (its only binding) and the effect sits under `if flag:` - on that path the value is the fresh one"""
        binds = [a for a in ast.walk(fi.node) if isinstance(a, ast.Assign) and any(isinstance(t_, ast.Name) and t_.id == name for t_ in a.targets)]
        if len(binds) != 1 or not isinstance(binds[0].value, ast.IfExp) or name in params:
            return False
        ife = binds[0].value
        a_body, a_else = is_alias(ife.body), is_alias(ife.orelse)
        if a_body == a_else:
            return False
        test = ife.test
        neg = False
        if isinstance(test, ast.UnaryOp) and isinstance(test.op, ast.Not):
            test, neg = test.operand, True
        if not isinstance(test, ast.Name):
            return False
        flag = test.id
        if sum(1 for x in ast.walk(fi.node) if isinstance(x, ast.Name) and x.id == flag and isinstance(x.ctx, ast.Store)) != 1:
            return False
        fresh_when = (not a_body) != neg          # value of the flag under which the fresh operand is chosen
        cur = node
        while cur in pm:
            par = pm[cur]
            if isinstance(par, ast.If):
                t2, neg2 = par.test, False
                if isinstance(t2, ast.UnaryOp) and isinstance(t2.op, ast.Not):
                    t2, neg2 = t2.operand, True
                if isinstance(t2, ast.Name) and t2.id == flag:
                    in_body = any(x is cur for x in par.body)
                    holds = in_body != neg2       # value of the flag on this path
                    if holds == fresh_when:
                        return True
            cur = par
        return False
    for n in ast.walk(fi.node):
        if isinstance(n, ast.Assign):
            for t in n.targets:
                if isinstance(t, ast.Subscript) and is_alias(t.value):
                    root = t.value
                    while isinstance(root, (ast.Subscript, ast.Attribute)):
                        root = root.value
                    if isinstance(root, ast.Name) and (rebound_fresh_before(root.id, n) or guarded_fresh(root.id, n)):
                        continue
                    out.append((n, f"store into `{astq.src(t, 40)}` (may alias a parameter / the bound data)"))
        elif isinstance(n, ast.AugAssign):
            t = n.target
            root = t
            while isinstance(root, (ast.Subscript, ast.Attribute)):
                root = root.value
            if ((isinstance(t, ast.Subscript) and is_alias(t.value)) or (isinstance(t, ast.Name) and t.id in alias) or (isinstance(t, ast.Attribute) and is_alias(t))):
                if isinstance(root, ast.Name) and rebound_fresh_before(root.id, n):
                    continue
                out.append((n, f"augmented assignment `{astq.src(n, 40)}` on a value that may alias a parameter / the bound data"))
        elif isinstance(n, ast.Call):
            nm = astq.callee_name(prog, fi, n)
            if isinstance(n.func, ast.Attribute) and n.func.attr in (INPLACE_METHODS - LIST_ONLY) and is_alias(n.func.value):
                out.append((n, f"in-place method `{astq.src(n, 40)}`"))
            if nm in INPLACE_FUNCS and n.args and is_alias(n.args[0]):
                out.append((n, f"in-place call `{astq.src(n, 40)}`"))
            for k in n.keywords:
                if k.arg == "out" and is_alias(k.value):
                    out.append((n, f"`out=` writes into `{astq.src(k.value)}`"))
                if k.arg in ("overwrite_data", "overwrite_x", "overwrite_a", "overwrite_b") and isinstance(k.value, ast.Constant) and k.value.value is True:
                    out.append((n, f"`{k.arg}=True` lets the library overwrite its input"))
                if k.arg == "copy" and isinstance(k.value, ast.Constant) and k.value.value is False and nm in ("numpy.nan_to_num",) and n.args and is_alias(n.args[0]):
                    out.append((n, f"`{astq.src(n, 50)}` replaces the values in place (copy=False) in an array that may alias a parameter / the bound data"))
    if seeds is not None:
        return out, {"__is_alias__": is_alias, "names": alias}
    return out, alias


def _effect_root(n):
    """the local name an in-place effect goes through"""
    t = None
    if isinstance(n, ast.Assign):
        t = next((x for x in n.targets if isinstance(x, ast.Subscript)), None)
    elif isinstance(n, ast.AugAssign):
        t = n.target
    elif isinstance(n, ast.Call):
        if isinstance(n.func, ast.Attribute) and n.func.attr in INPLACE_METHODS:
            t = n.func.value
        elif n.args:
            t = n.args[0]
        for k in n.keywords:
            if k.arg == "out":
                t = k.value
    while isinstance(t, (ast.Subscript, ast.Attribute)) and not (isinstance(t, ast.Attribute) and isinstance(t.value, ast.Name) and t.value.id == "self"):
        t = t.value
    return t


def _origins(prog, fi, expr):
    """what the value of `expr` in fi may share storage with: parameter names of fi and/or 'self.data' (empty set: a fresh value)"""
    pos, kwo, va, kwa = astq.params_of(fi.node)
    params = set(pos + kwo) - {"self", "cls"}
    if va:
        params.add(va.arg)
    org = {p_: {p_} for p_ in params}

    def of(e):
        if isinstance(e, ast.Name):
            return set(org.get(e.id, ()))
        if isinstance(e, ast.Attribute):
            if isinstance(e.value, ast.Name) and e.value.id == "self":
                return {"self.data"} if e.attr == "data" else set()
            return of(e.value) if e.attr in VIEW_ATTRS else set()
        if isinstance(e, ast.Subscript):
            # an element of a tuple / list of arrays, or a basic slice of an array
            return of(e.value)
        if isinstance(e, ast.Starred):
            return of(e.value)
        if isinstance(e, (ast.Tuple, ast.List)):
            r = set()
            for x in e.elts:
                r |= of(x)
            return r
        if isinstance(e, ast.Call):
            nm = astq.callee_name(prog, fi, e)
            if nm in VIEW_FUNCS and e.args:
                return of(e.args[0])
            if isinstance(e.func, ast.Attribute) and e.func.attr in VIEW_CALLS:
                return of(e.func.value)
            return set()
        if isinstance(e, ast.IfExp):
            return of(e.body) | of(e.orelse)
        return set()
    changed = True
    while changed:
        changed = False
        for n in ast.walk(fi.node):
            pairs = []
            if isinstance(n, ast.Assign) and len(n.targets) == 1:
                t = n.targets[0]
                if isinstance(t, ast.Name):
                    pairs.append((t.id, of(n.value)))
                elif isinstance(t, (ast.Tuple, ast.List)):
                    o_ = of(n.value)
                    if isinstance(n.value, (ast.Tuple, ast.List)) and len(n.value.elts) == len(t.elts):
                        for tt, vv in zip(t.elts, n.value.elts):
                            if isinstance(tt, ast.Name):
                                pairs.append((tt.id, of(vv)))
                    else:
                        for tt in t.elts:
                            tt = tt.value if isinstance(tt, ast.Starred) else tt
                            if isinstance(tt, ast.Name):
                                pairs.append((tt.id, o_))
            elif isinstance(n, ast.For) and isinstance(n.target, ast.Name):
                pairs.append((n.target.id, of(n.iter)))
            for nm_, o_ in pairs:
                if o_ - org.get(nm_, set()):
                    org[nm_] = org.get(nm_, set()) | o_
                    changed = True
    return of(expr)


def _callers(prog, fi):
    out = []
    for g in prog.functions.values():
        if g.node is fi.node:
            continue
        for c, r in prog.calls_in(g):
            if isinstance(r, FuncInfo) and r.node is fi.node:
                out.append((g, c))
    return out


def _shared_at_callers(prog, fi, origins, depth=3, seen=()):
    """does a value with these origins (parameters of fi / self.data) share storage with the bound data or with something handed in from
    outside the package?  True: yes (violation), False: every caller hands in a fresh value, None: not decided"""
    if "self.data" in origins:
        return True, f"aliases `self.data` in {fi.node.name}"
    params = [o for o in origins]
    if not params:
        return False, "fresh value"
    if depth == 0 or fi.qual in seen:
        return None, "call chain too long"
    callers = _callers(prog, fi)
    if not callers:
        return True, f"`{params[0]}` is handed in from outside the package (no caller inside it)"
    und = None
    for g, c in callers:
        m_, errs = astq.bind_args(fi.node, c, bound=isinstance(c.func, ast.Attribute) and fi.cls is not None and not getattr(fi, "is_static", False))
        for p_ in params:
            a_ = m_.get(p_)
            if a_ is None:
                # *args / **kwargs plumbing: every positional argument may end up in the parameter
                cand = [x for x in c.args] + [k.value for k in c.keywords]
            elif isinstance(a_, ast.AST):
                cand = [a_]
            else:
                continue
            for e_ in cand:
                og = _origins(prog, g, e_)
                st, why = _shared_at_callers(prog, g, og, depth - 1, seen + (fi.qual,))
                if st is True:
                    return True, f"{g.node.name} passes `{astq.src(e_, 30)}`: {why}"
                if st is None:
                    und = why
    return (None, und) if und else (False, "every caller passes a value it has just computed")


def shared_data(prog, run, reach):
    for q in reach:
        fi = prog.functions[q]
        f = rel(prog.mods[fi.mod].path)
        eff, alias = alias_effects(prog, fi)
        bad = 0
        for n, why in eff:
            # an in-place effect inside a helper is harmless when every caller inside the package hands it a value it has just computed
            root = _effect_root(n)
            st, detail = True, ""
            if root is not None and fi.node.name.startswith("_") and not fi.node.name.startswith("__"):
                st, detail = _shared_at_callers(prog, fi, _origins(prog, fi, root))
            if st is False:
                continue
            bad += 1
            run.ob("R-shared-data", fi.qual, "no in-place effect on shared data", False if st else None, why + (f" - {detail}" if detail and st is not True else ""), witness=why[:80], file=f, node=n)
        if not bad:
            run.ob("R-shared-data", fi.qual, "no in-place effect on shared data", True, f"{len(alias)} may-alias names checked", file=f, node=fi.node)


# ----------------------------------------------------------------------------- R-params-intact
from ..effects import container_effects, origins as _params_origins, shared_at_callers as _params_shared_at_callers  # noqa: E402


def params_intact(prog, run, reach):
    n_eff = 0
    for q in reach:
        fi = prog.functions[q]
        f = rel(prog.mods[fi.mod].path)
        bad = 0
        effs = container_effects(fi)
        for n, cont, why in effs:
            og = _params_origins(prog, fi, cont)
            if not og:
                continue
            n_eff += 1
            st, detail = _params_shared_at_callers(prog, fi, og)
            if st is False:
                continue
            bad += 1
            run.ob("R-params-intact", fi.qual, "parameters are not changed in place", False if st else None,
                   f"{why} changes a container that {detail} - the next run / a run after mpe sees different parameters", witness=why[:80], file=f, node=n)
        if not bad:
            run.ob("R-params-intact", fi.qual, "parameters are not changed in place", True, f"{len(effs)} container effects, none on the parameters", file=f, node=fi.node)
    run.extra["param_container_effects_examined"] = n_eff


NONDET = ("numpy.random", "random.", "time.", "datetime.", "os.environ", "os.getenv", "uuid.", "secrets.", "numpy.random.", "scipy.stats")


def determinism(prog, run, reach):
    for q in reach:
        fi = prog.functions[q]
        f = rel(prog.mods[fi.mod].path)
        bad = []
        for n in ast.walk(fi.node):
            if isinstance(n, (ast.Attribute, ast.Name)):
                r = prog.resolve_expr(fi.mod, n) if not (isinstance(n, ast.Name) and prog._is_local(fi, n.id)) else None
                if isinstance(r, Ext) and (r.name.startswith(NONDET) or r.name in ("random", "time", "os.environ")):
                    bad.append((n, r.name))
        if bad:
            for n, nm in bad[:3]:
                run.ob("R-determinism", fi.qual, "no nondeterministic source", False, f"reads `{nm}`", witness=nm, file=f, node=n)
        else:
            run.ob("R-determinism", fi.qual, "no nondeterministic source", True, "no RNG/clock/environment access", file=f, node=fi.node)


# ----------------------------------------------------------------------------- R-result-fresh
def _held_elsewhere(prog, fi, at, v, depth=2):
    """True when the object `v` stands for is also kept in (or taken from) a container / attribute of the instance: stored by
    `self.X[k] = obj` / `self.X = obj` or read by `self.X.get(k)` / `self.X[k]`, here or in the helper that returns it"""
    def on_self(e):
        while isinstance(e, (ast.Attribute, ast.Subscript)):
            e = e.value
        return isinstance(e, ast.Name) and e.id == "self"

    def scan(f_, names):
        names = set(names)
        grown = True
        while grown:                # names the object goes by: `a = b` makes b another name of what a holds
            grown = False
            for n in ast.walk(f_.node):
                if isinstance(n, ast.Assign) and isinstance(n.value, ast.Name) and n.value.id not in names and any(isinstance(t, ast.Name) and t.id in names for t in n.targets):
                    names.add(n.value.id)
                    grown = True
        for n in ast.walk(f_.node):
            if isinstance(n, ast.Assign):
                if isinstance(n.value, ast.Name) and n.value.id in names and any(isinstance(t, (ast.Subscript, ast.Attribute)) and on_self(t) for t in n.targets):
                    return True
                if any(isinstance(t, ast.Name) and t.id in names for t in n.targets):
                    for c in ast.walk(n.value):
                        if isinstance(c, ast.Call) and isinstance(c.func, ast.Attribute) and c.func.attr in ("get", "pop", "setdefault") and on_self(c.func.value):
                            return True
                        if isinstance(c, ast.Subscript) and on_self(c.value) and not (isinstance(c.value, ast.Attribute) and c.value.attr in ("data", "shape")):
                            return True
        return False
    if isinstance(v, ast.Name):
        if scan(fi, {v.id}):
            return True
        v = astq.expr_at(fi, at, v)
    if isinstance(v, ast.Call) and depth > 0:
        try:
            res = prog.resolve_call(fi, v)
        except Exception:
            res = None
        if isinstance(res, FuncInfo) and res.node is not getattr(fi, "node", None):
            for r in ast.walk(res.node):
                if isinstance(r, ast.Return) and r.value is not None:
                    if isinstance(r.value, ast.Name) and scan(res, {r.value.id}):
                        return True
                    if _held_elsewhere(prog, res, r, r.value, depth - 1):
                        return True
            return False
    return False


def _fresh(prog, fi, at, v, depth=3):
    """True: the value is an object constructed on this path (its result class, directly or inside a helper whose every return is
    fresh); False: an existing object (attribute of self, parameter, None); None: not recognised"""
    if v is None or (isinstance(v, ast.Constant) and v.value is None):
        return False
    x = astq.expr_at(fi, at, v) if isinstance(v, ast.Name) else v
    if isinstance(x, ast.Call):
        if isinstance(x.func, ast.Attribute) and x.func.attr == "ResultCls":
            return True
        if isinstance(x.func, ast.Attribute) and x.func.attr == "model_validate" and x.args:
            # pydantic does not re-validate instances: Model.model_validate(obj) IS obj when obj already is an instance of Model (for
            # another class a new object is built from its attributes).  The result is new only if obj is: an object that also lives in
            # a container / attribute of the instance (a cache entry) is handed out itself
            inner = _fresh(prog, fi, at, x.args[0], depth)
            if inner is False:
                return False
            held = _held_elsewhere(prog, fi, at, x.args[0])
            if held:
                return False
            return None if inner is None or held is None else True
        try:
            res = prog.resolve_call(fi, x)
        except Exception:
            res = None
        if isinstance(res, ClassInfo):
            return True
        if isinstance(res, FuncInfo) and depth > 0 and res.node is not getattr(fi, "node", None):
            rets = [n for n in ast.walk(res.node) if isinstance(n, ast.Return)]
            if not rets:
                return False
            vals = [_fresh(prog, res, r, r.value, depth - 1) for r in rets]
            return False if any(x_ is False for x_ in vals) else (True if all(x_ is True for x_ in vals) else None)
        return None
    if isinstance(x, ast.Attribute):
        base = x
        while isinstance(base, ast.Attribute):
            base = base.value
        if isinstance(base, ast.Name) and base.id == "self":
            return False        # an object that already lives on the instance (e.g. the result of the previous run)
        return None
    if isinstance(x, ast.Name):
        pos, kwo, _, _ = astq.params_of(fi.node)
        return False if x.id in pos + kwo else None
    return None


def result_fresh(prog, run):
    for ci in algo_classes(prog):
        m = ci.methods.get("run")
        if m is None:
            continue
        f = rel(prog.mods[m.mod].path)
        rets = [n for n in ast.walk(m.node) if isinstance(n, ast.Return)]
        ok = True if rets else False
        why = []
        for r in rets:
            good = _fresh(prog, m, r, r.value)
            if good is not True:
                ok = False if (good is False or ok is False) else None
                why.append(astq.src(r.value, 50) if r.value is not None else "None")
        run.ob("R-result-fresh", m.qual, "returns a newly constructed result object", ok, "constructs its result class" if ok else f"returns {why}" + (
                   " - model_validate(obj) hands back obj itself when it already is an instance of the class, and obj also lives in a container of the instance (a cache entry): "
                   "the stored result and that entry are one object" if ok is False and any("model_validate" in w_ for w_ in why) else ""), witness=";".join(why), file=f, node=m.node)
    # instance-only assignment of result / run_params / data / fs
    n_sites = 0
    for modname in ALGO_MODS + ("pyoma2.algorithms.base", "pyoma2.setup.base", "pyoma2.setup.single", "pyoma2.setup.multi"):
        mod = prog.mods.get(modname)
        if mod is None:
            continue
        for fi in [x for x in prog.functions.values() if x.mod == modname]:
            if fi.node.name in ("__class_getitem__", "__init_subclass__"):
                continue
            for n in ast.walk(fi.node):
                tg = n.targets if isinstance(n, ast.Assign) else ([n.target] if isinstance(n, ast.AugAssign) else [])
                for t in tg:
                    if isinstance(t, ast.Attribute) and t.attr in ("result", "run_params", "data", "fs", "dt", "algorithms"):
                        n_sites += 1
                        base = t.value
                        ok = isinstance(base, ast.Name) and base.id == "self"
                        if not ok:
                            run.ob("R-result-fresh", fi.qual, f"{t.attr} assigned on the instance", False, f"`{astq.src(n, 60)}` assigns shared (class-level / foreign) state",
                                   witness=astq.src(t, 40), file=rel(mod.path), node=n)
    run.ob("R-result-fresh", "pyoma2.algorithms", "result/run_params/data/fs assigned on self only", True, f"{n_sites} assignment sites checked")


# ----------------------------------------------------------------------------- R-poser
def poser(prog, run):
    ci = prog.cls("setup.multi.MultiSetup_PoSER")
    g = ci.methods.get("_init_setups")
    init = ci.methods.get("__init__")
    if g is None or init is None:
        raise AnalysisError("anchor lost: MultiSetup_PoSER._init_setups/__init__")
    f = rel(prog.mods[g.mod].path)
    raises = [n for n in ast.walk(g.node) if isinstance(n, ast.Raise)]
    kinds = [astq.src(r.exc.func) if isinstance(r.exc, ast.Call) else astq.src(r.exc) if r.exc is not None else "re-raise" for r in raises]
    run.ob("R-poser", g.qual, "every raise is ValueError", bool(raises) and all(k == "ValueError" for k in kinds), f"{len(raises)} raise statements: {sorted(set(kinds))}", witness=str(sorted(set(kinds))), file=f, node=g.node)
    # count guard: the first-level raise guards, decided by evaluating the (expanded) test for 0, 1 and 2 setups
    pos = astq.params_of(g.node)[0]
    psetups = [p_ for p_ in pos if p_ != "self"][0] if len(pos) > 1 else None

    class _LenTo(ast.NodeTransformer):
        def __init__(self, n):
            self.n = n

        def visit_Call(self, node):
            self.generic_visit(node)
            if isinstance(node.func, ast.Name) and node.func.id == "len" and len(node.args) == 1 and isinstance(node.args[0], ast.Name) and node.args[0].id == psetups:
                return ast.Constant(value=self.n)
            return node
    import copy as _copy
    guard = None
    seen_len_test = False
    for s_ in g.node.body:
        if isinstance(s_, ast.If) and any(isinstance(x, ast.Raise) for x in s_.body):
            t = astq.expr_at(g, s_, s_.test)
            if not any(isinstance(c, ast.Call) and isinstance(c.func, ast.Name) and c.func.id == "len" and c.args and isinstance(c.args[0], ast.Name) and c.args[0].id == psetups for c in ast.walk(t)):
                continue
            seen_len_test = True
            vals = [astq.const_test(_LenTo(n).visit(_copy.deepcopy(t)), {}) for n in (0, 1, 2)]
            if all(v is not astq._UNDEC for v in vals):
                if vals[0] and vals[1] and not vals[2]:
                    guard = True
                elif guard is None:
                    guard = False
    if guard is None and not seen_len_test:
        # no test on the number of setups at all
        guard = False if not any("len(" in astq.src(astq.expr_at(g, s_, s_.test), 200) for s_ in g.node.body if isinstance(s_, ast.If)) else None
    run.ob("R-poser", g.qual, "0 and 1 setups are rejected", guard, "the guard on len(setups) raises for 0 and 1 and accepts 2" if guard else "no guard rejecting fewer than two setups", witness="no-guard", file=f, node=g.node)
    # yields dominated by the run / Fn check in the same loop
    yields = [n for n in ast.walk(g.node) if isinstance(n, (ast.Yield, ast.YieldFrom))]
    oky = bool(yields)
    why_dep = ""
    pm = astq.parent_map(g.node)

    def guard_text(st):
        """source of the statement with the tests of its raise-guards expanded (helpers inlined)"""
        out = [astq.src(st, 600)]
        for n in ast.walk(st):
            if isinstance(n, ast.If):
                out.append(astq.src(astq.expr_at(g, n, n.test), 600))
        return " ".join(out)
    for y in yields:
        loop = astq.enclosing(pm, y, (ast.For,))
        if loop is None:
            oky = False
            continue
        ystmt = y
        while pm.get(ystmt) is not loop and pm.get(ystmt) is not None:
            ystmt = pm[ystmt]
        idx = loop.body.index(ystmt) if ystmt in loop.body else -1
        before = loop.body[:idx] if idx >= 0 else []
        chk = any(isinstance(x, ast.Raise) for s_ in before for x in ast.walk(s_)) and any("result" in guard_text(s_) and "Fn" in guard_text(s_) for s_ in before)
        if not chk:
            oky = False
        # the check must be about the setup that is yielded, not about some other setup
        yv = y.value.id if isinstance(y.value, ast.Name) else None
        checking = [s_ for s_ in before if any(isinstance(x, ast.Raise) for x in ast.walk(s_))]
        if yv is not None and checking and not any(isinstance(x, ast.Name) and x.id == yv for s_ in checking for x in ast.walk(s_)):
            # the check is written in terms of other names: values taken from the setup earlier (its algorithms paired with the names, an
            # entry of a list prepared per setup) or something else altogether - which, is not read
            oky = None if oky else oky
            why_dep = f"the check before `yield {yv}` is not written in terms of `{yv}`: whether it concerns that setup was not followed"
            # recognisably wrong: the check reads the leftover variable of an EARLIER loop (one that is over before this one starts) - the same,
            # last, element for every setup that is yielded
            bound_here = {x.id for x in ast.walk(loop.target) if isinstance(x, ast.Name)} | {x.id for s_ in loop.body for x in ast.walk(s_) if isinstance(x, ast.Name) and isinstance(x.ctx, ast.Store)}
            # ... or reads nothing at all that changes from one iteration to the next (a name bound once before the loop, e.g. to the FIRST
            # setup's algorithms): the same object is checked for every setup
            read = {x.id for s_ in checking for x in ast.walk(s_) if isinstance(x, ast.Name) and isinstance(x.ctx, ast.Load)}
            inner_bound = {x.id for s_ in checking for x in ast.walk(s_) if isinstance(x, ast.Name) and isinstance(x.ctx, ast.Store)}
            if not (read & (bound_here - inner_bound)) and not any(isinstance(x, ast.Attribute) and isinstance(x.value, ast.Name) and x.value.id == "self" for s_ in checking for x in ast.walk(s_)):
                oky = False
                why_dep = (f"the check before `yield {yv}` reads nothing that changes with the loop (`{', '.join(sorted(read - inner_bound - {'ValueError'}))[:60]}` are bound before it): "
                           f"the same object is checked for every setup that is yielded")
            for other in ast.walk(g.node):
                if isinstance(other, ast.For) and other is not loop and getattr(other, "end_lineno", 0) < loop.lineno and not astq._contains(other, loop):
                    left = {x.id for x in ast.walk(other.target) if isinstance(x, ast.Name)} - bound_here
                    used = sorted(left & {x.id for s_ in checking for x in ast.walk(s_) if isinstance(x, ast.Name) and isinstance(x.ctx, ast.Load)})
                    if used:
                        oky = False
                        why_dep = (f"the check before `yield {yv}` reads `{used[0]}`, the variable left over from the loop `for {astq.src(other.target, 20)} in {astq.src(other.iter, 30)}` "
                                   f"that has ended: every setup is checked against the LAST element of that loop, never against itself")
    if not yields:
        # not a generator: the validated setups are handed back in one piece.  Sound when the run / modes-extracted check (a raise whose test
        # reads result / Fn) is reached on every path before the return; anything else is not read
        rets_ = [n for n in ast.walk(g.node) if isinstance(n, ast.Return) and n.value is not None]
        chks_ = [s_ for s_ in ast.walk(g.node) if isinstance(s_, (ast.If, ast.For)) and any(isinstance(x, ast.Raise) for x in ast.walk(s_)) and "result" in guard_text(s_) and "Fn" in guard_text(s_)]
        top = [s_ for s_ in g.node.body if any(c_ is s_ or astq._contains(s_, c_) for c_ in chks_)]
        oky = True if (rets_ and top and all(getattr(r_, "lineno", 0) > max(getattr(t_, "end_lineno", t_.lineno) for t_ in top) for r_ in rets_)) else None
    run.ob("R-poser", g.qual, "each setup is yielded only after the run / modes-extracted check of THAT setup" if yields else "the setups are handed back only after the run / modes-extracted check of every one",
           oky, f"{len(yields)} yield(s)" + (f": {why_dep}" if not oky and why_dep else "") + ("" if yields else " - the routine returns the list after its checks"),
           witness="unchecked yield", file=f, node=g.node)
    # names count check
    guards = [(s_, astq.src(astq.expr_at(g, s_, s_.test), 600)) for s_ in ast.walk(g.node) if isinstance(s_, ast.If) and any(isinstance(x, ast.Raise) for x in s_.body)]
    # (the names as the attribute or as a parameter handed in: any length test that involves an expression called `names`)
    names = any(("self.names" in t or re.search(r"len\(\s*names\s*\)", t)) and "len(" in t for s_, t in guards)
    run.ob("R-poser", g.qual, "one name per algorithm is enforced", names, "len(self.names) compared with the number of algorithms" if names else "no check on the number of names", witness="no-names-check", file=f, node=g.node)
    types = any("type(" in t for s_, t in guards)
    # exact types: an isinstance() test also accepts subclasses (SSIcov for SSIdat, EFDD for FDD) whose results are not comparable
    loose = any("isinstance(" in t and ("type(" in t or "algo" in t) for s_, t in guards)
    run.ob("R-poser", g.qual, "identical algorithm types in identical order are enforced", (types and not loose) if (types or loose) else False,
           ("type lists compared" if not loose else "algorithm types compared with isinstance(): subclasses of the first setup's algorithms are accepted") if (types or loose) else "no comparison of algorithm types",
           witness="no-type-check" if not loose else "isinstance", file=f, node=g.node)
    # the type comparison ranges over ALL algorithms of every setup (a zip with the names / a slice silently drops the extra ones)
    cov, cov_why = _type_guard_coverage(prog, g, [(s_, astq.expr_at(g, s_, s_.test)) for s_, t in guards if "type(" in t])
    run.ob("R-poser", g.qual, "the type comparison covers every algorithm of every setup", cov, cov_why, witness="truncated-comparison", file=f, node=g.node)
    # exhausted in __init__
    exhausted = False
    for n in ast.walk(init.node):
        if isinstance(n, (ast.ListComp,)) or (isinstance(n, ast.Call) and isinstance(n.func, ast.Name) and n.func.id in ("list", "tuple")):
            for c in ast.walk(n):
                if isinstance(c, ast.Call) and isinstance(c.func, ast.Attribute) and c.func.attr == "_init_setups":
                    exhausted = True
    if not yields:
        # not a generator: the checks run when the routine is called
        raw_init = prog.raw.functions.get(init.qual)
        exhausted = any(isinstance(c, ast.Call) and isinstance(c.func, ast.Attribute) and c.func.attr == "_init_setups"
                        for c in ast.walk(raw_init.node if raw_init is not None else init.node)) or None
    run.ob("R-poser", init.qual, "validation generator is exhausted inside __init__" if yields else "the validation routine is called inside __init__", exhausted, "list built from _init_setups(...)" if exhausted else "the generator object is stored: validation would run lazily (or never)", witness="lazy", file=rel(prog.mods[init.mod].path), node=init.node)


def _type_guard_coverage(prog, g, guards):
    """True: every `type(v)` in the type guard has v ranging over all algorithms of a setup; False: the range is cut (zip without
    strict=, slice, islice) and no guard compares the number of algorithms of every setup; None: a range we do not recognise"""
    if not guards:
        return None, "no type comparison to examine"
    verdicts = []

    def single_return(call):
        r = prog.resolve_call(g, call)
        if isinstance(r, FuncInfo):
            rets = [x for x in ast.walk(r.node) if isinstance(x, ast.Return) and x.value is not None]
            body = [b for b in r.node.body if not (isinstance(b, ast.Expr) and isinstance(b.value, ast.Constant))]
            if len(rets) == 1 and len(body) == 1 and body[0] is rets[0]:
                return rets[0].value
        return None

    def elt_of(e):
        """the expression of one element of sequence e (for lists built by a comprehension / literal)"""
        if isinstance(e, (ast.ListComp, ast.GeneratorExp, ast.SetComp)):
            return e.elt
        if isinstance(e, (ast.List, ast.Tuple)) and e.elts:
            return e.elts[0]
        return None

    def classify(e, binders, depth=0):
        """'full' | ('cut', why) | None for: the algorithms an iteration over e ranges over"""
        if depth > 8:
            return None
        if isinstance(e, ast.Attribute) and e.attr == "algorithms":
            return "full"
        if isinstance(e, ast.Call):
            fn = e.func
            if isinstance(fn, ast.Attribute) and fn.attr in ("values", "items", "keys") and isinstance(fn.value, ast.Attribute) and fn.value.attr == "algorithms" and not e.args:
                return "full"
            if isinstance(fn, ast.Name) and fn.id in ("list", "tuple", "enumerate", "iter", "reversed") and e.args:
                return classify(e.args[0], binders, depth + 1)
            if isinstance(fn, ast.Name) and fn.id == "zip":
                if any(k.arg == "strict" and isinstance(k.value, ast.Constant) and k.value.value is True for k in e.keywords):
                    sub = [classify(a, binders, depth + 1) for a in e.args]
                    return "full" if "full" in sub and not any(isinstance(x, tuple) for x in sub) else None
                return ("cut", f"`{astq.src(e, 60)}` stops at the shorter sequence")
            if (isinstance(fn, ast.Name) and fn.id == "islice") or (isinstance(fn, ast.Attribute) and fn.attr == "islice"):
                return ("cut", f"`{astq.src(e, 60)}` takes a prefix")
            ret = single_return(e)
            if ret is not None:
                return classify(ret, binders, depth + 1)
            return None
        if isinstance(e, ast.Subscript):
            if isinstance(e.slice, ast.Slice):
                if e.slice.lower is None and e.slice.upper is None:
                    return classify(e.value, binders, depth + 1)
                return ("cut", f"`{astq.src(e, 60)}` takes a part")
            el = elt_of(e.value)
            if el is not None:
                return classify(el, binders, depth + 1)
            return None
        if isinstance(e, ast.Name) and e.id in binders:
            it = binders[e.id]
            el = elt_of(it)
            if el is not None:
                return classify(el, binders, depth + 1)
            if isinstance(it, ast.Subscript) and isinstance(it.slice, ast.Slice):
                return classify(it.value, binders, depth + 1)      # a part of the SETUPS: each of them still in full
            return None
        if isinstance(e, (ast.ListComp, ast.GeneratorExp)) and len(e.generators) == 1:
            # a re-packaging comprehension: [(n, type(a)) for n, a in <it>] ranges over what <it> ranges over
            return classify(e.generators[0].iter, binders, depth + 1)
        return None
    for s_, t in guards:
        pm = astq.parent_map(t)
        binders = {}
        for n in ast.walk(t):
            if isinstance(n, ast.comprehension):
                for x in ast.walk(n.target):
                    if isinstance(x, ast.Name):
                        binders[x.id] = n.iter
        for c in ast.walk(t):
            if isinstance(c, ast.Call) and isinstance(c.func, ast.Name) and c.func.id == "type" and len(c.args) == 1 and isinstance(c.args[0], ast.Name):
                v = c.args[0].id
                comp = None
                cur = c
                while cur in pm:
                    cur = pm[cur]
                    if isinstance(cur, (ast.ListComp, ast.GeneratorExp, ast.SetComp, ast.DictComp)):
                        comp = next((gen for gen in cur.generators if any(isinstance(x, ast.Name) and x.id == v for x in ast.walk(gen.target))), None)
                        if comp is not None:
                            break
                if comp is None:
                    verdicts.append(None)
                    continue
                verdicts.append(classify(comp.iter, binders))
    cuts = [v for v in verdicts if isinstance(v, tuple)]
    if cuts:
        # compensated by a guard on the number of algorithms of EVERY setup?
        for s_ in ast.walk(g.node):
            if isinstance(s_, ast.If) and any(isinstance(x, ast.Raise) for x in s_.body):
                t = astq.expr_at(g, s_, s_.test)
                in_loop = astq.enclosing(astq.parent_map(g.node), s_, (ast.For,)) is not None
                for c in ast.walk(t):
                    alg_attr = next((a_ for a_ in ast.walk(c.args[0]) if isinstance(a_, ast.Attribute) and a_.attr == "algorithms"), None) \
                        if isinstance(c, ast.Call) and isinstance(c.func, ast.Name) and c.func.id == "len" and c.args else None
                    # len(s.algorithms) / len(s.algorithms.values()) / len(list(s.algorithms.values()))
                    if alg_attr is not None:
                        base = alg_attr.value
                        per_setup = isinstance(base, ast.Name) and (in_loop or any(isinstance(n, ast.comprehension) and any(isinstance(x, ast.Name) and x.id == base.id for x in ast.walk(n.target)) for n in ast.walk(t)))
                        if per_setup:
                            return True, f"{cuts[0][1]}, but the number of algorithms of every setup is compared as well"
        return False, f"{cuts[0][1]}: a setup with more algorithms than that is accepted, the extra ones are never compared"
    if verdicts and all(v == "full" for v in verdicts):
        return True, f"{len(verdicts)} type list(s), each over all the algorithms of its setup"
    return None, "the range of the type comparison is not of a recognised form"


# ----------------------------------------------------------------------------- R-pickle
UNPICKLABLE_CALLS = ("open", "tkinter.", "tk.", "matplotlib.pyplot.figure", "matplotlib.pyplot.subplots", "threading.", "socket.")


def pickle_rule(prog, run):
    classes = [c for c in prog.classes.values() if c.mod.startswith(("pyoma2.setup.", "pyoma2.algorithms."))]
    gens = {q for q, fi in prog.functions.items() if any(isinstance(n, (ast.Yield, ast.YieldFrom)) for n in ast.walk(fi.node))}
    for ci in classes:
        f = rel(prog.mods[ci.mod].path)
        bad = []
        n_sites = 0
        for m in ci.methods.values():
            for n in ast.walk(m.node):
                if isinstance(n, ast.Assign):
                    for t in n.targets:
                        if isinstance(t, ast.Attribute) and isinstance(t.value, ast.Name) and t.value.id == "self":
                            n_sites += 1
                            v = n.value
                            if isinstance(v, (ast.Lambda, ast.GeneratorExp)):
                                bad.append((n, f"self.{t.attr} = {type(v).__name__}"))
                            elif isinstance(v, ast.Call):
                                r = prog.resolve_call(m, v)
                                nm = astq.callee_name(prog, m, v)
                                if isinstance(r, FuncInfo) and r.qual in gens:
                                    bad.append((n, f"self.{t.attr} = generator object of {r.node.name}()"))
                                elif nm.startswith(UNPICKLABLE_CALLS) or nm == "open":
                                    bad.append((n, f"self.{t.attr} = {nm}(...)"))
        if bad:
            for n, why in bad:
                run.ob("R-pickle", ci.qual, "instance attributes are picklable values", False, why, witness=why[:80], file=f, node=n)
        else:
            run.ob("R-pickle", ci.qual, "instance attributes are picklable values", True, f"{n_sites} attribute assignments", file=f, node=ci.node)


MUTANTS = [
    ("C15-m01 SSI mpe ungated", "algorithms.ssi", "SSIdat.mpe", "super().mpe(sel_freq=sel_freq, order=order, rtol=rtol)", "pass"),
    ("C15-m02 FDD mpe stores before the gate", "algorithms.fdd", "FDD.mpe", "super().mpe(sel_freq=sel_freq, DF=DF)", "self.run_params.sel_freq = sel_freq\nsuper().mpe(sel_freq=sel_freq, DF=DF)"),
    ("C15-m03 run before pre-run", "setup.base", "BaseSetup.run_by_name", "self[name]._pre_run()", "pass"),
    ("C15-m04 pre-run ignores missing data", "algorithms.base", "BaseAlgorithm._pre_run", "self.fs is None or self.data is None", "self.fs is None"),
    ("C15-m05 Hankel construction demeans its input in place", "functions.ssi", "build_hank", "Ndat = Y.shape[1]", "Ndat = Y.shape[1]\nY -= Y.mean(axis=1, keepdims=True)"),
    ("C15-m06 damping criterion writes NaN into its argument", "functions.gen", "HC_damp", "filt_damp = damp * mask", "damp[damp > max_damp] = np.nan\nfilt_damp = damp * mask"),
    ("C15-m07 random tie breaking", "functions.fdd", "FDD_mpe", "maxDiffS1S2 = np.max(diffS1S2)", "maxDiffS1S2 = np.max(diffS1S2 + 1e-12 * np.random.rand(len(diffS1S2)))"),
    ("C15-m08 run returns the stored result", "algorithms.fdd", "FDD.run", "return self.ResultCls(freq=freq, Sy=Sy, S_val=Sval, S_vec=Svec)", "self.result = self.ResultCls(freq=freq, Sy=Sy, S_val=Sval, S_vec=Svec)\nreturn self.result"),
    ("C15-m09 result stored on the class", "algorithms.base", "BaseAlgorithm._set_result", "self.result = result", "type(self).result = result"),
    ("C15-m10 PoSER raises TypeError", "setup.multi", "MultiSetup_PoSER._init_setups", "raise ValueError('You must pass at least two setup')", "raise TypeError('You must pass at least two setup')"),
    ("C15-m11 PoSER accepts a single setup", "setup.multi", "MultiSetup_PoSER._init_setups", "len(setups) <= 1", "len(setups) < 1"),
    ("C15-m12 PoSER validation lazy", "setup.multi", "MultiSetup_PoSER.__init__", "[el for el in self._init_setups(setups=single_setups if single_setups else [])]", "self._init_setups(setups=single_setups if single_setups else [])"),
    ("C15-m13 lambda stored on the setup", "setup.single", "SingleSetup.__init__", "self.fs = fs", "self.fs = fs\nself._hook = lambda: None"),
    ("C15-m14 spectral estimate scales its input in place", "functions.fdd", "SD_est", "Ndat = Yref.shape[1]", "Ndat = Yref.shape[1]\nYall *= 1.0", 1),
    ("C15-m15 PoSER yields unchecked setups", "setup.multi", "MultiSetup_PoSER._init_setups", "if not alg.result or alg.result.Fn is None:\n    raise ValueError('You must pass Single setups that have already been run and the Modal Parameters have to be extracted (call mpe method on SingleSetup)')", "pass"),
    ("C15-m16 set_result ignores run output", "setup.base", "BaseSetup.run_by_name", "self[name]._set_result(result)", "self[name]._set_result(self[name].result)"),
    ("C15-m18 PoSER re-checks the first setup for every setup", "setup.multi", "MultiSetup_PoSER._init_setups", "for alg in setup.algorithms.values():\n    if not alg.result or alg.result.Fn is None:\n        raise ValueError('You must pass Single setups that have already been run and the Modal Parameters have to be extracted (call mpe method on SingleSetup)')",
     "for alg in setups[0].algorithms.values():\n    if not alg.result or alg.result.Fn is None:\n        raise ValueError('You must pass Single setups that have already been run and the Modal Parameters have to be extracted (call mpe method on SingleSetup)')"),
    ("C15-m17 SSI_mpe overwrites the caller's order list", "functions.ssi", "SSI_mpe", "order_out = np.array(order)", "order_out = order"),
]
REWRITES = [
    ("C15-r01 explicit gate instead of super()", "algorithms.ssi", "SSIdat.mpe", "super().mpe(sel_freq=sel_freq, order=order, rtol=rtol)", "if not self.result:\n    raise ValueError('Run algorithm first')"),
    ("rename:C15-r02", "setup.base", "BaseSetup.run_by_name", "result", "res"),
    ("C15-r03 gate by identity test", "algorithms.fdd", "EFDD.mpe", "if not self.result:\n    raise ValueError('Run algorithm first')", "if self.result is None:\n    raise ValueError('Run algorithm first')"),
    ("C15-r04 list() instead of comprehension", "setup.multi", "MultiSetup_PoSER.__init__", "[el for el in self._init_setups(setups=single_setups if single_setups else [])]", "list(self._init_setups(setups=single_setups if single_setups else []))"),
    ("C15-r05 fresh copy then in-place", "functions.ssi", "build_hank", "Ndat = Y.shape[1]", "Ndat = Y.shape[1]\nYc = Y.copy()\nYc -= 0.0"),
]
