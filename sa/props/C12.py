"""C12 - the SSI Hankel/Toeplitz matrix has the prescribed lag, channel and block layout.

Decided (structural, for all br, channel counts and record lengths at once, by polynomial identities over the slice bounds):
cov_mm / dat - block row i is a window of ALL channels starting at q+1+i, block column c a window of the REFERENCE channels starting
at q-c, both of the same length and the same weight, so entry (i, c) is a correlation at the single lag i+c+1 with uniform weights;
br+1 block rows and br+1 block columns; every window lies inside the record.  cov_R - R_k pairs Y[:, :Ndat-k] with Yref[:, k:]
(lag k, equal lengths, weight 1/length), Toeplitz block (i, c) holds k = br+i-c with 0 <= k <= 2br < number of lags computed.
dat - stacked [past; future], R-factor of the transposed stack, returned block = rows >= rows(past), columns < rows(past).
O-bilinear - H ~ g_Y * g_Yref for the covariance methods.  The expected lags come from the property statement.
Not decided: the Gram/projection identity as a numerical statement.
"""
import ast

from ..absint import Interp, CTX, Cst, D, Tup
from .. import hd, astq, symidx
from ..hd import expect, events_to_obligations
from ..program import rel, AnalysisError
from ..poly import P, P_div

FN = "functions.ssi.build_hank"


def _first(v):
    from .. import seqdom
    return v.items[0] if isinstance(v, seqdom.Tup) and v.items else v


def variants(fi, prog=None):
    """the ways the reference records reach the routine: as its second argument (a data matrix), as a list of channel numbers in a
    parameter of its own (`ref_ind`), or - when a caller in the package hands its second parameter the list itself - as a list of
    channel numbers in the place of the data matrix"""
    pos, kwo, _, _ = astq.params_of(fi.node)
    out = ["yref"] + (["refind"] if "ref_ind" in pos + kwo else [])
    if prog is not None and len(pos) > 1:
        from ..effects import _callers
        for g, c in _callers(prog, getattr(fi, "fi", fi)):
            m_, errs = astq.bind_args(fi.node, c)
            a = m_.get(pos[1])
            if not isinstance(a, ast.AST):
                continue
            x = astq.expr_at(g, c, a)
            alts = [x.body, x.orelse] if isinstance(x, ast.IfExp) else [x]
            if any(isinstance(y, (ast.Name, ast.Attribute)) and "ref_ind" in astq.src(y) for y in alts) and "yrefidx" not in out:
                out.append("yrefidx")
    if prog is not None:
        # a test that compares the SHAPES of two arrays somewhere below the routine: the world in which the reference records have the
        # shape of the data (all channels listed, in another order) is analysed as well
        base = getattr(fi, "fi", fi)
        # (the routine and the private helpers of its module: a builder picked from a table is not on the call graph)
        for q in sorted({base.qual} | set(prog.reachable([base.qual])) | {q_ for q_, g_ in prog.functions.items() if g_.mod == base.mod and g_.cls is None and g_.node.name.startswith("_")}):
            g = prog.functions.get(q)
            if g is not None and q.startswith("pyoma2.functions.ssi") and any(
                    isinstance(c, ast.Compare) and len(c.ops) == 1 and isinstance(c.ops[0], (ast.Eq, ast.NotEq)) and ".shape" in astq.src(c.left) and ".shape" in astq.src(c.comparators[0])
                    for c in ast.walk(g.node)):
                out.append("yrefsame")
                break
    return tuple(out)


def analyse(prog, fi, method, pY, pR, pbr, pm, variant="yref"):
    """the returned Hankel / Toeplitz matrix as a term of sa/hankdom.py, for one method, uncertainty off"""
    from .. import hankdom, seqdom
    has_ri = "ref_ind" in astq.params_of(fi.node)[0] + astq.params_of(fi.node)[1]
    extra, consts = {}, {}
    if variant == "yrefidx":
        it = hankdom.Interp(prog, roles={pY: ("rec", "all"), pR: ("refidx",)})
        if has_ri:
            extra, consts = {"ref_ind": seqdom.K(None)}, {"ref_ind": None}
    elif variant == "refind":
        it = hankdom.Interp(prog, roles={pY: ("rec", "all"), "ref_ind": ("refidx",)})
        extra, consts = {pR: seqdom.K(None)}, {pR: None}
    else:
        it = hankdom.Interp(prog, roles={pY: ("rec", "all"), pR: ("rec", "ref")})
        it.sh["same_shape"] = variant == "yrefsame"
        if has_ri:
            extra, consts = {"ref_ind": seqdom.K(None)}, {"ref_ind": None}
    # (the method label written into the body first: a dispatch table indexed with it becomes the call of one builder)
    fi = astq.PrunedFn(fi, dict({pm: method, "calc_unc": False}, **consts), subst=True)
    rets = it.run(fi, dict({pm: seqdom.K(method), "calc_unc": seqdom.K(False), pbr: seqdom.I(P.s(pbr))}, **extra))
    out = []
    for v, n in rets:
        h = _first(v)
        if not any(repr(h) == repr(x[0]) for x in out):
            out.append((h, n))
    return out, it


def check(prog, run):
    astq.shortcut_obligations(prog, run, [m_.qual for _, m_ in prog.class_methods("pyoma2.algorithms.ssi", "run")] + ["functions.ssi.build_hank"])
    hankel_rules(prog, run)
    method_rule(prog, run)


def hankel_rules(prog, run):
    """the structure of the matrix build_hank returns, per method (shared with C01 through run.under(...))"""
    from .. import hankdom
    run.rule("R-lag", "cov_mm/dat: lag(i, c) = origin_future(i) - origin_past(c) = i + c + 1, equal window lengths and weights, windows inside "
             "the record, future windows of ALL channels, past windows of the REFERENCE channels; cov_R: block (i, c) correlates Y[:, :Ndat-k] with "
             "Yref[:, k:] at k = br + i - c (equal lengths, weight 1/length, windows inside the record, lag computed)", 20)
    run.rule("R-blocks", "br+1 block rows and br+1 block columns in every method", 6)
    run.rule("R-dat", "dat: stack [past; future], R-factor of its transpose, returned block rows >= rows(past), columns < rows(past)", 4)
    run.rule("O-bilinear", "H is bilinear in (Y, Yref) for cov_mm and cov_R", 2)
    fi = prog.func(FN)
    f = rel(prog.mods[fi.mod].path)
    pos, _, _, _ = astq.params_of(fi.node)
    pY, pR, pbr, pm = pos[0], pos[1], pos[2], pos[3]
    br = P.s(pbr)
    Ndat = P.s("Ndat")
    names = {"all": pY, "ref": pR, "ref-asc": "the reference channels in ascending channel order (selected with a boolean mask made from the list: its listed order is lost)"}

    def ob(rule, role, ok, detail, witness="", node=None, config=""):
        run.ob(rule, fi.qual, role, ok, detail, witness=witness or detail[:80], file=f, node=node, config=config)

    def nonneg(p_):
        """p >= 0 for every br >= 0 (and Ndat large): constant >= 0, or only non-negative coefficients on br"""
        return all(c >= 0 for c in p_.t.values()) and all(set(s_ for s_, e in k) <= {pbr} for k in p_.t)

    def stack_facts(stk, idx):
        w = stk.win.subs(stk.v, P.s(idx))
        return {"array": names.get(w.role, w.role), "lo": w.lo, "hi": w.hi, "factor": w.w, "count": stk.n}

    # ------------------------------------------------------------ cov_mm and dat
    results = {}
    for method, variant in [(m_, v_) for m_ in ("cov_mm", "dat") for v_ in variants(fi, prog)]:
        cfg = f"method={method}" + (",references by index" if variant == "refind" else ",reference list in place of the data" if variant == "yrefidx" else
                                    ",reference records of the shape of the data (every channel listed, in another order)" if variant == "yrefsame" else "")
        hs, it = analyse(prog, fi, method, pY, pR, pbr, pm, variant)
        for enode, etxt in it.errors:
            ob("R-lag", "structure: block rows keep the channel order", False, f"{cfg}: {etxt}", witness=etxt[:80], node=enode, config=cfg)
        if it.errors:
            continue
        if len(hs) != 1:
            ob("R-lag", "structure", None, f"{cfg}: {len(hs)} different returned matrices", config=cfg)
            continue
        H, rnode = hs[0]
        fut = past = None
        if method == "cov_mm":
            if isinstance(H, hankdom.Gram) and isinstance(H.a, hankdom.Stk) and isinstance(H.b, hankdom.Stk):
                fut, past = stack_facts(H.a, "i"), stack_facts(H.b, "c")
            else:
                ob("R-lag", "structure", None, f"{cfg}: returned matrix `{repr(H)[:120]}` is not a product of two window stacks", node=rnode, config=cfg)
                continue
        else:
            def obd(role, ok, detail, witness=""):
                run.ob("R-dat", fi.qual, role, ok, detail, witness=witness or detail[:80], file=f, node=rnode, config=cfg)
            cut = H if isinstance(H, hankdom.Cut) else None
            rf = cut.m if cut is not None else None
            if not (cut is not None and isinstance(rf, hankdom.RFac)):
                obd("returned block of an R factor", None, f"returned matrix `{repr(H)[:120]}` is not a block of an R factor")
                continue
            obd("R-factor only (mode='r'), transposed to lower-triangular", rf.mode == "r" and rf.transposed, f"qr(..., mode={rf.mode!r}), transposed afterwards: {rf.transposed}")
            arg = rf.arg
            if not (isinstance(arg, hankdom.Cat) and arg.transposed and len(arg.parts) == 2 and all(isinstance(x, hankdom.Stk) for x in arg.parts)):
                obd("QR of the transposed stack [past; future]", None if not isinstance(arg, (hankdom.Cat, hankdom.Stk)) else False, f"QR argument `{repr(arg)[:120]}`")
                continue
            s1, s2 = arg.parts
            f1, f2 = stack_facts(s1, "c"), stack_facts(s2, "i")
            obd("stack order [past(reference); future(all)]", f1["array"] == pR and f2["array"] != pR, f"first block from `{f1['array']}`, second from `{f2['array']}`", f"{f1['array']},{f2['array']}")
            rows_past = s1.n * P.s("nR")
            rows_all = rows_past + s2.n * P.s("nY")
            ok = cut.rlo is not None and cut.chi is not None and cut.rlo == rows_past and cut.chi == rows_past and (cut.rhi is None or cut.rhi == rows_all) \
                and (cut.clo is None or cut.clo == P.c(0))
            obd("returned block: rows >= rows(past), columns < rows(past)", ok, f"rows from {cut.rlo!r}, columns up to {cut.chi!r}, rows(past) = {rows_past!r}", f"{cut.rlo!r};{cut.chi!r}")
            fut, past = f2, f1
        results[method] = (fut, past)
        node = rnode
        ob("R-lag", "block rows are windows of all channels (first argument)", fut["array"] == pY, f"future windows taken from `{fut['array']}`", fut["array"], node, cfg)
        ob("R-lag", "block columns are windows of the reference channels (second argument)", past["array"] == pR, f"past windows taken from `{past['array']}`", past["array"], node, cfg)
        lag = fut["lo"] - past["lo"]
        exp = P.s("i") + P.s("c") + 1
        ob("R-lag", "single lag i+c+1", lag == exp, f"lag(i,c) = {lag!r}", repr(lag), node, cfg)
        lf, lp = fut["hi"] - fut["lo"], past["hi"] - past["lo"]
        ob("R-lag", "equal window lengths (one lag per block, uniform weights)", lf == lp and "i" not in repr(lf) and "c" not in repr(lp),
           f"future length {lf!r}, past length {lp!r}", f"{lf!r} vs {lp!r}", node, cfg)
        ob("R-lag", "equal weights on both factors", fut["factor"] == past["factor"], f"factors {fut['factor']!r} and {past['factor']!r}",
           f"{fut['factor']!r} vs {past['factor']!r}", node, cfg)
        w2 = fut["factor"] * past["factor"]
        from ..poly import atom_of
        nbv = atom_of(w2, -1)
        okw = any((w2 * (lf + d)) == P.c(1) for d in (0, 1)) or (nbv is not None and any(nbv == lf + d for d in (0, 1)))
        ob("R-lag", "weights average the products (1/N per product)", okw, f"weight product {w2!r} for {lf!r} products", repr(w2), node, cfg)
        ob("R-blocks", "block rows = br+1", fut["count"] == br + 1, f"{fut['count']!r} block rows", repr(fut["count"]), node, cfg)
        ob("R-blocks", "block columns = br+1", past["count"] == br + 1, f"{past['count']!r} block columns", repr(past["count"]), node, cfg)
        maxhi = fut["hi"].subs("i", fut["count"] - 1)
        minlo = past["lo"].subs("c", past["count"] - 1)
        d = Ndat - maxhi
        ob("R-lag", "future windows end inside the record", d.is_const() and d.const() >= 0, f"largest end {maxhi!r} vs record length {Ndat!r}", repr(maxhi), node, cfg)
        ob("R-lag", "past windows start inside the record", minlo.is_const() and minlo.const() >= 0, f"smallest origin {minlo!r}", repr(minlo), node, cfg)
        minlo_f = fut["lo"].subs("i", P.c(0))
        ob("R-lag", "origins depend on the block index only through +i / -c", fut["lo"] - P.s("i") == minlo_f and past["lo"] + P.s("c") == past["lo"].subs("c", P.c(0)),
           f"future origin {fut['lo']!r}, past origin {past['lo']!r}", f"{fut['lo']!r};{past['lo']!r}", node, cfg)
    if "cov_mm" in results and "dat" in results:
        a_, b_ = results["cov_mm"], results["dat"]
        same = all(a_[k][x] == b_[k][x] for k in (0, 1) for x in ("lo", "hi", "factor", "count", "array"))
        ob("R-dat", "future/past stacks identical to the cov_mm ones (sibling agreement)", same, "same origins, lengths, weights, counts" if same else "dat and cov_mm build different stacks",
           "differs", config="method=dat")
    # ------------------------------------------------------------ cov_R
    cfg = "method=cov_R"
    hs, it = analyse(prog, fi, "cov_R", pY, pR, pbr, pm)
    H, rnode = hs[0] if len(hs) == 1 else (None, None)
    if not (isinstance(H, hankdom.BlockMat) and isinstance(H.row, hankdom.BlockRow) and isinstance(H.row.blk, hankdom.Corr)):
        ob("R-lag", "structure", None, f"{cfg}: returned matrix `{repr(H)[:140]}` is not a block matrix of correlations", node=rnode, config=cfg)
    else:
        blk = H.row.blk.subs(H.v, P.s("i")).subs(H.row.v, P.s("c"))
        rcount, ccount = H.n, H.row.n.subs(H.v, P.s("i")) if hasattr(H.row.n, "subs") else H.row.n
        wa, wb = blk.wa, blk.wb
        ob("R-lag", "R_k: first factor from all channels, second from the reference channels", wa.role == "all" and wb.role == "ref",
           f"block = {names.get(wa.role)}[..] . {names.get(wb.role)}[..]^T", f"{wa.role},{wb.role}", rnode, cfg)
        lag = wb.lo - wa.lo
        exp = br + P.s("i") - P.s("c")
        ob("R-lag", "Toeplitz block (i, c) holds lag br+i-c (reference record shifted forward)", lag == exp, f"lag(i,c) = {lag!r}", repr(lag), rnode, cfg)
        la, lb = wa.hi - wa.lo, wb.hi - wb.lo
        ob("R-lag", "R_k: equal window lengths", la == lb, f"lengths {la!r} and {lb!r}", f"{la!r} vs {lb!r}", rnode, cfg)
        from ..poly import atom_of
        wt = blk.w * wa.w * wb.w
        okw = (wt * la) == P.c(1) or (atom_of(wt, -1) is not None and atom_of(wt, -1) == la)
        ob("R-lag", "R_k: weight = 1/number of products (uniform mean)", okw, f"weight {wt!r} for {la!r} products", repr(wt), rnode, cfg)
        ob("R-blocks", "block rows = br+1", rcount == br + 1, f"{rcount!r} block rows", repr(rcount), rnode, cfg)
        ob("R-blocks", "block columns = br+1", ccount == br + 1, f"{ccount!r} block columns", repr(ccount), rnode, cfg)
        # windows inside the record at the extreme blocks
        lo_min = [wa.lo.subs("i", P.c(0)).subs("c", ccount - 1), wb.lo.subs("i", P.c(0)).subs("c", ccount - 1),
                  wa.lo.subs("i", rcount - 1).subs("c", P.c(0)), wb.lo.subs("i", rcount - 1).subs("c", P.c(0))]
        ob("R-lag", "smallest lag used is >= 0 (windows start inside the record)", all(nonneg(x) for x in lo_min), f"window origins at the corner blocks {[repr(x) for x in lo_min]}",
           repr(lo_min), rnode, cfg)
        hi_max = [Ndat - wa.hi.subs("i", P.c(0)).subs("c", ccount - 1), Ndat - wb.hi.subs("i", rcount - 1).subs("c", P.c(0)),
                  Ndat - wa.hi.subs("i", rcount - 1).subs("c", P.c(0)), Ndat - wb.hi.subs("i", P.c(0)).subs("c", ccount - 1)]
        ob("R-lag", "windows end inside the record", all(nonneg(x) for x in hi_max), f"record length minus window ends at the corner blocks {[repr(x) for x in hi_max]}",
           repr(hi_max), rnode, cfg)
        # every lag fetched from the lag array has been computed
        log = it.sh.get("index_log", [])
        if not log:
            ob("R-lag", "largest lag used is computed", True, "lags are computed where they are used (no separate lag array)", node=rnode, config=cfg)
        for idxp, length, loops in log:
            # the index is affine in the loop variables: extremes at the loop bounds
            vals = [idxp]
            for kind, v, lo_, hi_ in loops:
                if kind != "for":
                    continue
                nv = []
                for x in vals:
                    nv += [seqdom_psubs(x, v, lo_), seqdom_psubs(x, v, hi_ - 1)]
                vals = nv
            okhi = all(nonneg(length - 1 - x) for x in vals)
            oklo = all(nonneg(x) for x in vals)
            ob("R-lag", "largest lag used is computed", okhi and oklo, f"lag index {idxp!r} over its loops takes {sorted({repr(x) for x in vals})}, lags computed: {length!r}",
               f"{idxp!r}/{length!r}", rnode, cfg)


def method_rule(prog, run):
    fi = prog.func(FN)
    pm = astq.params_of(fi.node)[0][3]
    # ------------------------------------------------------------ which method is built: run parameter first, class default as fallback
    run.rule("R-method", "every SSI run() hands `run_params.method` (falling back to the class default only when it is not set) to the Hankel builder", 2)

    def priority(e):
        """operands of `a or b` / `a if a else b` / `a if a is not None else b` in order of precedence"""
        if isinstance(e, ast.BoolOp) and isinstance(e.op, ast.Or):
            return [astq.src(v) for v in e.values]
        if isinstance(e, ast.IfExp):
            t = e.test
            tested = t.left if isinstance(t, ast.Compare) and len(t.ops) == 1 and isinstance(t.ops[0], ast.IsNot) else t
            if astq.dump(tested) == astq.dump(e.body):
                return [astq.src(e.body), astq.src(e.orelse)]
            if isinstance(t, ast.UnaryOp) and isinstance(t.op, ast.Not) and astq.dump(t.operand) == astq.dump(e.orelse):
                return [astq.src(e.orelse), astq.src(e.body)]
            if isinstance(t, ast.Compare) and len(t.ops) == 1 and isinstance(t.ops[0], ast.Is) and astq.dump(t.left) == astq.dump(e.orelse):
                return [astq.src(e.orelse), astq.src(e.body)]
            return None
        if isinstance(e, (ast.Name, ast.Constant)) or (isinstance(e, ast.Attribute) and astq.src(e).replace(".", "").isidentifier()):
            return [astq.src(e)]
        return None         # a computed value (a look-up in an option dictionary that was not resolved, a call): not judged
    nm_ = 0
    for ci, m in prog.class_methods("pyoma2.algorithms", "run"):
        for callee, param in ((fi.qual, pm), ("pyoma2.functions.ssi.SSI_multi_setup", "method_hank")):
            for rec in astq.forwarded_args(prog, m, callee, depth=0):
                a = rec["args"].get(param)
                nm_ += 1
                fm = rel(prog.mods[m.mod].path)
                if a is None:
                    run.ob("R-method", m.qual, f"{callee.split('.')[-1]}.{param}", False if (param in rec["missing"] and rec["complete"]) else None, f"`{param}` is not passed / not traceable", file=fm, node=rec["call"])
                    continue
                pr = priority(a)
                ok = None
                if pr is not None:
                    ok = pr[0] == "self.run_params.method" and all(x in ("self.run_params.method", "self.method") for x in pr)
                run.ob("R-method", m.qual, f"{callee.split('.')[-1]}.{param}", ok, f"`{astq.src(a, 70)}`: precedence {pr}" + ("" if ok else (" - the method chosen in the run parameters is not the one that is built" if ok is False else " - form not recognised")),
                       witness=str(pr), file=fm, node=rec["call"])
    if not nm_:
        run.ob("R-method", "pyoma2.algorithms", "callers", None, "no run() method calling the Hankel builder found")
    # ------------------------------------------------------------ bilinearity
    I = Interp(prog)
    fn = I.fn(FN)
    for m in ("cov_mm", "cov_R"):
        CTX.events.clear()
        r = I.call(fn, [D(2, gy=1), D(2, gr=1), Cst(10), Cst(m)])
        Hh = r.items[0] if isinstance(r, Tup) and r.items else r
        expect(run, prog, "O-bilinear", fn.qual, "H", Hh, dict(gy=1, gr=1), f"method={m}", allow_any=False)
        events_to_obligations(run, prog, "O-bilinear", f"method={m}")
    run.trusted |= set(CTX.used)


def seqdom_psubs(p_, name, val):
    from ..seqdom import psubs
    return psubs(p_, name, val)


M = "functions.ssi"
F = "build_hank"
MUTANTS = [
    ("C12-m01 future origin +1", M, F, "Y[:, q + 1 + i:N + q + i]", "Y[:, q + 2 + i:N + q + i + 1]", 1),
    ("C12-m02 past origin -1", M, F, "Yref[:, q + i:N + q - 1 + i]", "Yref[:, q + i - 1:N + q - 2 + i]", 1),
    ("C12-m03 one block row less", M, F, "range(p + 1)", "range(p)", 1),
    ("C12-m04 past length +1", M, F, "Yref[:, q + i:N + q - 1 + i]", "Yref[:, q + i:N + q + i]", 1),
    ("C12-m05 weight on one factor only", M, F, "1 / N ** 0.5 * Yref[:, q + i:N + q - 1 + i]", "1 / N * Yref[:, q + i:N + q - 1 + i]", 1),
    ("C12-m06 future from reference channels", M, F, "Y[:, q + 1 + i:N + q + i]", "Yref[:, q + 1 + i:N + q + i]", 1),
    ("C12-m07 cov_R lag direction", M, F, "np.dot(Y[:, :Ndat - k], Yref[:, k:].T)", "np.dot(Y[:, k:], Yref[:, :Ndat - k].T)"),
    ("C12-m08 cov_R biased weight", M, F, "1 / (Ndat - k)", "1 / Ndat"),
    ("C12-m09 Toeplitz ascending", M, F, "range(p + l_, l_ - 1, -1)", "range(l_, p + l_ + 1)"),
    ("C12-m10 Toeplitz off by one", M, F, "range(p + l_, l_ - 1, -1)", "range(p + l_ + 1, l_, -1)"),
    ("C12-m11 dat wrong split", M, F, "R21[n_ref * (p + 1):, :n_ref * (p + 1)]", "R21[n_ref * p:, :n_ref * p]"),
    ("C12-m12 dat stack order", M, F, "np.vstack((Yp, Yf))", "np.vstack((Yf, Yp))"),
    ("C12-m13 dat future origin (second site)", M, F, "Y[:, q + 1 + i:N + q + i]", "Y[:, q + i:N + q + i - 1]", 2),
    ("C12-m14 window beyond the record", M, F, "N = Ndat - p - q", "N = Ndat - p - q + 2"),
    ("C12-m15 past descending range broken", M, F, "range(0, -q, -1)", "range(0, q, 1)", 1),
    ("C12-m16 hankel not bilinear", M, F, "Hank = np.dot(Yf, Yp.T)", "Hank = np.dot(Yf, Yf[:Yp.shape[0]].T)"),
]
REWRITES = [
    ("C12-r01 dot -> @", M, F, "np.dot(Yf, Yp.T)", "Yf @ Yp.T"),
    ("rename:C12-r02 Yf->fut", M, F, "Yf", "future_rows"),
    ("rename:C12-r03 Ri->corr", M, F, "Ri", "corr_lags"),
    ("C12-r04 q inline", M, F, "q = int(p + 1)", "q = p + 1"),
    ("C12-r05 weight as division", M, F, "1 / (Ndat - k) * np.dot(Y[:, :Ndat - k], Yref[:, k:].T)", "np.dot(Y[:, :Ndat - k], Yref[:, k:].T) / (Ndat - k)"),
    ("C12-r06 temp for split", M, F, "Hank = R21[n_ref * (p + 1):, :n_ref * (p + 1)]", "nsplit = n_ref * (p + 1)\nHank = R21[nsplit:, :nsplit]"),
    ("C12-r07 trange -> range", M, F, "trange(p + q)", "range(p + q)"),
]
