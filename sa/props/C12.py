"""C12 - the SSI Hankel/Toeplitz matrix has the prescribed lag, channel and block layout.

Decided (structural, for all br, channel counts and record lengths at once, by polynomial identities over the slice bounds):
cov_mm / dat - block row i is a window of ALL channels starting at q+1+i, block column c a window of the REFERENCE channels starting
at q-c, both of the same length and the same weight, so entry (i, c) is a correlation at the single lag i+c+1 with uniform weights;
br+1 block rows and br+1 block columns; every window lies inside the record.  cov_R - R_k pairs Y[:, :Ndat-k] with Yref[:, k:]
(lag k, equal lengths, weight 1/length), Toeplitz block (i, c) holds k = br+i-c with 0 <= k <= 2br < number of lags computed.
dat - stacked [past; future], R-factor of the transposed stack, returned block = rows >= rows(past), columns < rows(past).
O-bilinear - H ~ g_Y * g_Yref for the covariance methods.  The expected lags come from the property statement.
Not decided: the Gram/projection identity as a numerical statement.
"""
import ast

from ..absint import Interp, CTX, Cst, D, Tup
from .. import hd, astq, symidx
from ..hd import expect, events_to_obligations
from ..program import rel, AnalysisError
from ..poly import P, P_div

FN = "functions.ssi.build_hank"
STACKS = {"numpy.vstack", "numpy.hstack", "numpy.array", "numpy.concatenate", "numpy.row_stack", "numpy.asarray"}


class Und(Exception):
    pass


def parse_blockstack(prog, pf, se, expr, posname):
    """np.vstack([factor * X[:, lo:hi] for v in range(..)]) -> dict(array, lo, hi, factor, count, kind) with v = start + step*pos"""
    x = astq.expand(pf, expr)
    if not (isinstance(x, ast.Call) and astq.callee_name(prog, pf, x) in STACKS and x.args and isinstance(x.args[0], (ast.ListComp, ast.GeneratorExp))):
        raise Und(f"`{astq.src(expr)}` is not a stack of a comprehension")
    comp = x.args[0]
    if len(comp.generators) != 1 or comp.generators[0].ifs or not isinstance(comp.generators[0].target, ast.Name):
        raise Und("comprehension with several generators / filters")
    g = comp.generators[0]
    rc = symidx.is_range(prog, pf, g.iter)
    if rc is None:
        raise Und(f"iteration `{astq.src(g.iter)}` is not a range")
    ra = symidx.range_args(se, rc)
    if ra is None:
        raise Und("range bounds not polynomial")
    start, stop, step = ra
    if not step.is_const() or step.const() not in (1, -1):
        raise Und("range step is not +-1")
    count = (stop - start) * step  # step = +-1
    var = g.target.id
    pos = P.s(posname)
    saved = se.env.get(var)
    se.env[var] = start + step * pos
    try:
        elt = comp.elt
        factor = P.c(1)
        sub = elt
        if isinstance(elt, ast.BinOp) and isinstance(elt.op, ast.Mult):
            for a, b in ((elt.left, elt.right), (elt.right, elt.left)):
                if isinstance(astq.expand(pf, b, stop={var}), ast.Subscript):
                    factor, sub = se.ev(a), b
                    break
        elif isinstance(elt, ast.BinOp) and isinstance(elt.op, ast.Div):
            d = se.ev(elt.right)
            factor = P_div(P.c(1), d) if d is not None else None
            sub = elt.left
        subx = astq.expand(pf, sub, stop={var})
        if not (isinstance(subx, ast.Subscript) and isinstance(subx.value, ast.Name)):
            raise Und(f"block `{astq.src(elt)}` is not a scaled window of an array")
        el = astq.index_elts(subx)
        if len(el) != 2 or not astq.is_full_slice(el[0]) or not isinstance(el[1], ast.Slice):
            raise Und(f"window `{astq.src(subx)}` is not of the form X[:, lo:hi]")
        b = symidx.slice_bounds(se, el[1], extent=P.s(f"{subx.value.id}.shape[1]"))
        if b is None or factor is None:
            raise Und(f"window bounds / factor of `{astq.src(elt)}` not polynomial")
        return {"array": subx.value.id, "lo": b[0], "hi": b[1], "factor": factor, "count": count, "kind": astq.callee_name(prog, pf, x),
                "node": x, "start": start, "step": step}
    finally:
        if saved is None:
            se.env.pop(var, None)
        else:
            se.env[var] = saved


def ret_first(pf):
    rets = pf.returns()
    if not rets:
        raise Und("no return on the path")
    v = rets[-1].value
    first = v.elts[0] if isinstance(v, ast.Tuple) and v.elts else v
    return astq.at(pf.stmts, rets[-1], first), rets[-1]


def is_T(e):
    return isinstance(e, ast.Attribute) and e.attr == "T"


def product_operands(prog, pf, e):
    """A @ B.T / np.dot(A, B.T) -> (A, B) ; raises Und otherwise"""
    x = astq.expand(pf, e)
    if isinstance(x, ast.BinOp) and isinstance(x.op, ast.MatMult):
        l, r = x.left, x.right
    elif isinstance(x, ast.Call) and astq.callee_name(prog, pf, x) in ("numpy.dot", "numpy.matmul") and len(x.args) == 2:
        l, r = x.args
    else:
        raise Und(f"`{astq.src(e)}` is not a matrix product")
    if not is_T(r):
        raise Und(f"second factor `{astq.src(r, 50)}` is not transposed")
    return l, r.value


def check(prog, run):
    run.rule("R-lag", "cov_mm/dat: lag(i, c) = origin_future(i) - origin_past(c) = i + c + 1, equal window lengths and weights, windows inside "
             "the record, future windows of ALL channels, past windows of the REFERENCE channels; cov_R: R_k has lag k, equal lengths, weight "
             "1/length, Toeplitz block (i, c) holds k = br + i - c within the lags computed", 20)
    run.rule("R-blocks", "br+1 block rows and br+1 block columns in every method", 6)
    run.rule("R-dat", "dat: stack [past; future], R-factor of its transpose, returned block rows >= rows(past), columns < rows(past)", 4)
    run.rule("O-bilinear", "H is bilinear in (Y, Yref) for cov_mm and cov_R", 2)
    fi = prog.func(FN)
    f = rel(prog.mods[fi.mod].path)
    pos, _, _, _ = astq.params_of(fi.node)
    pY, pR, pbr, pm = pos[0], pos[1], pos[2], pos[3]
    br = P.s(pbr)
    Ndat = P.s(f"{pY}.shape[1]")

    def ob(rule, role, ok, detail, witness="", node=None, config=""):
        run.ob(rule, fi.qual, role, ok, detail, witness=witness or detail[:80], file=f, node=node, config=config)

    # ------------------------------------------------------------ cov_mm and dat
    results = {}
    for method in ("cov_mm", "dat"):
        cfg = f"method={method}"
        try:
            pf = astq.PathFn(fi, {pm: method, "calc_unc": False})
            se = symidx.SymEval(prog, pf)
            H, rnode = ret_first(pf)
            if method == "cov_mm":
                A, B = product_operands(prog, pf, H)
                fut = parse_blockstack(prog, pf, se, A, "i")
                past = parse_blockstack(prog, pf, se, B, "c")
            else:
                fut, past, extra = dat_structure(prog, pf, se, H, run, fi, f, cfg, pR, br)
            results[method] = (fut, past)
            # which records
            ob("R-lag", "block rows are windows of all channels (first argument)", fut["array"] == pY, f"future windows taken from `{fut['array']}`", fut["array"], fut["node"], cfg)
            ob("R-lag", "block columns are windows of the reference channels (second argument)", past["array"] == pR, f"past windows taken from `{past['array']}`", past["array"], past["node"], cfg)
            lag = fut["lo"] - past["lo"]
            exp = P.s("i") + P.s("c") + 1
            ob("R-lag", "single lag i+c+1", lag == exp, f"lag(i,c) = {lag!r}", repr(lag), fut["node"], cfg)
            lf, lp = fut["hi"] - fut["lo"], past["hi"] - past["lo"]
            ob("R-lag", "equal window lengths (one lag per block, uniform weights)", lf == lp and "i" not in repr(lf) and "c" not in repr(lp),
               f"future length {lf!r}, past length {lp!r}", f"{lf!r} vs {lp!r}", fut["node"], cfg)
            ob("R-lag", "equal weights on both factors", fut["factor"] == past["factor"], f"factors {fut['factor']!r} and {past['factor']!r}",
               f"{fut['factor']!r} vs {past['factor']!r}", fut["node"], cfg)
            # weight * weight * length = 1 up to the -1 end effect: factor^2 * (length+1) == 1  (1/N with N-1 products is what the code uses; accept N or N-1)
            w2 = fut["factor"] * past["factor"]
            from ..poly import atom_of
            nb = atom_of(w2, -1)
            okw = any((w2 * (lf + d)) == P.c(1) for d in (0, 1)) or (nb is not None and any(nb == lf + d for d in (0, 1)))
            ob("R-lag", "weights average the products (1/N per product)", okw, f"weight product {w2!r} for {lf!r} products", repr(w2), fut["node"], cfg)
            ob("R-blocks", "block rows = br+1", fut["count"] == br + 1, f"{fut['count']!r} block rows", repr(fut["count"]), fut["node"], cfg)
            ob("R-blocks", "block columns = br+1", past["count"] == br + 1, f"{past['count']!r} block columns", repr(past["count"]), past["node"], cfg)
            # bounds: largest end <= Ndat ; smallest origin >= 0
            maxhi = fut["hi"].subs("i", fut["count"] - 1)
            minlo = past["lo"].subs("c", past["count"] - 1)
            d = Ndat - maxhi
            ob("R-lag", "future windows end inside the record", d.is_const() and d.const() >= 0, f"largest end {maxhi!r} vs record length {Ndat!r}", repr(maxhi), fut["node"], cfg)
            ob("R-lag", "past windows start inside the record", minlo.is_const() and minlo.const() >= 0, f"smallest origin {minlo!r}", repr(minlo), past["node"], cfg)
            minlo_f = fut["lo"].subs("i", P.c(0))
            ob("R-lag", "origins depend on the block index only through +i / -c", fut["lo"] - P.s("i") == minlo_f and past["lo"] + P.s("c") == past["lo"].subs("c", P.c(0)),
               f"future origin {fut['lo']!r}, past origin {past['lo']!r}", f"{fut['lo']!r};{past['lo']!r}", fut["node"], cfg)
        except Und as e:
            ob("R-lag", "structure", None, f"{cfg}: {e}", config=cfg)
    if "cov_mm" in results and "dat" in results:
        a, b = results["cov_mm"], results["dat"]
        same = all(a[k][x] == b[k][x] for k in (0, 1) for x in ("lo", "hi", "factor", "count", "array"))
        ob("R-dat", "future/past stacks identical to the cov_mm ones (sibling agreement)", same, "same origins, lengths, weights, counts" if same else "dat and cov_mm build different stacks",
           "differs", config="method=dat")
    # ------------------------------------------------------------ cov_R
    cfg = "method=cov_R"
    try:
        pf = astq.PathFn(fi, {pm: "cov_R", "calc_unc": False})
        se = symidx.SymEval(prog, pf)
        H, rnode = ret_first(pf)
        cov_r(prog, pf, se, H, ob, cfg, pY, pR, br, Ndat)
    except Und as e:
        ob("R-lag", "structure", None, f"{cfg}: {e}", config=cfg)
    # ------------------------------------------------------------ bilinearity
    I = Interp(prog)
    fn = I.fn(FN)
    for m in ("cov_mm", "cov_R"):
        CTX.events.clear()
        r = I.call(fn, [D(2, gy=1), D(2, gr=1), Cst(10), Cst(m)])
        H = r.items[0] if isinstance(r, Tup) and r.items else r
        expect(run, prog, "O-bilinear", fn.qual, "H", H, dict(gy=1, gr=1), f"method={m}", allow_any=False)
        events_to_obligations(run, prog, "O-bilinear", f"method={m}")
    run.trusted |= set(CTX.used)


def dat_structure(prog, pf, se, H, run, fi, f, cfg, pR, br):
    """H = R[lo:, :hi] with R = qr(Ys.T, mode='r').T, Ys = vstack((past, future))"""
    def ob(role, ok, detail, witness="", node=None):
        run.ob("R-dat", fi.qual, role, ok, detail, witness=witness or detail[:80], file=f, node=node, config=cfg)
    x = astq.expand(pf, H)
    if not isinstance(x, ast.Subscript):
        raise Und("returned matrix is not a block of an R factor")
    el = astq.index_elts(x)
    base = x.value
    transposed = False
    if is_T(base):
        transposed, base = True, base.value
    if not (isinstance(base, ast.Call) and astq.callee_name(prog, pf, base) in ("numpy.linalg.qr", "scipy.linalg.qr")):
        raise Und(f"`{astq.src(base, 60)}` is not a QR factorisation")
    mode = astq.kwarg(base, "mode")
    ob("R-factor only (mode='r'), transposed to lower-triangular", isinstance(mode, ast.Constant) and mode.value == "r" and transposed,
       f"qr(..., mode={astq.src(mode) if mode is not None else None}), transposed afterwards: {transposed}", node=base)
    arg = base.args[0]
    if not is_T(arg):
        raise Und("QR argument is not the transposed stack")
    st = astq.expand(pf, arg.value)
    if not (isinstance(st, ast.Call) and astq.callee_name(prog, pf, st) == "numpy.vstack" and st.args and isinstance(st.args[0], (ast.Tuple, ast.List)) and len(st.args[0].elts) == 2):
        raise Und("stack is not vstack((past, future))")
    first, second = st.args[0].elts
    s1 = parse_blockstack(prog, pf, se, first, "c")
    s2 = parse_blockstack(prog, pf, se, second, "i")
    ob("stack order [past(reference); future(all)]", s1["array"] == pR and s2["array"] != pR, f"first block from `{s1['array']}`, second from `{s2['array']}`",
       f"{s1['array']},{s2['array']}", node=st)
    rows_past = s1["count"] * P.s(f"{pR}.shape[0]")
    if len(el) != 2 or not all(isinstance(e, ast.Slice) for e in el):
        raise Und("returned block is not a two-dimensional slice")
    rlo = se.ev(el[0].lower) if el[0].lower is not None else P.c(0)
    chi = se.ev(el[1].upper) if el[1].upper is not None else None
    ok = rlo is not None and chi is not None and rlo == rows_past and chi == rows_past and el[0].upper is None and el[1].lower is None
    ob("returned block: rows >= rows(past), columns < rows(past)", ok, f"rows from {rlo!r}, columns up to {chi!r}, rows(past) = {rows_past!r}", f"{rlo!r};{chi!r}", node=x)
    return s2, s1, None


def cov_r(prog, pf, se, H, ob, cfg, pY, pR, br, Ndat):
    # H = vstack([hstack([Ri[k] for k in range(hi, lo, -1)]) for l in range(q)])
    x = astq.expand(pf, H)
    if not (isinstance(x, ast.Call) and astq.callee_name(prog, pf, x) == "numpy.vstack" and x.args and isinstance(x.args[0], (ast.ListComp, ast.GeneratorExp))):
        raise Und("Toeplitz matrix is not a vstack of a comprehension")
    outer = x.args[0]
    g_out = outer.generators[0]
    rc = symidx.is_range(prog, pf, g_out.iter)
    ra = symidx.range_args(se, rc) if rc is not None else None
    if ra is None or not isinstance(g_out.target, ast.Name):
        raise Und("outer range not recognised")
    rcount = (ra[1] - ra[0]) * ra[2]
    rowvar = g_out.target.id
    inner = outer.elt
    if not (isinstance(inner, ast.Call) and astq.callee_name(prog, pf, inner) == "numpy.hstack" and inner.args and isinstance(inner.args[0], (ast.ListComp, ast.GeneratorExp))):
        raise Und("block row is not an hstack of a comprehension")
    icomp = inner.args[0]
    g_in = icomp.generators[0]
    se.env[rowvar] = ra[0] + ra[2] * P.s("i")
    rc2 = symidx.is_range(prog, pf, g_in.iter)
    ra2 = symidx.range_args(se, rc2) if rc2 is not None else None
    if ra2 is None or not isinstance(g_in.target, ast.Name):
        raise Und("inner range not recognised")
    if not ra2[2].is_const() or ra2[2].const() not in (1, -1):
        raise Und("inner range step is not +-1")
    ccount = (ra2[1] - ra2[0]) * ra2[2]
    kexpr = ra2[0] + ra2[2] * P.s("c")
    # the element must be Ri[k] of the lag array
    elt = icomp.elt
    if not isinstance(elt, ast.Subscript):
        raise Und("Toeplitz block is not an element of the lag array")
    e0 = astq.index_elts(elt)[0]
    if not (isinstance(e0, ast.Name) and e0.id == g_in.target.id):
        raise Und("lag array not indexed with the inner loop variable")
    exp = br + P.s("i") - P.s("c")
    ob("R-lag", "Toeplitz block (i, c) holds lag br+i-c", kexpr == exp, f"k(i,c) = {kexpr!r}", repr(kexpr), elt, cfg)
    ob("R-blocks", "block rows = br+1", rcount == br + 1, f"{rcount!r} block rows", repr(rcount), x, cfg)
    ob("R-blocks", "block columns = br+1", ccount == br + 1, f"{ccount!r} block columns", repr(ccount), inner, cfg)
    # the lag array
    lagarr = elt.value
    if not (isinstance(lagarr, ast.Call) and astq.callee_name(prog, pf, lagarr) in STACKS and lagarr.args and isinstance(lagarr.args[0], (ast.ListComp, ast.GeneratorExp))):
        raise Und("lag array is not built by a comprehension")
    lc = lagarr.args[0]
    g = lc.generators[0]
    rc3 = symidx.is_range(prog, pf, g.iter)
    ra3 = symidx.range_args(se, rc3) if rc3 is not None else None
    if ra3 is None or not isinstance(g.target, ast.Name):
        raise Und("lag range not recognised")
    nlags = (ra3[1] - ra3[0]) * ra3[2]
    kv = g.target.id
    k = P.s("k")
    se.env[kv] = ra3[0] + ra3[2] * k
    body = lc.elt
    weight = P.c(1)
    prod = body
    if isinstance(body, ast.BinOp) and isinstance(body.op, ast.Mult):
        for a, b in ((body.left, body.right), (body.right, body.left)):
            if isinstance(b, (ast.Call, ast.BinOp)) and not isinstance(a, ast.Call):
                w = se.ev(a)
                if w is not None:
                    weight, prod = w, b
                    break
    elif isinstance(body, ast.BinOp) and isinstance(body.op, ast.Div):
        d = se.ev(body.right)
        weight = P_div(P.c(1), d) if d is not None else None
        prod = body.left
    A, B = product_operands(prog, pf, prod)
    def window(e):
        if not (isinstance(e, ast.Subscript) and isinstance(e.value, ast.Name)):
            raise Und(f"`{astq.src(e)}` is not a window of a record")
        el = astq.index_elts(e)
        if len(el) != 2 or not astq.is_full_slice(el[0]):
            raise Und(f"`{astq.src(e)}` is not of the form X[:, lo:hi]")
        b = symidx.slice_bounds(se, el[1], extent=Ndat)
        if b is None:
            raise Und("window bounds not polynomial")
        return e.value.id, b[0], b[1]
    an, alo, ahi = window(A)
    bn, blo, bhi = window(B)
    ob("R-lag", "R_k: first factor from all channels, second from the reference channels", an == pY and bn == pR, f"R_k = {an}[..] . {bn}[..]^T", f"{an},{bn}", lc, cfg)
    lag = blo - alo
    ob("R-lag", "R_k has lag k (reference record shifted forward)", lag == k, f"lag = {lag!r}", repr(lag), lc, cfg)
    la, lb = ahi - alo, bhi - blo
    ob("R-lag", "R_k: equal window lengths", la == lb, f"lengths {la!r} and {lb!r}", f"{la!r} vs {lb!r}", lc, cfg)
    from ..poly import atom_of
    okw = weight is not None and ((weight * la) == P.c(1) or (atom_of(weight, -1) is not None and atom_of(weight, -1) == la))
    ob("R-lag", "R_k: weight = 1/number of products (uniform mean)", okw, f"weight {weight!r} for {la!r} products", repr(weight), lc, cfg)
    ob("R-lag", "lags start at 0", ra3[0] == P.c(0) and ra3[2] == P.c(1), f"k runs from {ra3[0]!r} step {ra3[2]!r}", repr(ra3[0]), lc, cfg)
    kmax = kexpr.subs("i", rcount - 1).subs("c", P.c(0))
    kmin = kexpr.subs("i", P.c(0)).subs("c", ccount - 1)
    d = nlags - 1 - kmax
    ob("R-lag", "largest lag used is computed", d.is_const() and d.const() >= 0, f"max k = {kmax!r}, lags computed = {nlags!r}", f"{kmax!r}/{nlags!r}", lc, cfg)
    ob("R-lag", "smallest lag used is >= 0", kmin.is_const() and kmin.const() >= 0, f"min k = {kmin!r}", repr(kmin), lc, cfg)


M = "functions.ssi"
F = "build_hank"
MUTANTS = [
    ("C12-m01 future origin +1", M, F, "Y[:, q + 1 + i:N + q + i]", "Y[:, q + 2 + i:N + q + i + 1]", 1),
    ("C12-m02 past origin -1", M, F, "Yref[:, q + i:N + q - 1 + i]", "Yref[:, q + i - 1:N + q - 2 + i]", 1),
    ("C12-m03 one block row less", M, F, "range(p + 1)", "range(p)", 1),
    ("C12-m04 past length +1", M, F, "Yref[:, q + i:N + q - 1 + i]", "Yref[:, q + i:N + q + i]", 1),
    ("C12-m05 weight on one factor only", M, F, "1 / N ** 0.5 * Yref[:, q + i:N + q - 1 + i]", "1 / N * Yref[:, q + i:N + q - 1 + i]", 1),
    ("C12-m06 future from reference channels", M, F, "Y[:, q + 1 + i:N + q + i]", "Yref[:, q + 1 + i:N + q + i]", 1),
    ("C12-m07 cov_R lag direction", M, F, "np.dot(Y[:, :Ndat - k], Yref[:, k:].T)", "np.dot(Y[:, k:], Yref[:, :Ndat - k].T)"),
    ("C12-m08 cov_R biased weight", M, F, "1 / (Ndat - k)", "1 / Ndat"),
    ("C12-m09 Toeplitz ascending", M, F, "range(p + l_, l_ - 1, -1)", "range(l_, p + l_ + 1)"),
    ("C12-m10 Toeplitz off by one", M, F, "range(p + l_, l_ - 1, -1)", "range(p + l_ + 1, l_, -1)"),
    ("C12-m11 dat wrong split", M, F, "R21[n_ref * (p + 1):, :n_ref * (p + 1)]", "R21[n_ref * p:, :n_ref * p]"),
    ("C12-m12 dat stack order", M, F, "np.vstack((Yp, Yf))", "np.vstack((Yf, Yp))"),
    ("C12-m13 dat future origin (second site)", M, F, "Y[:, q + 1 + i:N + q + i]", "Y[:, q + i:N + q + i - 1]", 2),
    ("C12-m14 window beyond the record", M, F, "N = Ndat - p - q", "N = Ndat - p - q + 2"),
    ("C12-m15 past descending range broken", M, F, "range(0, -q, -1)", "range(0, q, 1)", 1),
    ("C12-m16 hankel not bilinear", M, F, "Hank = np.dot(Yf, Yp.T)", "Hank = np.dot(Yf, Yf[:Yp.shape[0]].T)"),
]
REWRITES = [
    ("C12-r01 dot -> @", M, F, "np.dot(Yf, Yp.T)", "Yf @ Yp.T"),
    ("rename:C12-r02 Yf->fut", M, F, "Yf", "future_rows"),
    ("rename:C12-r03 Ri->corr", M, F, "Ri", "corr_lags"),
    ("C12-r04 q inline", M, F, "q = int(p + 1)", "q = p + 1"),
    ("C12-r05 weight as division", M, F, "1 / (Ndat - k) * np.dot(Y[:, :Ndat - k], Yref[:, k:].T)", "np.dot(Y[:, :Ndat - k], Yref[:, k:].T) / (Ndat - k)"),
    ("C12-r06 temp for split", M, F, "Hank = R21[n_ref * (p + 1):, :n_ref * (p + 1)]", "nsplit = n_ref * (p + 1)\nHank = R21[nsplit:, :nsplit]"),
    ("C12-r07 trange -> range", M, F, "trange(p + q)", "range(p + q)"),
]
