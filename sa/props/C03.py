"""C03 - PreGER multi-setup SSI.

Decided (structural): O-gain - with setup 0 recorded at gain g0 and every other setup at gk, the global
observability matrix assembled by SSI_multi_setup is homogeneous in g0 alone (re-basing on the first
setup's reference block), the state matrices have degree 0, hence Fn ~ 1/s, Xi ~ 1, Phi ~ 1 through SSI_poles:
'independent of the per-setup amplitudes'.  R-interleave / R-split: index maps of the reference/roving split and of the
block-interleaved assembly (sa/symidx.py, sa/seqsig.py).  Not decided: exact identification, conditioning.
"""
from ..absint import Interp, CTX, Cst, Lst, Dct, D, Obj, SCAL, num, Deg, Tup
from .. import hd
from ..hd import HZ, SEC, expect, events_to_obligations

FN = "functions.ssi.SSI_multi_setup"


def check(prog, run):
    run.rule("O-gain", "SSI_multi_setup(Y[setup0 ~ g0, setups>=1 ~ gk]): Obs_all homogeneous in g0 only (gk exponent 0), A of degree 0; "
             "SSI_poles on it gives Fn ~ 1/s, Xi ~ 1, Phi ~ 1", 12)
    run.rule("O-hom", "no degree-mixing sum / non-homogeneous inverse / scale-dependent decision in SSI_multi_setup and its callees", 1)
    run.assume("positive gains; pinv/inv/qr/svd transfer entries as in the trusted base")
    I = Interp(prog)
    fn = I.fn(FN)
    poles = I.fn("functions.ssi.SSI_poles")
    seen = set()
    expdeg = {"cov_mm": dict(g0=1), "cov_R": dict(g0=1), "dat": dict(g0="1/2")}
    for m in ("cov_mm", "cov_R", "dat"):
        CTX.events.clear()
        Y = hd.ms_data("g0", "gk")
        r = I.call(fn, [Y, HZ, Cst(10), Cst(20), Cst(m)])
        cfg = f"method_hank={m}"
        if not isinstance(r, Tup) or len(r.items) != 3:
            run.ob("O-gain", fn.qual, "return", None, f"unexpected return value {r!r}"[:160], config=cfg)
            continue
        Obs, A, C = r.items
        from fractions import Fraction
        e = {k: Fraction(v) for k, v in expdeg[m].items()}
        expect(run, prog, "O-gain", fn.qual, "Obs_all", Obs, e, cfg, allow_any=False)
        expect(run, prog, "O-gain", fn.qual, "A[n]", hd_elem(A), {}, cfg, allow_any=False)
        expect(run, prog, "O-gain", fn.qual, "C[n]", hd_elem(C), e, cfg, allow_any=False)
        r2 = I.call(poles, [Obs, A, C, Cst(20), SEC])
        if isinstance(r2, Tup) and len(r2.items) >= 4:
            for name, val, ex in (("Fn", r2.items[0], dict(s=-1)), ("Xi", r2.items[1], {}), ("Phi", r2.items[2], {})):
                expect(run, prog, "O-gain", poles.qual, name, val, ex, cfg, allow_any=False)
        else:
            run.ob("O-gain", poles.qual, "return", None, f"unexpected return value {r2!r}"[:160], config=cfg)
        events_to_obligations(run, prog, "O-hom", cfg, seen=seen)
    if not any(o.rule == "O-hom" for o in run.obs):
        run.ob("O-hom", fn.qual, "all-operations", True, "no event on any Hankel method")
    run.trusted |= set(CTX.used)
    try:
        from .. import symidx
    except ImportError:
        symidx = None
    if symidx and hasattr(symidx, "c03_interleave"):
        symidx.c03_interleave(prog, run)
    try:
        from .. import seqsig
    except ImportError:
        seqsig = None
    if seqsig:
        run.rule("R-order", "reference/roving split: references in listed order, roving channels ascending; global rows = references, then each "
                 "setup's roving rows in setup order", 2)
        seqsig.order_obligations(prog, run, "R-order", which=("pre", "ssi_ms"))


def hd_elem(v):
    from ..absint import elem
    return elem(v) if isinstance(v, (Lst, Tup)) else v
