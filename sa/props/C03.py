"""C03 - PreGER multi-setup SSI.

Decided (structural): O-gain - with setup 0 recorded at gain g0 and every other setup at gk, the global
observability matrix assembled by SSI_multi_setup is homogeneous in g0 alone (re-basing on the first
setup's reference block), the state matrices have degree 0, hence Fn ~ 1/s, Xi ~ 1, Phi ~ 1 through SSI_poles:
'independent of the per-setup amplitudes'.  R-interleave / R-split: index maps of the reference/roving split and of the
block-interleaved assembly (sa/symidx.py, sa/seqsig.py).  Not decided: exact identification, conditioning.
"""
from ..absint import Interp, CTX, Cst, Lst, Dct, D, Obj, SCAL, num, Deg, Tup
from .. import hd
from ..hd import HZ, SEC, expect, events_to_obligations

FN = "functions.ssi.SSI_multi_setup"


def check(prog, run):
    astq.shortcut_obligations(prog, run, ["functions.gen.pre_multisetup", "functions.ssi.SSI_multi_setup"])
    run.rule("O-gain", "SSI_multi_setup(Y[setup0 ~ g0, setups>=1 ~ gk]): Obs_all homogeneous in g0 only (gk exponent 0), A of degree 0; "
             "SSI_poles on it gives Fn ~ 1/s, Xi ~ 1, Phi ~ 1", 12)
    run.rule("O-hom", "no degree-mixing sum / non-homogeneous inverse / scale-dependent decision in SSI_multi_setup and its callees", 1)
    run.assume("positive gains; pinv/inv/qr/svd transfer entries as in the trusted base")
    I = Interp(prog)
    fn = I.fn(FN)
    poles = I.fn("functions.ssi.SSI_poles")
    seen = set()
    expdeg = {"cov_mm": dict(g0=1), "cov_R": dict(g0=1), "dat": dict(g0="1/2")}
    for m in ("cov_mm", "cov_R", "dat"):
        CTX.events.clear()
        Y = hd.ms_data("g0", "gk")
        r = I.call(fn, [Y, HZ, Cst(10), Cst(20), Cst(m)])
        cfg = f"method_hank={m}"
        if not isinstance(r, Tup) or len(r.items) != 3:
            run.ob("O-gain", fn.qual, "return", None, f"unexpected return value {r!r}"[:160], config=cfg)
            continue
        Obs, A, C = r.items
        from fractions import Fraction
        e = {k: Fraction(v) for k, v in expdeg[m].items()}
        expect(run, prog, "O-gain", fn.qual, "Obs_all", Obs, e, cfg, allow_any=False)
        expect(run, prog, "O-gain", fn.qual, "A[n]", hd_elem(A), {}, cfg, allow_any=False)
        expect(run, prog, "O-gain", fn.qual, "C[n]", hd_elem(C), e, cfg, allow_any=False)
        r2 = I.call(poles, [Obs, A, C, Cst(20), SEC])
        if isinstance(r2, Tup) and len(r2.items) >= 4:
            for name, val, ex in (("Fn", r2.items[0], dict(s=-1)), ("Xi", r2.items[1], {}), ("Phi", r2.items[2], {})):
                expect(run, prog, "O-gain", poles.qual, name, val, ex, cfg, allow_any=False)
        else:
            run.ob("O-gain", poles.qual, "return", None, f"unexpected return value {r2!r}"[:160], config=cfg)
        events_to_obligations(run, prog, "O-hom", cfg, seen=seen)
    if not any(o.rule == "O-hom" for o in run.obs):
        run.ob("O-hom", fn.qual, "all-operations", True, "no event on any Hankel method")
    run.trusted |= set(CTX.used)
    interleave(prog, run)
    try:
        from .. import seqsig
    except ImportError:
        seqsig = None
    if seqsig:
        run.rule("R-order", "reference/roving split: references in listed order, roving channels ascending; global rows = references, then each "
                 "setup's roving rows in setup order", 2)
        seqsig.order_obligations(prog, run, "R-order", which=("pre", "ssi_ms", "reflists", "split_current"))


def hd_elem(v):
    from ..absint import elem
    return elem(v) if isinstance(v, (Lst, Tup)) else v


# ----------------------------------------------------------------------------- R-interleave
import ast  # noqa: E402
from .. import astq, symidx  # noqa: E402
from ..program import rel  # noqa: E402
from ..poly import P  # noqa: E402


def _index_map(prog, fi, se, x):
    """np.array([np.arange(NB) * W + j for j in range(a, b)]).flatten(order=O) -> dict(NB, W, a, b, order)"""
    if not (isinstance(x, ast.Call) and isinstance(x.func, ast.Attribute) and x.func.attr in ("flatten", "ravel", "reshape")):
        return None
    o = astq.kwarg(x, "order", 0 if x.func.attr != "reshape" else None)
    order = o.value.upper() if isinstance(o, ast.Constant) and isinstance(o.value, str) else "C"
    inner = x.func.value
    if not (isinstance(inner, ast.Call) and astq.callee_name(prog, fi, inner) in ("numpy.array", "numpy.asarray", "numpy.vstack") and inner.args and isinstance(inner.args[0], ast.ListComp)):
        return None
    lc = inner.args[0]
    g = lc.generators[0]
    rc = symidx.is_range(prog, fi, g.iter)
    ra = symidx.range_args(se, rc) if rc is not None else None
    if ra is None or not isinstance(g.target, ast.Name):
        return None
    e = lc.elt
    # arange(NB) * W + j
    if not (isinstance(e, ast.BinOp) and isinstance(e.op, ast.Add)):
        return None
    for a, b in ((e.left, e.right), (e.right, e.left)):
        if isinstance(b, ast.Name) and b.id == g.target.id and isinstance(a, ast.BinOp) and isinstance(a.op, ast.Mult):
            for u, v in ((a.left, a.right), (a.right, a.left)):
                if isinstance(u, ast.Call) and astq.callee_name(prog, fi, u) == "numpy.arange" and len(u.args) == 1:
                    return {"NB": se.ev(u.args[0]), "W": se.ev(v), "a": ra[0], "b": ra[1], "order": order, "node": x}
    return None


def _index_map_lam(prog, fi, se, x):
    """the same facts for ANY spelling of the index vector (outer sums, broadcasting, reshape / ravel ...), from the index-level model
    (sa/lamdom.py): the vector must be the row-major walk of a (block, channel) grid with entry  block * W + channel"""
    from .. import lamdom
    from ..seqdom import psubs
    import copy as _copy
    # extents of arrays (`X.shape[k]`, `len(X)`) are scalars of this analysis: replaced by symbols, evaluated by the polynomial evaluator
    shp_env = {}

    class _Sh(ast.NodeTransformer):
        def visit_Subscript(self_, node):
            if isinstance(node.value, ast.Attribute) and node.value.attr == "shape" and isinstance(node.slice, ast.Constant):
                v_ = se.ev(node)
                if v_ is not None:
                    nm_ = f"shp{len(shp_env)}_"
                    shp_env[nm_] = v_
                    return ast.Name(id=nm_, ctx=ast.Load())
            return self_.generic_visit(node)
    x_orig = x
    x = _Sh().visit(_copy.deepcopy(x))
    it = lamdom.Interp(prog, fi)
    for nm in {n.id for n in ast.walk(x) if isinstance(n, ast.Name)}:
        if nm not in ("np", "numpy"):
            it.env[nm] = lamdom.scal(ast.Name(id=nm, ctx=ast.Load()))
    # names that are subscripted (n_mov[kk]) are scalars once indexed
    for sub in ast.walk(x):
        if isinstance(sub, ast.Subscript) and isinstance(sub.value, ast.Name) and sub.value.id in it.env:
            it.env[sub.value.id] = lamdom.Tab(sub.value.id, 1)
    v = it.ev(x)
    v = it.as_lam(v) if v is not None else None
    if v is None or len(v.dims) != 1 or not v.dims[0].parts or len(v.dims[0].parts) != 2:
        return None
    parts = v.dims[0].parts
    if any(p_.var is None or p_.parts or p_.filt or p_.extent is None for p_ in parts):
        return None
    se2 = symidx.SymEval(prog, fi, env=shp_env, stop=set(se.stop))
    poly = se2.ev(v.body)
    exts = [se2.ev(p_.extent) for p_ in parts]
    if poly is None or any(e_ is None for e_ in exts):
        return None
    coef = []
    for p_ in parts:
        d = psubs(poly, p_.var, P.s(p_.var) + 1) - poly
        if any(q_.var in repr(d) for q_ in parts):
            return None         # not affine in the grid indices
        coef.append(d)
    base = poly
    for p_ in parts:
        base = psubs(base, p_.var, P.c(0))
    chan = [k for k, c_ in enumerate(coef) if c_ == P.c(1)]
    if len(chan) != 1:
        return None
    ck = chan[0]
    bk = 1 - ck
    # block-major walk (block index outer) is what flatten(order='F') of the [channel][block] table gives
    return {"NB": exts[bk], "W": coef[bk], "a": base, "b": base + exts[ck], "order": "F" if bk == 0 else "C", "node": x_orig}


KEEP = ("n_mov", "n_ref")


def interleave(prog, run):
    run.rule("R-interleave", "per-setup observability rows are split block-major (stride = channels of the setup, column-major flatten) into reference / roving parts, "
             "re-based with O_mov . pinv(O_ref) . O1_ref, and assembled block by block at ii*n_DOF + [0, n_ref), then each setup's n_mov rows contiguously", 10)
    fi = astq.IndexedFn(prog.func(FN))      # zip / enumerate loops as index loops
    # the two counts the index arithmetic is written in are known by what they ARE, whatever they are called: the number of reference
    # channels (`<data>[0]["ref"].shape[0]`) and the list of roving-channel counts (`[<data>[i]["mov"].shape[0] for i ..]`)
    ren = {}
    for a_ in ast.walk(fi.node):
        if isinstance(a_, ast.Assign) and len(a_.targets) == 1 and isinstance(a_.targets[0], ast.Name):
            def ext0(e_):
                """text of X when e_ is the first extent of X: X.shape[0], len(X), np.shape(X)[0]"""
                if isinstance(e_, ast.Subscript) and isinstance(e_.slice, ast.Constant) and e_.slice.value == 0:
                    if isinstance(e_.value, ast.Attribute) and e_.value.attr == "shape":
                        return astq.src(e_.value.value, 200).replace('"', "'")
                    if isinstance(e_.value, ast.Call) and astq.src(e_.value.func).split(".")[-1] == "shape" and len(e_.value.args) == 1:
                        return astq.src(e_.value.args[0], 200).replace('"', "'")
                if isinstance(e_, ast.Call) and astq.src(e_.func) == "len" and len(e_.args) == 1:
                    return astq.src(e_.args[0], 200).replace('"', "'")
                return None
            x0 = ext0(a_.value)
            if x0 is not None and x0.endswith("[0]['ref']") and a_.targets[0].id != "n_ref":
                ren[a_.targets[0].id] = "n_ref"
            elif isinstance(a_.value, ast.ListComp) and (ext0(a_.value.elt) or "").endswith("['mov']") and a_.targets[0].id != "n_mov":
                ren[a_.targets[0].id] = "n_mov"
    if ren and not ({"n_ref", "n_mov"} & {x_.id for x_ in ast.walk(fi.node) if isinstance(x_, ast.Name)} - set(ren.values()) - {"n_ref", "n_mov"}):
        class _R(ast.NodeTransformer):
            def visit_Name(self, x_):
                return ast.copy_location(ast.Name(id=ren[x_.id], ctx=x_.ctx), x_) if x_.id in ren else x_
        import copy as _copy
        fi.node = ast.fix_missing_locations(_R().visit(_copy.deepcopy(fi.node)))
    f = rel(prog.mods[fi.mod].path)
    se = symidx.SymEval(prog, fi, stop={"n_mov", "n_ref"})
    pos, _, _, _ = astq.params_of(fi.node)
    br = P.s(pos[2])

    def ob(role, ok, detail, node=None):
        run.ob("R-interleave", fi.qual, role, ok, detail, witness=detail[:90], file=f, node=node)
    # the two fancy-index reads Obs[ref_id, :] / Obs[mov_id, :]
    maps = []
    cands = []
    for n in ast.walk(fi.node):
        if isinstance(n, ast.Assign) and isinstance(n.value, ast.Subscript) and len(astq.index_elts(n.value)) == 2 and astq.is_full_slice(astq.index_elts(n.value)[1]):
            cands.append((n, astq.index_elts(n.value)[0], n.targets[0]))
        elif isinstance(n, ast.Assign) and len(n.targets) == 1 and isinstance(n.targets[0], (ast.Tuple, ast.List)) and isinstance(n.value, ast.Call):
            # O_ref, O_mov = helper(Obs, ...): the reads sit in the helper - take them from its inlined return
            for k_, t_ in enumerate(n.targets[0].elts):
                x_ = astq.expr_at(fi, n, ast.Subscript(value=n.value, slice=ast.Constant(value=k_), ctx=ast.Load()), keep=KEEP)
                if isinstance(x_, ast.Subscript) and len(astq.index_elts(x_)) == 2 and astq.is_full_slice(astq.index_elts(x_)[1]) \
                        and not isinstance(astq.index_elts(x_)[0], (ast.Slice, ast.Constant)):
                    cands.append((n, astq.index_elts(x_)[0], t_))
    for n, idx0, tgt_ in cands:
        if True:
            idx = astq.expr_at(fi, n, idx0, keep=KEEP)
            m = _index_map(prog, fi, se, idx)
            if m is None and not isinstance(idx, (ast.Slice, ast.Constant)):
                try:
                    m = _index_map_lam(prog, fi, se, idx)
                except Exception:
                    m = None
            if m is not None:
                m["target"] = tgt_.id if isinstance(tgt_, ast.Name) else None
                m["stmt"] = n
                maps.append(m)
    if len(maps) != 2:
        ob("reference / roving index maps", None, f"{len(maps)} index maps of the form array([arange(br)*w + j ...]).flatten() found (2 expected)")
        return
    maps.sort(key=lambda m: repr(m["a"]))
    refm, movm = (maps[0], maps[1]) if maps[0]["a"] == P.c(0) else (maps[1], maps[0])
    n_ref = refm["b"]
    r_sym = se.ev(ast.parse("Y_all.shape[0]", mode="eval").body)
    for nm, m in (("reference", refm), ("roving", movm)):
        ob(f"{nm} map: column-major flatten (block-major row order)", m["order"] == "F", f"flatten(order='{m['order']}')", m["node"])
        ob(f"{nm} map: one index per block row used (br blocks)", m["NB"] is not None and m["NB"] == br, f"arange({m['NB']!r})", m["node"])
        wtxt = repr(m["W"]).replace(" ", "")
        pm_ = astq.parent_map(fi.node)
        lp_ = astq.enclosing(pm_, m["stmt"], (ast.For,))
        kkv = lp_.target.id if lp_ is not None and isinstance(lp_.target, ast.Name) else None
        okw = None
        if m["W"] is not None:
            rest_ = m["W"] - P.s("n_ref")
            okw = (r_sym is not None and m["W"] == r_sym) or (kkv is not None and repr(rest_).replace(" ", "") == f"n_mov[{kkv}]")
            if not okw and not ("n_mov[" in repr(rest_) or rest_.is_const() or rest_ == P()):
                okw = None        # stride not expressed through n_ref / n_mov at all: not recognised
        ob(f"{nm} map: stride = channels of this setup (n_ref + n_mov[k])", okw, f"stride {m['W']!r}", m["node"])
    ob("reference channels = [0, n_ref)", refm["a"] == P.c(0) and refm["b"] == P.s("n_ref"), f"range({refm['a']!r}, {refm['b']!r})", refm["node"])
    def _one_extent(p_):
        """p_ is ONE symbol, the first extent of something (`<stack>.shape[0]`), not an expression that merely contains one"""
        return len(p_.t) == 1 and all(v_ == 1 and len(k_) == 1 and k_[0][1] == 1 and k_[0][0].endswith(".shape[0]") for k_, v_ in p_.t.items())
    okm = movm["a"] == refm["b"] and (movm["b"] == r_sym or _one_extent(movm["b"]))
    if not okm and movm["a"] == refm["b"] and "shape[0]" in repr(movm["b"]):
        okm = None      # an expression in an extent: not read
    if not okm and movm["a"] == refm["b"] and ("shp" in repr(movm["b"]) or "floor" in repr(movm["b"])):
        okm = None      # the upper end is an extent this rule cannot relate to the channel count of the setup: not recognised
    ob("roving channels = [n_ref, r): the two maps partition the channels", okm, f"range({movm['a']!r}, {movm['b']!r})", movm["node"])
    # re-basing
    apps = [n for n in ast.walk(fi.node) if isinstance(n, ast.Call) and isinstance(n.func, ast.Attribute) and n.func.attr == "append" and len(n.args) == 1]
    reb = None
    for a in apps:
        x = astq.expr_at(fi, a, a.args[0], keep=KEEP)
        nf = astq.matnf(prog, fi, x)
        if nf is not None and len(nf) == 3 and any(i for _, i, _ in nf):
            reb = (a, nf)
    if reb is None:
        ob("re-basing O_mov . pinv(O_ref) . O1_ref", None, "appended re-based roving block not found / not a product with one inverse")
    else:
        a, nf = reb
        def which(x):
            t = astq.src(x, 2000)
            # identify by the index map used
            for nm, m in (("REF", refm), ("MOV", movm)):
                if astq.src(m["node"], 2000) in t:
                    return nm
            return astq.src(x, 30)
        sig = [(which(x) if not isinstance(x, ast.Name) else x.id, i, t) for x, i, t in nf]
        first_basis = isinstance(nf[2][0], ast.Name)
        okn = sig[0][0] == "MOV" and not sig[0][1] and sig[1][0] == "REF" and sig[1][1] and not sig[1][2] and first_basis and not sig[2][1]
        pretty = " . ".join(f"{r}{'^-1' if i else ''}{'^T' if t else ''}" for r, i, t in sig)
        ob("re-basing = O_mov . pinv(O_ref) . O_ref(first setup)", okn, f"normal form: {pretty}", a)
        if first_basis:
            bname = nf[2][0].id
            asg = [n for n in ast.walk(fi.node) if isinstance(n, ast.Assign) and isinstance(n.targets[0], ast.Name) and n.targets[0].id == bname]
            pm = astq.parent_map(fi.node)
            okb = False
            if len(asg) == 1:
                g = astq.enclosing(pm, asg[0], (ast.If,))
                vx = astq.expr_at(fi, asg[0], asg[0].value, keep=KEEP)
                lpb = astq.enclosing(pm, asg[0], (ast.For,))
                kb = lpb.target.id if lpb is not None and isinstance(lpb.target, ast.Name) else "kk"
                okb = g is not None and astq.src(g.test).replace(" ", "") in (f"{kb}==0", f"0=={kb}") and astq.src(refm["node"], 2000) in astq.src(vx, 3000)
            ob("basis = reference part of the FIRST setup only", okb, f"`{bname}` assigned under `{astq.src(g.test) if asg and g is not None else '?'}`" if asg else "basis assignment not found", asg[0] if asg else None)
    # assembly stores into the global matrix
    rets = [n for n in ast.walk(fi.node) if isinstance(n, ast.Return) and isinstance(n.value, ast.Tuple)]
    gname = rets[-1].value.elts[0].id if rets and isinstance(rets[-1].value.elts[0], ast.Name) else None
    stores = [n for n in ast.walk(fi.node) if isinstance(n, ast.Assign) and isinstance(n.targets[0], ast.Subscript) and isinstance(n.targets[0].value, ast.Name) and n.targets[0].value.id == gname]
    if len(stores) != 2:
        ob("assembly stores", None, f"{len(stores)} stores into the global observability matrix (2 expected)")
        return
    pm = astq.parent_map(fi.node)
    outer = astq.enclosing(pm, stores[0], (ast.For,))
    ii = outer.target.id if outer is not None and isinstance(outer.target, ast.Name) else None
    ra = symidx.range_args(se, symidx.is_range(prog, fi, outer.iter)) if outer is not None and symidx.is_range(prog, fi, outer.iter) is not None else None
    ob("assembly runs over the same br blocks", ra is not None and ra[0] == P.c(0) and ra[1] == br, f"range({', '.join(map(repr, ra)) if ra else '?'})", outer)
    n_dof = None
    ref_end = None
    for st in stores:
        tgt = st.targets[0]
        el = astq.index_elts(tgt)
        sl = astq.expr_at(fi, st, ast.Tuple(elts=[el[0].lower, el[0].upper], ctx=ast.Load()), keep=KEEP)
        lo, hi = se.ev(sl.elts[0]), se.ev(sl.elts[1])
        src = astq.expr_at(fi, st, st.value, keep=KEEP)
        sel = astq.index_elts(src)[0] if isinstance(src, ast.Subscript) else None
        if lo is None or hi is None or not isinstance(sel, ast.Slice):
            ob("assembly store", None, f"`{astq.src(st, 80)}` not of the form G[a:b, :] = X[c:d, :]", st)
            continue
        slo, shi = se.ev(sel.lower), se.ev(sel.upper)
        inner = astq.enclosing(pm, st, (ast.For,))
        if inner is outer:
            # reference rows of block ii
            n_dof_expr = lo
            ref_end = hi
            okpos = ii is not None and "n_mov" in repr(lo) and all(any(sn == ii for sn, e in k) for k in lo.t) and (hi - lo) == n_ref
            oksrc = slo is not None and shi is not None and slo == P.s(ii) * n_ref and (shi - slo) == n_ref
            ob("block ii: reference rows at ii*n_DOF + [0, n_ref), taken from block ii of the first setup's reference part", okpos and oksrc,
               f"target [{lo!r} : {hi!r}], source [{slo!r} : {shi!r}]", st)
        else:
            jj = inner.target.id if isinstance(inner.target, ast.Name) else None
            length = hi - lo
            ltxt = repr(length).replace(" ", "")
            okl = jj is not None and ltxt == f"n_mov[{jj}]"
            if not okl and "n_mov" not in ltxt:
                okl = None if not length.is_const() else False
            oksrc = None
            if slo is not None and shi is not None:
                oksrc = (shi - slo) == length and repr(slo).replace(" ", "") in (f"{ii}*n_mov[{jj}]", f"n_mov[{jj}]*{ii}")
            # contiguity: the start is the previous end - either a loop-carried running offset, or the end of the reference rows plus
            # the prefix sum of the roving counts of the earlier setups
            env = astq.env_at(fi.node.body, st)
            lo_e = el[0].lower
            hi_e = el[0].upper
            contiguous = None
            if isinstance(lo_e, ast.Name) and isinstance(hi_e, ast.Name) and lo_e.id in env and isinstance(env[lo_e.id], ast.Name):
                contiguous = env[lo_e.id].id == hi_e.id
            elif jj is not None and not any(jj == sn or f",{jj}]" in sn or f"[{jj}]" in sn for k in lo.t for sn, e in k):
                contiguous = False         # the start does not depend on the setup at all: every setup is written to the same rows
            elif jj is not None and ref_end is not None:
                ps = P.s(f"psum[n_mov,{jj}]")
                rest = lo - ps
                if not any(jj == sn or f",{jj}]" in sn or f"[{jj}]" in sn for k in rest.t for sn, e in k):
                    contiguous = rest == ref_end
            vals = [okl, oksrc, contiguous]
            allok = False if any(v is False for v in vals) else (None if any(v is None for v in vals) else True)
            ob("block ii: each setup's roving rows follow contiguously (length n_mov[jj], source = block ii of that setup's re-based part)", allok,
               f"target [{lo!r} : +{length!r}], source [{slo!r} : {shi!r}], length ok: {okl}, source ok: {oksrc}, start = previous end: {contiguous}", st)
            srcbase = src.value if isinstance(src, ast.Subscript) else None
            oks = None
            if isinstance(srcbase, ast.Subscript) and not isinstance(srcbase.slice, (ast.Slice, ast.Tuple)):
                oks = isinstance(srcbase.slice, ast.Name) and srcbase.slice.id == jj
            ob("roving rows of setup jj are taken from the re-based block of setup jj", oks, f"source `{astq.src(src, 60)}`", st)
    alloc = astq.expr_at(fi, rets[-1], ast.Name(id=gname, ctx=ast.Load()), keep=KEEP) if rets else None
    if isinstance(alloc, ast.Call) and astq.callee_name(prog, fi, alloc) in ("numpy.zeros", "numpy.empty", "numpy.full"):
        shp = alloc.args[0]
        rows = se.ev(shp.elts[0]) if isinstance(shp, ast.Tuple) else None
        want = br * (P.s("n_ref") + P.s("sum(n_mov)"))
        okr = None
        if rows is not None:
            okr = True if rows == want else (False if set(s_ for k in rows.t for s_, e in k) <= {pos[2], "n_ref", "sum(n_mov)"} else None)
        ob("global matrix has n_DOF * br rows", okr, f"rows = {rows!r}", None)


S = "functions.ssi"
G = "functions.gen"
MUTANTS = [
    ("C03-m01 row-major flatten of the reference map", S, "SSI_multi_setup", "ref_id = ref_id.flatten(order='f')", "ref_id = ref_id.flatten(order='C')"),
    ("C03-m02 stride of the reference channels only", S, "SSI_multi_setup", "np.arange(br) * (n_ref + n_mov[kk]) + j", "np.arange(br) * n_ref + j", 1),
    ("C03-m03 one block row too many", S, "SSI_multi_setup", "np.arange(br) * (n_ref + n_mov[kk]) + j", "np.arange(br + 1) * (n_ref + n_mov[kk]) + j", 2),
    ("C03-m04 re-basing inverted", S, "SSI_multi_setup", "np.dot(np.dot(O_mov, np.linalg.pinv(O_ref)), O1_ref)", "np.dot(np.dot(O_mov, np.linalg.pinv(O1_ref)), O_ref)"),
    ("C03-m05 basis updated by every setup", S, "SSI_multi_setup", "if kk == 0:\n    O1_ref = O_ref", "O1_ref = O_ref"),
    ("C03-m06 roving block of the first setup's size", S, "SSI_multi_setup", "O_mov_s[jj][ii * n_mov[jj]:(ii + 1) * n_mov[jj], :]", "O_mov_s[jj][ii * n_mov[0]:(ii + 1) * n_mov[0], :]"),
    ("C03-m07 running offset restarts per setup", S, "SSI_multi_setup", "id1 = id2", "id1 = ii * n_DOF + n_ref", 1),
    ("C03-m08 references stacked after the roving channels", S, "SSI_multi_setup", "np.vstack((Y[kk]['ref'], Y[kk]['mov']))", "np.vstack((Y[kk]['mov'], Y[kk]['ref']))"),
    ("C03-m09 split takes the references in ascending order", G, "pre_multisetup", "ref = y[:, ref_id]", "ref = y[:, sorted(ref_id)]"),
    ("C03-m10 roving index list from the first setup", G, "pre_multisetup", "mov_id.remove(ref_id[ii])", "mov_id.remove(reflist[0][ii])"),
    ("C03-m11 first setup's gain leaks: no re-basing", S, "SSI_multi_setup", "O_mov_s.append(O_movs)", "O_mov_s.append(O_mov)"),
    ("C03-m12 roving map starts at channel 0", S, "SSI_multi_setup", "range(n_ref, r)", "range(0, r - n_ref)"),
    ("C03-m13 reference block reshaped without the transposition", G, "pre_multisetup", "np.array(ref).T.reshape(n_ref, -1)", "np.array(ref).reshape(n_ref, -1)"),
]
REWRITES = [
    ("rename:C03-r01", S, "SSI_multi_setup", "O1_ref", "basis_ref"),
    ("C03-r02 matmul operator for the re-basing", S, "SSI_multi_setup", "np.dot(np.dot(O_mov, np.linalg.pinv(O_ref)), O1_ref)", "O_mov @ np.linalg.pinv(O_ref) @ O1_ref"),
    ("C03-r03 upper-case flatten order", S, "SSI_multi_setup", "mov_id = mov_id.flatten(order='f')", "mov_id = mov_id.flatten(order='F')"),
    ("C03-r04 complement by comprehension", G, "pre_multisetup", "mov_id = list(range(n_sens))", "mov_id = list(range(0, n_sens))"),
    ("C03-r05 transposed selection without the reshape", G, "pre_multisetup", "np.array(mov).T.reshape(n_sens - n_ref, -1)", "np.array(mov).T"),
]
