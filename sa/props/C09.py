"""C09 - hard validation criteria are enforced soundly, completely and consistently.

Decided (structural): R-reach - on the path with every criterion enabled, a mask that depends on each criterion's value
(hc['conj'], hc['xi_max'], hc['mpc_lim'], hc['mpd_lim'], and hc['cov_max'] where covariances are computed) reaches EVERY pole table
stored in the result (dependence analysis through the run() bodies, gen.HC_* and gen.applymask, inlined); R-same-pattern - all
tables carry the same set of criteria; R-bind - each hc key is handed to the parameter that implements it; R-sense - the
keep-conditions inside gen.HC_* are 0 < xi < xi_max, MPC >= mpc_lim, MPD <= mpd_lim, cov < cov_max, and applymask keeps a value
where the mask is true and writes NaN elsewhere.  Not decided: behaviour within 1e-9 of a threshold, HC_conj's exact-equality matching.
"""
import ast

from .. import astq
from ..taint import TaintInterp, T, TC, TDct, TObj, TLst, labels
from ..program import rel, AnalysisError, ClassInfo, FuncInfo

CLASSES = [("algorithms.ssi.SSIdat", "dat", False), ("algorithms.ssi.SSIcov", "cov_mm", False), ("algorithms.ssi.SSIcov", "cov_mm", True),
           ("algorithms.ssi.SSIdat_MS", "dat", False), ("algorithms.ssi.SSIcov_MS", "cov_mm", False),
           ("algorithms.plscf.pLSCF", "per", False), ("algorithms.plscf.pLSCF_MS", "per", False)]
# criterion key -> (implementing function, parameter)
BIND = {"xi_max": ("pyoma2.functions.gen.HC_damp", "max_damp"), "mpc_lim": ("pyoma2.functions.gen.HC_phi_comp", "mpc_lim"),
        "mpd_lim": ("pyoma2.functions.gen.HC_phi_comp", "mpd_lim"), "cov_max": ("pyoma2.functions.gen.HC_cov", "max_cov")}


def class_attr_class(prog, ci, name):
    c, v = prog.find_classattr(ci, name)
    if v is None:
        raise AnalysisError(f"anchor lost: {ci.qual}.{name}")
    r = prog.resolve_expr(c.mod, v)
    if not isinstance(r, ClassInfo):
        raise AnalysisError(f"anchor lost: {ci.qual}.{name} does not name a class")
    return r


def criteria_keys(prog, rp_cls):
    c, v = prog.find_classattr(rp_cls, "hc")
    if v is None:
        raise AnalysisError(f"anchor lost: {rp_cls.qual}.hc default")
    if isinstance(v, ast.Call) and all(k.arg for k in v.keywords):
        return [k.arg for k in v.keywords]
    if isinstance(v, ast.Dict):
        return [k.value for k in v.keys if isinstance(k, ast.Constant)]
    raise AnalysisError(f"hc default of {rp_cls.qual} is not a dict literal")


def table_fields(prog, res_cls):
    out = []
    for c in prog.mro(res_cls):
        for name in c.attrs:
            if ("poles" in name or name == "Lambds") and name not in out:
                out.append(name)
    return out


def _last_assign(pm, st, name):
    """the last plain assignment to `name` that precedes statement st, walking outwards through the enclosing statement lists"""
    cur = st
    while cur is not None:
        par = pm.get(cur)
        for field in ("body", "orelse", "finalbody"):
            blk = getattr(par, field, None) if par is not None else None
            if isinstance(blk, list) and cur in blk:
                for prev in reversed(blk[:blk.index(cur)]):
                    if isinstance(prev, ast.Assign) and any(isinstance(t, ast.Name) and t.id == name for t in prev.targets):
                        return prev
                    if any(isinstance(x, ast.Name) and x.id == name and isinstance(x.ctx, (ast.Store, ast.Del)) for x in ast.walk(prev)):
                        return None         # bound in another way in between
        cur = par
    return None


def _copy_chain(pm, st, name, depth=0):
    """the variables `name` is a plain copy of at statement st (x = y chains), itself first"""
    a = _last_assign(pm, st, name)
    if a is not None and isinstance(a.value, ast.Name) and depth < 8:
        # the source must not have been re-bound between the copy and st
        b = _last_assign(pm, st, a.value.id)
        if b is None or b.lineno <= a.lineno:
            return [name] + _copy_chain(pm, a, a.value.id, depth + 1)
    return [name]


def slots(prog, run):
    """applymask returns its list filtered element by element: the k-th returned table must be bound to the variable that was passed at
    position k - otherwise two tables (say the frequency and the damping covariances) silently change places"""
    n = 0
    for m in list(prog.functions.values()):
        if not m.mod.startswith("pyoma2.algorithms"):
            continue
        f = rel(prog.mods[m.mod].path)
        pm = astq.parent_map(m.node)
        for c, r in prog.calls_in(m):
            if isinstance(r, FuncInfo) and r.node.name != "applymask" and r.mod == m.mod:
                n += _helper_slots(prog, run, m, f, pm, c, r)
            if not (isinstance(r, FuncInfo) and r.node.name == "applymask"):
                continue
            n += 1
            b, errs = astq.bind_args(r.node, c)
            first = astq.params_of(r.node)[0][0]
            lst = b.get(first)
            st = pm.get(c)
            tgt = st.targets[0] if isinstance(st, ast.Assign) and len(st.targets) == 1 else None
            if not (isinstance(lst, (ast.List, ast.Tuple, ast.Name)) and isinstance(tgt, (ast.Tuple, ast.List))):
                continue        # not the unpack-back form (returned directly, indexed, ...): the value-provenance rule below decides those
            # the list elements as written where the list was built (names), not their expansions
            lst_names = None
            if isinstance(lst, (ast.List, ast.Tuple)):
                lst_names = [astq.src(e) for e in lst.elts]
            elif isinstance(lst, ast.Name):
                # lista = [..] assigned just before
                # the last assignment of the list that precedes the call, walking outwards through the enclosing statement lists
                cur = st if st is not None else c
                found = None
                while cur is not None and found is None:
                    par = pm.get(cur)
                    for field in ("body", "orelse", "finalbody"):
                        blk = getattr(par, field, None) if par is not None else None
                        if isinstance(blk, list) and cur in blk:
                            for prev in reversed(blk[:blk.index(cur)]):
                                if isinstance(prev, ast.Assign) and any(isinstance(t, ast.Name) and t.id == lst.id for t in prev.targets):
                                    found = prev
                                    break
                    cur = par
                if found is not None and isinstance(found.value, (ast.List, ast.Tuple)):
                    lst_names = [astq.src(e) for e in found.value.elts]
            tg_names = [astq.src(e) for e in tgt.elts]
            if lst_names is None:
                continue
            ok = lst_names == tg_names
            if not ok and st is not None:
                # elements that are plain copies of a table variable stand for that variable
                src_stmt = st if isinstance(lst, (ast.List, ast.Tuple)) else found
                chains = [_copy_chain(pm, src_stmt, x) if x.isidentifier() else [x] for x in lst_names]
                if len(chains) == len(tg_names) and all(t in ch for t, ch in zip(tg_names, chains)):
                    ok, lst_names = True, list(tg_names)
            run.ob("R-slots", m.qual, "filtered tables return to their variables", ok,
                   f"passed {lst_names}, bound back to {tg_names}" + ("" if ok else " - tables change places"), witness=f"{lst_names}->{tg_names}", file=f, node=c, config=f"call#{n}")
    if not n:
        run.ob("R-slots", "pyoma2.algorithms", "applymask calls", None, "no applymask call found in the run methods")


def _helper_slots(prog, run, m, f, pm, c, r):
    """a helper of the algorithm module that takes pole tables and returns them as a tuple of its own parameters (the filtering
    moved into a method): the caller must unpack position k into the variable it passed for the parameter returned at position k"""
    rets = [x for x in ast.walk(r.node) if isinstance(x, ast.Return)]
    if len(rets) != 1 or not isinstance(rets[0].value, ast.Tuple) or len(rets[0].value.elts) < 3:
        return 0
    params = astq.params_of(r.node)[0] + astq.params_of(r.node)[1]
    rnames = [e.id if isinstance(e, ast.Name) else None for e in rets[0].value.elts]
    if any(x is None or x not in params for x in rnames):
        return 0
    st = pm.get(c)
    tgt = st.targets[0] if isinstance(st, ast.Assign) and len(st.targets) == 1 else None
    if not isinstance(tgt, (ast.Tuple, ast.List)) or len(tgt.elts) != len(rnames):
        return 0
    bound = r.cls is not None and isinstance(c.func, ast.Attribute) and not getattr(r, "is_static", False)
    b, errs = astq.bind_args(r.node, c, bound=bound)
    passed = [astq.src(b[p_]) if isinstance(b.get(p_), ast.AST) else None for p_ in rnames]
    got = [astq.src(e) for e in tgt.elts]
    pairs = [(a_, t_) for a_, t_ in zip(passed, got) if a_ is not None and a_.isidentifier() and t_.isidentifier()]
    if len(pairs) < 3:
        return 0
    ok = all(a_ == t_ for a_, t_ in pairs)
    run.ob("R-slots", m.qual, f"tables handed to {r.node.name} return to their variables", ok,
           f"passed {passed} for the returned parameters {rnames}, bound back to {got}" + ("" if ok else " - tables change places"),
           witness=f"{passed}->{got}", file=f, node=c, config=f"helper:{r.node.name}")
    return 1


POLE_FUNCS = {"pyoma2.functions.ssi.SSI_poles": "poles", "pyoma2.functions.plscf.pLSCF_poles": "poles"}
FIELD_ROLE = {"Fn_poles": "Fn", "Xi_poles": "Xi", "Phi_poles": "Phi", "Lambds": "Lambds", "Fn_poles_cov": "Fn_cov", "Xi_poles_cov": "Xi_cov", "Phi_poles_cov": "Phi_cov"}


def _role_of(name):
    n = (name or "").lower()
    cov = "cov" in n or "var" in n
    for stem, role in (("fn", "Fn"), ("xi", "Xi"), ("phi", "Phi"), ("lam", "Lambds")):
        if n.startswith(stem) or n.startswith("_" + stem):
            return role + ("_cov" if cov and role != "Lambds" else "")
    return None


def make_me(prog, ci, cq, method, unc):
    hc = TDct({"conj": TC(True, {"hc:conj"})}, src="hc")
    rp = TObj({"br": TC(10), "method": TC(method if "ssi" in cq else None), "ref_ind": TC(None), "ordmin": TC(0), "ordmax": TC(20), "step": TC(1),
               "sc": TDct({}, src="sc"), "hc": hc, "calc_unc": TC(unc), "nb": TC(100), "nxseg": TC(1024), "method_SD": TC(method), "pov": TC(0.5)})
    data = T({"data"})
    if cq.endswith("_MS"):
        data = TLst([TDct({"ref": T({"data"}), "mov": T({"data"})}), TDct({"ref": T({"data"}), "mov": T({"data"})})])
    return TObj({"data": data, "fs": T({"fs"}), "dt": T({"fs"}), "run_params": rp, "result": TC(None), "name": TC("a")}, ci)


def slot_provenance(prog, run, rule, classes=None):
    """every pole table stored in the result holds the numbers of the table of the SAME kind returned by the pole routine (frequency
    table in Fn_poles, frequency variances in Fn_poles_cov, ...): value provenance followed through the criteria, the masking and
    any helper, masks and positions computed FROM a table do not count as that table"""
    for cq, method, unc in (classes or CLASSES):
        ci = prog.cls(cq)
        cfg = f"{ci.node.name}[method={method},calc_unc={unc}]"
        runf = prog.find_method(ci, "run")
        f = rel(prog.mods[runf.mod].path)
        ti = TaintInterp(prog)
        ti.ret_tags = dict(POLE_FUNCS)
        res = ti.call_function(runf, [], {}, bound=make_me(prog, ci, cq, method, unc))
        if not isinstance(res, TObj):
            run.ob(rule, runf.qual, "result", None, f"run() did not evaluate to a result object ({res!r})"[:160], file=f, config=cfg)
            continue
        # position of each kind in the return of the pole routine that was called
        called = [q for q, env, node in ti.call_log if q in POLE_FUNCS]
        pos_of = {}
        for q in called[:1]:
            pf = prog.functions[q]
            for r in ast.walk(pf.node):
                if isinstance(r, ast.Return) and isinstance(r.value, ast.Tuple):
                    for k, el in enumerate(r.value.elts):
                        role = _role_of(el.id) if isinstance(el, ast.Name) else None
                        if role:
                            pos_of.setdefault(role, k)
        if not pos_of:
            run.ob(rule, runf.qual, "pole routine", None, "the routine that computes the pole tables was not reached / its return is not a tuple of named tables", file=f, config=cfg)
            continue
        for field, role in FIELD_ROLE.items():
            v = res.attrs.get(field)
            if v is None or (isinstance(v, TC) and v.v is None) or role not in pos_of:
                continue
            got = sorted(int(l.split(":")[2]) for l in labels(v) if l.startswith("val:poles:"))
            want = pos_of[role]
            inv = {k: r_ for r_, k in pos_of.items()}
            names = [inv.get(k, f"#{k}") for k in got]
            ok = got == [want]
            blind = f"; not decided: the analysis did not follow {ti.blind_for(v)}" if ti.blind_for(v) else ""
            run.ob(rule, runf.qual, f"result.{field} holds the {role} table of the pole routine", True if ok else (None if blind else False),
                   f"values come from returned table(s) {names}" + ("" if ok else f" - expected {role}: tables change places on the way into the result ({cfg}){blind}"),
                   witness=f"{field}<-{names}", file=f, node=runf.node, config=cfg)


def labels_final(prog, run, rule, classes=None):
    """the stability labels are computed from the pole tables AS STORED in the result: the frequency / damping / shape tables handed to
    SC_apply carry the same set of criteria as result.Fn_poles / Xi_poles / Phi_poles (a criterion applied after the labelling leaves
    rejected poles labelled stable)"""
    SC = "pyoma2.functions.gen.SC_apply"
    for cq, method, unc in (classes or CLASSES):
        ci = prog.cls(cq)
        cfg = f"{ci.node.name}[method={method},calc_unc={unc}]"
        runf = prog.find_method(ci, "run")
        f = rel(prog.mods[runf.mod].path)
        ti = TaintInterp(prog)
        res = ti.call_function(runf, [], {}, bound=make_me(prog, ci, cq, method, unc))
        calls = [(env, node) for q, env, node in ti.call_log if q == SC]
        if not isinstance(res, TObj) or not calls:
            run.ob(rule, runf.qual, "labels computed from the final tables", None, "run() / the call of SC_apply could not be evaluated", file=f, config=cfg)
            continue
        env, node = calls[-1]
        sc = prog.functions[SC]
        pos = astq.params_of(sc.node)[0]
        for p_, field in zip(pos[:3], ("Fn_poles", "Xi_poles", "Phi_poles")):
            got = {l for l in labels(env.get(p_)) if l.startswith("hc:")}
            want = {l for l in labels(res.attrs.get(field)) if l.startswith("hc:")}
            ok = True if got == want else (None if ti.blind_for(env.get(p_), res.attrs.get(field)) else False)
            run.ob(rule, runf.qual, f"SC_apply.{p_} is the table stored as result.{field}", ok,
                   f"criteria on the labelled table {sorted(x[3:] for x in got)}, on the stored table {sorted(x[3:] for x in want)}" +
                   ("" if ok else f" - the labels are computed before {sorted(x[3:] for x in want - got)} is applied: poles rejected afterwards keep a stable label ({cfg})"),
                   witness=f"{sorted(got)}|{sorted(want)}", file=f, node=node, config=cfg)


def check(prog, run):
    run.rule("R-reach", "every criterion of the run-parameter defaults reaches every pole table of the result (criteria enabled, all configurations)", 60)
    run.rule("R-same-pattern", "all pole tables of one result carry the same set of criteria (one NaN pattern)", 7)
    run.rule("R-bind", "hc['xi_max'] -> HC_damp.max_damp, hc['mpc_lim'] / hc['mpd_lim'] -> HC_phi_comp parameters of those names, hc['cov_max'] -> HC_cov.max_cov", 15)
    run.rule("R-sense", "keep-conditions: 0 < xi < xi_max, MPC >= mpc_lim, MPD <= mpd_lim, cov < cov_max; applymask keeps values where the mask is true, NaN elsewhere", 6)
    run.rule("R-slots", "every applymask call gets its filtered tables back into the variables they came from, position by position (values of the retained poles unchanged)", 4)
    slots(prog, run)
    slot_provenance(prog, run, "R-slots")
    run.rule("R-falsy", "a criterion set to 0 / 0.0 / False is that setting, not a missing one: no `<setting> or <default>` on the criteria dictionaries "
             "between run_params and the criteria", 0)
    runs_ = [m_.qual for mod_ in ("pyoma2.algorithms.ssi", "pyoma2.algorithms.plscf") for _, m_ in prog.raw.class_methods(mod_, "run")]
    astq.falsy_default_rule(prog.raw, run, "R-falsy", runs_)
    run.assume("dependence (taint) analysis: a criterion 'reaches' a table if the table's value depends on a mask computed from that criterion's value; "
               "it is a necessary condition for the criterion to take effect, not a proof that the right poles are removed")
    classes_rules(prog, run, CLASSES, {"reach": "R-reach", "pattern": "R-same-pattern", "bind": "R-bind"})
    sense(prog, run)
    from .. import maskkind
    maskkind.obligations(prog, run, "R-sense", ("pyoma2.algorithms.ssi", "pyoma2.algorithms.plscf"))


def classes_rules(prog, run, classes, rn, only=None):
    """the dependence rules for the given (class, method, calc_unc) configurations; rn maps 'reach' / 'pattern' / 'bind' to the rule
    name under which the obligations are reported (a missing key switches that family off) - shared with C01 / C05"""
    for cq, method, unc in classes:
        ci = prog.cls(cq)
        cfg = f"{ci.node.name}[method={method},calc_unc={unc}]"
        rp_cls = class_attr_class(prog, ci, "RunParamCls")
        res_cls = class_attr_class(prog, ci, "ResultCls")
        keys = criteria_keys(prog, rp_cls)
        tables = table_fields(prog, res_cls)
        runf = prog.find_method(ci, "run")
        f = rel(prog.mods[runf.mod].path)
        ti = TaintInterp(prog)
        hc = TDct({"conj": TC(True, {"hc:conj"})}, src="hc")
        rp = TObj({"br": TC(10), "method": TC(method if "ssi" in cq else None), "ref_ind": TC(None), "ordmin": TC(0), "ordmax": TC(20), "step": TC(1),
                   "sc": TDct({}, src="sc"), "hc": hc, "calc_unc": TC(unc), "nb": TC(100), "nxseg": TC(1024), "method_SD": TC(method), "pov": TC(0.5)})
        data = T({"data"})
        if cq.endswith("_MS"):
            data = TLst([], TDct({"ref": T({"data"}), "mov": T({"data"})}))
            data = TLst([TDct({"ref": T({"data"}), "mov": T({"data"})}), TDct({"ref": T({"data"}), "mov": T({"data"})})])
        me = TObj({"data": data, "fs": T({"fs"}), "dt": T({"fs"}), "run_params": rp, "result": TC(None), "name": TC("a")}, ci)
        res = ti.call_function(runf, [], {}, bound=me)
        if not isinstance(res, TObj):
            run.ob(rn.get("reach") or rn.get("bind"), runf.qual, "result", None, f"run() did not evaluate to a result object ({res!r})"[:160], file=f, config=cfg)
            continue
        present = {}
        # what the interpreter could not follow (a dictionary updated with unknown entries, keywords spread from an unknown mapping ...):
        # with any of those, "nothing arrives here" is not a fact about the code and the verdict is left open
        blind_all = ti.blind_for(*[res.attrs.get(t_) for t_ in tables] + [x_ for _q, env_, _n in ti.call_log for x_ in env_.values()])
        blind = f"; not decided: the analysis did not follow {blind_all}" if blind_all else ""
        absent = None if blind else False
        for tname in tables:
            v = res.attrs.get(tname)
            if v is None and "reach" in rn and (only is None or tname in only):
                run.ob(rn["reach"], runf.qual, f"{tname}", absent, blind[2:] + " - " * bool(blind) + f"result table {tname} of {res_cls.node.name} is not stored by run() ({cfg})", witness="not stored", file=f, config=cfg)
                continue
            if v is None:
                continue
            if isinstance(v, TC) and v.v is None:
                continue  # table absent in this configuration (e.g. covariances without calc_unc)
            present[tname] = frozenset(l for l in labels(v) if l.startswith("hc:"))
        has_cov = any(t.endswith("_cov") for t in present)
        if only is not None:
            present = {t: v for t, v in present.items() if t in only}           # e.g. the tables a diagram reads
        for k in keys:
            if k == "cov_max" and not has_cov:
                continue
            for tname, ls in (present.items() if "reach" in rn else ()):
                ok = f"hc:{k}" in ls
                run.ob(rn["reach"], runf.qual, f"{k} -> {tname}", True if ok else absent,
                       f"criteria reaching {tname}: {sorted(x[3:] for x in ls)}" if ok else
                       f"hc['{k}'] has no effect on {tname}: criteria reaching it are {sorted(x[3:] for x in ls)} ({cfg}){blind}",
                       witness=f"missing {k}", file=f, node=runf.node, config=cfg)
        sets = {t: ls for t, ls in present.items()}
        if sets and "pattern" in rn:
            ref = max(sets.values(), key=len)
            odd = sorted(t for t, ls in sets.items() if ls != ref)
            run.ob(rn["pattern"], runf.qual, "tables share one criteria set", True if not odd else absent,
                   f"{len(sets)} tables, criteria {sorted(x[3:] for x in ref)}" if not odd else f"tables {odd} carry a different criteria set than the others ({cfg}){blind}",
                   witness=",".join(odd), file=f, node=runf.node, config=cfg)
        # R-bind from the call log
        for k, (fq, param) in (BIND.items() if "bind" in rn else ()):
            if k not in keys or (k == "cov_max" and not has_cov):
                continue
            calls = [(env, node) for q, env, node in ti.call_log if q == fq]
            if not calls:
                run.ob(rn["bind"], runf.qual, f"hc['{k}'] -> {fq.split('.')[-1]}.{param}", absent, f"{fq.split('.')[-1]} is never called by run() ({cfg}){blind}",
                       witness="not called", file=f, config=cfg)
                continue
            for env, node in calls:
                ls = {l for l in labels(env.get(param)) if l.startswith("hc:")}
                alts = sorted(l[4:] for l in labels(env.get(param)) if l.startswith("alt:hc:"))
                ok = ls == {f"hc:{k}"}
                if not ok and not ls and blind:
                    ok = None
                detail = f"{param} <- {sorted(ls)}" + (blind if ok is None else "")
                if ok and alts:
                    ok = False
                    detail = f"{param} <- `{alts[0]} or <another value>`: a falsy limit set by the user (0, 0.0, False) never reaches the criterion, the fallback is used instead"
                clamps = sorted(l[len("clamp:hc:"):] for l in labels(env.get(param)) if l.startswith("clamp:hc:"))
                if ok and k in clamps:
                    ok = None
                    detail = (f"{param} <- hc['{k}'] limited by min / max / clip on the way: for the values inside the range it is the user's limit, whether the range admits every "
                              f"legitimate limit (a variance limit in Hz^2, say, is not confined to [0, 1]) is not decided here")
                run.ob(rn["bind"], runf.qual, f"hc['{k}'] -> {fq.split('.')[-1]}.{param}", ok,
                       detail, witness=f"{param}<-{sorted(ls)}{'|alt' if alts else ''}", file=f, node=node, config=cfg)


def _canon(prog, fi, cmp_node, params):
    """(lhs kind, op, rhs) with the threshold parameter on the right"""
    if len(cmp_node.ops) != 1:
        return None
    l, r = cmp_node.left, cmp_node.comparators[0]
    op = type(cmp_node.ops[0]).__name__
    flip = {"Lt": "Gt", "Gt": "Lt", "LtE": "GtE", "GtE": "LtE", "Eq": "Eq", "NotEq": "NotEq"}
    def kind(e):
        if isinstance(e, ast.Name) and e.id in params:
            return "param:" + e.id
        if isinstance(e, ast.Constant):
            return f"const:{e.value!r}"
        if isinstance(e, ast.Call):
            nm = astq.callee_name(prog, fi, e)
            return "call:" + nm.split(".")[-1]
        return "expr"
    kl, kr = kind(l), kind(r)
    def pidx(k):
        return params.index(k[6:]) if k.startswith("param:") and k[6:] in params else None
    thr_left = pidx(kl) is not None and pidx(kl) > 0 and (pidx(kr) is None or pidx(kr) == 0)
    const_left = kl.startswith("const:") and not kr.startswith("const:")
    if thr_left or const_left:
        return (kr, flip.get(op, op), kl)
    return (kl, op, kr)


EXPECT = {
    "HC_damp": {("param:damp", "Lt", "param:max_damp"), ("param:damp", "Gt", "const:0")},
    "HC_phi_comp": {("call:MPD", "LtE", "param:mpd_lim"), ("call:MPC", "GtE", "param:mpc_lim")},
    "HC_cov": {("param:Fn_cov", "Lt", "param:max_cov")},
}


def sense(prog, run):
    for name, exp in EXPECT.items():
        fi = prog.func("functions.gen." + name)
        f = rel(prog.mods[fi.mod].path)
        pos, _, _, _ = astq.params_of(fi.node)
        # canonical names: first parameter is the value table, the rest thresholds
        ren = {}
        std = {"HC_damp": ["damp", "max_damp"], "HC_phi_comp": ["phi", "mpc_lim", "mpd_lim"], "HC_cov": ["Fn_cov", "max_cov"]}[name]
        if set(std) <= set(pos):
            pass                    # the parameters carry the canonical names (in whatever order): nothing to rename
        else:
            for a, b in zip(pos, std):
                ren["param:" + a] = "param:" + b
        found = set()
        nodes = {}
        for n in ast.walk(fi.node):
            if isinstance(n, ast.Compare):
                if all(isinstance(o, (ast.Is, ast.IsNot)) for o in n.ops) or any(isinstance(x_, ast.Constant) and x_.value is None for x_ in [n.left] + n.comparators):
                    continue            # `limit is None` (criterion switched off): not a comparison of values
                c = _canon(prog, fi, n, pos)
                if c is None:
                    continue
                c = tuple(ren.get(x, x) for x in c)
                if any(x.startswith("param:") and x[6:] in std[1:] for x in c) or (c[2].startswith("const:") and c[0] == "param:" + std[0] and c[1] in ("Gt", "GtE", "Lt", "LtE")):
                    found.add(c)
                    nodes[c] = n
        for c in sorted(exp):
            ok = c in found
            near = [x for x in found if x[0] == c[0] and x[2] == c[2]]
            if not ok and not any(x[2] == c[2] or x[0] == c[2] for x in found):
                ok = None           # no comparison with that threshold in a form we read: the criterion may be written another way
            if not ok and any(x[2] == c[2] and x[0] == "expr" for x in found):
                ok = None           # the threshold is compared with a quantity computed in place: which indicator it is cannot be read off
            run.ob("R-sense", fi.qual, f"{c[0].split(':')[1]} {c[1]} {c[2].split(':')[1]}", ok,
                   "keep-condition present" if ok else f"expected keep-condition {c} not found; conditions on thresholds in this function: {sorted(found)}",
                   witness=str(sorted(near) or sorted(found)), file=f, node=nodes.get(c, fi.node))
        for c in sorted(found - exp):
            if c[0] == "expr" and any(e_[2] == c[2] for e_ in exp):
                continue            # reported above as not identified
            run.ob("R-sense", fi.qual, f"extra condition {c}", False, f"unexpected condition on a threshold: {c}", witness=str(c), file=f, node=nodes.get(c))
    # applymask: np.where(mask-derived, arr, nan)
    fi = prog.func("functions.gen.applymask")
    f = rel(prog.mods[fi.mod].path)
    pos, _, _, _ = astq.params_of(fi.node)
    wh = [c for c, nm in astq.calls_resolved(prog, fi, lambda n: n == "numpy.where") if len(c.args) == 3]
    if not wh:
        # the masking may sit in a private helper applied to every table: its np.where, written in applymask's own names
        import copy as _copy
        for hc, r in prog.calls_in(fi):
            if isinstance(r, FuncInfo) and r.node is not fi.node and r.node.name.startswith("_"):
                m_, errs = astq.bind_args(r.node, hc, bound=False)
                if errs:
                    continue
                for c, nm in astq.calls_resolved(prog, r, lambda n: n == "numpy.where"):
                    if len(c.args) == 3:
                        env_ = {p_: a_ for p_, a_ in m_.items() if isinstance(a_, ast.AST)}
                        wh.append(ast.copy_location(astq._SubstEnv(env_).visit(_copy.deepcopy(c)), hc))
    if not wh:
        run.ob("R-sense", fi.qual, "np.where(mask, arr, nan)", None, "masking is not done with np.where(cond, value, nan): form not recognised", file=f)
    loopvars = {n.target.id for n in ast.walk(fi.node) if isinstance(n, ast.For) and isinstance(n.target, ast.Name)}
    loopvars |= {g.target.id for n in ast.walk(fi.node) if isinstance(n, (ast.ListComp, ast.GeneratorExp)) for g in n.generators if isinstance(g.target, ast.Name)}
    for c in wh:
        cond = astq.at_node(fi, c, c.args[0])
        cn = {x.id for x in ast.walk(cond) if isinstance(x, ast.Name)}
        keep = c.args[1]
        fill = c.args[2]
        isnan = astq.src(fill) in ("np.nan", "numpy.nan", "float('nan')", "np.NaN") or (isinstance(fill, ast.Attribute) and fill.attr.lower() == "nan")
        ok = pos[1] in cn and isinstance(keep, ast.Name) and keep.id in loopvars and isnan
        run.ob("R-sense", fi.qual, "np.where(mask, arr, nan)", ok, f"`{astq.src(c, 70)}`" + ("" if ok else ": does not keep the array where the mask is true and write NaN elsewhere"),
               witness=astq.src(c, 70), file=f, node=c)


AS, AP, G = "algorithms.ssi", "algorithms.plscf", "functions.gen"
MUTANTS = [
    ("C09-m01 stale list reused for the second mode-shape mask", AS, "SSIdat.run", "lista = [Fns, Xis, Phis, Lambds, Fn_cov, Xi_cov, Phi_cov]", "pass", 2),
    ("C09-m03 limits swapped", AP, "pLSCF.run", "gen.HC_phi_comp(Phis, hc_mpc_lim, hc_mpd_lim)", "gen.HC_phi_comp(Phis, hc_mpd_lim, hc_mpc_lim)"),
    ("C09-m04 MPD criterion inverted", G, "HC_phi_comp", "MPD(phi[o, i, :]) <= mpd_lim", "MPD(phi[o, i, :]) >= mpd_lim"),
    ("C09-m05 damping criterion block deleted", AP, "pLSCF_MS.run", "Fns, Phis = gen.applymask(lista, mask2, Phis.shape[2])", "pass"),
    ("C09-m06 mask keeps the rejected poles", G, "applymask", "np.where(mask, arr, np.nan)", "np.where(mask, np.nan, arr)"),
    ("C09-m07 same mask twice in the multi-setup class", AS, "SSIdat_MS.run", "gen.applymask(lista, mask4, Phis.shape[2])", "gen.applymask(lista, mask3, Phis.shape[2])"),
    ("C09-m08 zero damping accepted", G, "HC_damp", "damp > 0", "damp >= 0"),
    ("C09-m09 covariance criterion uses xi_max", AS, "SSIdat.run", "gen.HC_cov(Fn_cov, hc_cov_max)", "gen.HC_cov(Fn_cov, hc_xi_max)"),
    ("C09-m10 conjugate criterion masks the frequencies only", AP, "pLSCF.run", "Fns, Xis, Phis = gen.applymask(lista, mask1, Phis.shape[2])", "Fns, = gen.applymask([Fns], mask1, Phis.shape[2])"),
    ("C09-m11 MPC criterion non-inclusive", G, "HC_phi_comp", "MPC(phi[o, i, :]) >= mpc_lim", "MPC(phi[o, i, :]) > mpc_lim"),
    ("C09-m12 covariance tables escape the MPC mask", AS, "SSIdat.run", "Fns, Xis, Phis, Lambds, Fn_cov, Xi_cov, Phi_cov = gen.applymask(lista, mask4, Phis.shape[2])", "Fns, Xis, Phis, Lambds = gen.applymask(lista[:4], mask4, Phis.shape[2])"),
]
REWRITES = [
    ("rename:C09-r01", AS, "SSIdat.run", "lista", "tables"),
    ("C09-r02 flipped comparison", G, "HC_damp", "damp < max_damp", "max_damp > damp"),
    ("C09-r03 combined mode-shape mask", AP, "pLSCF.run", "Fns, Xis, Phis = gen.applymask(lista, mask3, Phis.shape[2])", "Fns, Xis, Phis = gen.applymask(lista, mask3 * mask4, Phis.shape[2])"),
    ("C09-r04 inline list", AP, "pLSCF_MS.run", "Fns, Xis, Phis = gen.applymask(lista, mask4, Phis.shape[2])", "Fns, Xis, Phis = gen.applymask([Fns, Xis, Phis], mask4, Phis.shape[2])"),
]
