"""C08 - identification is covariant under gain and time unit; unit normalisation.

Decided here (structural part): for every algorithm class and every Hankel / spectral method, the
outputs of run() (and of mpe() for the FDD family) are homogeneous functions of the data gain g and the
time unit s with the degrees the property states (frequencies s^-1 g^0, damping and shapes s^0 g^0),
no sum mixes degrees, no log/exp/arccos gets a dimensional argument and no decision on the way compares
quantities of different degree (that is what makes the NaN pattern invariant).  Plus R-unit-norm:
each normalisation site divides a vector by its own largest-magnitude component.
Not decided: permutation / orthogonal mixing equivariance, negative gain for the 'dat' method,
floating point.
"""
import ast

from ..absint import Interp, CTX, Cst, Lst, D, Obj, num, Deg, SCAL
from .. import hd
from ..hd import HZ, SEC, expect, events_to_obligations
from ..program import FuncInfo,  rel
from .. import astq

RUN_OUT_SSI = {"Fn_poles": dict(s=-1), "Xi_poles": {}, "Phi_poles": {}, "Lambds": dict(s=-1), "Lab": {}}
RUN_OUT_FDD = {"freq": dict(s=-1), "S_vec": {}}
RUN_OUT_PLSCF = {"Fn_poles": dict(s=-1), "Xi_poles": {}, "Phi_poles": {}, "Lab": {}, "freq": dict(s=-1)}


def ssi_rp(method):
    return {"br": Cst(10), "method": Cst(method), "ref_ind": Cst(None), "ordmin": Cst(0), "ordmax": Cst(20),
            "step": Cst(1), "sc": hd.sc_dict(), "hc": hd.hc_dict(True), "calc_unc": Cst(False), "nb": Cst(100)}


def fdd_rp(sd):
    return {"nxseg": Cst(1024), "method_SD": Cst(sd), "pov": Cst(0.5)}


def plscf_rp(sd):
    return {"nxseg": Cst(1024), "method_SD": Cst(sd), "pov": Cst(0.5), "ordmax": Cst(8), "ordmin": Cst(0),
            "sc": hd.sc_dict(), "hc": hd.hc_dict(False)}


def configs():
    data1 = D(2, g=1)
    dataM = hd.ms_data("g", "g")
    out = []
    for cls, methods, data in (("algorithms.ssi.SSIdat", (None,), data1), ("algorithms.ssi.SSIcov", (None, "cov_mm", "cov_R"), data1),
                               ("algorithms.ssi.SSIdat_MS", (None,), dataM), ("algorithms.ssi.SSIcov_MS", (None, "cov_mm", "cov_R"), dataM)):
        for m in methods:
            # extraction at an explicit order (int and per-mode list): the closeness test must be relative (scale-free in the time unit);
            # order='find_min' uses an absolute band by design of the pinned code and is outside this clause (see C11 "not decided")
            mpe_cfgs = None
            if m is None:
                mpe_cfgs = [({"sel_freq": Lst([], HZ), "order": Cst(4), "rtol": SCAL}, {"Fn": dict(s=-1), "Xi": {}, "Phi": {}}),
                            ({"sel_freq": Lst([], HZ), "order": Lst([], Cst(4)), "rtol": SCAL}, {"Fn": dict(s=-1), "Xi": {}, "Phi": {}})]
            out.append((cls, f"method={m}", ssi_rp(m), data, RUN_OUT_SSI, mpe_cfgs))
    for cls, data in (("algorithms.fdd.FDD", data1), ("algorithms.fdd.EFDD", data1), ("algorithms.fdd.FSDD", data1),
                      ("algorithms.fdd.FDD_MS", dataM), ("algorithms.fdd.EFDD_MS", dataM)):
        for sd in ("per", "cor"):
            mpe_kw = {"sel_freq": Lst([], HZ)}
            if cls.endswith(("FDD", "FDD_MS")) and not cls.endswith(("EFDD", "EFDD_MS")):
                mpe_kw["DF"] = HZ
                mpe_out = {"Fn": dict(s=-1), "Phi": {}}
            else:
                mpe_kw.update({"DF1": HZ, "DF2": HZ})
                mpe_out = {"Fn": dict(s=-1), "Xi": {}, "Phi": {}}
            out.append((cls, f"method_SD={sd}", fdd_rp(sd), data, RUN_OUT_FDD, (mpe_kw, mpe_out)))
    for cls, data in (("algorithms.plscf.pLSCF", data1), ("algorithms.plscf.pLSCF_MS", dataM)):
        for sd in ("per", "cor"):
            out.append((cls, f"method_SD={sd}", plscf_rp(sd), data, RUN_OUT_PLSCF, None))
    return out


def check(prog, run):
    run.rule("R-kept", "no algorithm hands out a kept intermediate result (Hankel matrix, spectra) that was computed from data which has been replaced since", 0)
    from ..effects import memo_rule
    memo_rule(prog.raw, run, "R-kept", ["pyoma2.algorithms"], "after the algorithm is bound to transformed data (scaled, permuted, another sampling frequency) its result is still that of the old data")
    astq.shortcut_obligations(prog, run, [m_.qual for _, m_ in prog.class_methods("pyoma2.algorithms", "run")])
    run.rule("R-own-option", "every routine reachable from run / mpe hands its options to the helpers that repeat them with the same default (an option left out is the "
             "helper's default whatever the user set)", 20)
    raw_ = prog.raw
    roots_ = [m_.qual for nm_ in ("run", "mpe", "mpe_from_plot") for _, m_ in raw_.class_methods("pyoma2.algorithms", nm_)]
    astq.repeated_option_rule(raw_, run, "R-own-option", sorted(q_ for q_ in raw_.reachable(roots_) if q_ in raw_.functions and not q_.startswith("pyoma2.functions.plot")))
    run.rule("O-degree", "every output of run()/mpe() is homogeneous of the degree the property states in the data gain g and the time unit s "
             "(frequencies/eigenvalues s^-1, damping/shapes/labels 1; gain exponent 0 everywhere)", 60)
    run.rule("O-hom", "on every path to those outputs: no sum of different degrees, no log/exp/arccos/inverse of a non-homogeneous "
             "quantity, no comparison/isclose between quantities of different degree", 1)
    run.rule("R-unit-norm", "each mode-shape normalisation divides a vector by the element of the same vector at argmax(abs(same vector))", 3)
    run.assume("transfer table entries are true homogeneity facts about numpy/scipy (listed in trusted_base)")
    run.assume("positive scale factors; argmax/argmin/nanargmin/unique are scale-free selections (ties aside); floating point is not modelled")
    run.assume("optimistic joins: Optional joined with a value is the value; loops are peeled once and iterated to a fixpoint (<=4 rounds)")
    I = Interp(prog)
    seen = set()
    nconf = 0
    for cls, cfg, rp, data, outs, mpe in configs():
        config = f"{cls.split('.')[-1]}[{cfg}]"
        CTX.events.clear()
        o = hd.algo(I, cls, dict(rp), data)
        runm = I.method(cls, "run", o)
        res = I.call(runm)
        nconf += 1
        if not isinstance(res, Obj):
            run.ob("O-degree", runm.qual, "result", None, f"run() did not return a result object ({res!r})"[:160], config=config)
            continue
        for name, exp in outs.items():
            val = res.attrs.get(name)
            if val is None:
                blind = hd.unknown_events(2)
                run.ob("O-degree", runm.qual, name, None if blind else False, f"result field {name} is not produced by run() ({config})" + (f"; not decided: {blind[0]}" if blind else ""), witness="missing", config=config)
                continue
            if hd.has_root_events() and hd.is_poisoned(val):
                continue  # explained by the root event reported under O-hom for this configuration
            expect(run, prog, "O-degree", runm.qual, name, val, exp, config)
        for kw, mouts in (mpe if isinstance(mpe, list) else ([mpe] if mpe is not None else [])):
            o.attrs["result"] = res
            mm = I.method(cls, "mpe", o)
            I.call(mm, [], dict(kw))
            nconf += 1
            r2 = o.attrs.get("result")
            for name, exp in mouts.items():
                val = r2.attrs.get(name) if isinstance(r2, Obj) else None
                if val is None or (isinstance(val, Cst) and val.v is None):
                    blind = hd.unknown_events(2)
                    run.ob("O-degree", mm.qual, name, None if blind else False, f"result field {name} is not stored by mpe() ({config})" + (f"; not decided: {blind[0]}" if blind else ""), witness="missing", config=config)
                    continue
                if hd.has_root_events() and hd.is_poisoned(val):
                    continue
                expect(run, prog, "O-degree", mm.qual, name, val, exp, config)
        events_to_obligations(run, prog, "O-hom", config, seen=seen)
        for u in hd.unknown_events():
            if u not in run.notes:
                run.notes.append("unmodelled (did not reach an output unless reported): " + u)
    # functions traversed without an event count as O-hom instances that hold
    clean = sorted({fn for _, (fn, _), _ in [] })
    run.extra["configurations"] = nconf
    run.trusted |= set(CTX.used)
    traversed = sorted(astq.traversed_functions())
    bad_fns = {o.fn for o in run.obs if o.rule == "O-hom"}
    for q in traversed:
        if q not in bad_fns and q in prog.functions:
            f, ln = hd.loc_of(prog, q)
            run.ob("O-hom", q, "all-operations", True, "no degree-mixing operation or scale-dependent decision on any configuration", file=f)
    unit_norm(prog, run)
    # channel-permutation clause, multi-setup part: a permutation with consistently mapped reference indices yields reference lists in
    # non-ascending order; the PreGER split must honour the LISTED order (necessary condition, shared with C03)
    run.rule("R-perm-split", "PreGER reference/roving split takes the reference channels in the listed order and does not modify the index lists", 3)
    from .. import seqsig
    seqsig.order_obligations(prog, run, "R-perm-split", which=("pre", "reflists", "split_current"))
    # time-unit clause for the FDD family: the bandwidths of a request are quantities in Hz - declared at k*fs the user passes k*DF, which
    # must be the value the extraction works with (not the default, not the value stored by an earlier request).  The hand-over rules of
    # C06 / C07, restricted to the arguments that carry a unit.
    run.rule("R-band-arg", "FDD / EFDD / FSDD mpe and mpe_from_plot hand the half-widths of THIS request (DF; DF1, DF2) and its selected frequencies to the extraction routine", 6)
    from .C07 import handover_rule as efdd_handover
    efdd_handover(prog, run.under({"R-handover": "R-band-arg"}), only=("DF1", "DF2", "sel_freq"))
    fdd_mpe = prog.func("functions.fdd.FDD_mpe")
    pos_ = astq.params_of(fdd_mpe.node)[0]
    for mname in ("mpe", "mpe_from_plot"):
        for ci, m in prog.class_methods("pyoma2.algorithms", mname):
            want = {pos_[4]: {"DF"}}
            if mname == "mpe":
                want[pos_[3]] = {"sel_freq"}
            for c, p_, ok, detail in astq.handover(prog, m, fdd_mpe.qual, want):
                run.ob("R-band-arg", m.qual, f"{mname} -> FDD_mpe.{p_}", ok, detail, witness=detail[:90], file=rel(prog.mods[m.mod].path), node=c, config=p_)


def unit_norm(prog, run):
    """R-unit-norm at ssi.ac2mp, plscf.ac2mp_poly, fdd.FDD_mpe."""
    for qual in ("functions.ssi.ac2mp", "functions.plscf.ac2mp_poly", "functions.fdd.FDD_mpe"):
        fi = prog.func(qual)
        sites = astq.unit_norm_sites(fi)
        f = rel(prog.mods[fi.mod].path)
        if not sites:
            # no pivot search (argmax family) at all in the function or its private helpers: the largest component cannot have been found
            fns = [fi] + [prog.functions[q] for q in prog.reachable([fi.qual]) if q in prog.functions and q != fi.qual and not q.startswith("pyoma2.functions.plot")]
            has_arg = any(isinstance(c, ast.Call) and (astq.callee_name(prog, g, c).split(".")[-1] in ("argmax", "nanargmax", "argsort", "argmin"))
                          for g in fns for c in ast.walk(g.node))
            run.ob("R-unit-norm", fi.qual, "normalisation", None if has_arg else False,
                   "no division of a vector by its own largest-magnitude component found" + (" (a pivot search exists but its use was not recognised)" if has_arg else ""),
                   witness="missing", file=f, node=fi.node)
        for node, ok, why in sites:
            run.ob("R-unit-norm", fi.qual, "normalisation", ok, why, witness=why, file=f, node=node)


S, FD, PL, G = "functions.ssi", "functions.fdd", "functions.plscf", "functions.gen"
MUTANTS = [
    ("C08-m01 fs where dt is meant in the SSI pole map", S, "ac2mp", "np.log(lam_d) * (1 / dt)", "np.log(lam_d) * dt"),
    ("C08-m02 FDD shape normalised by the largest magnitude of ANOTHER vector", FD, "FDD_mpe", "phi_FDD / phi_FDD[np.argmax(np.abs(phi_FDD))]", "phi_FDD / phi_FDD[np.argmax(np.abs(Svec[1, :, idxfin]))]"),
    ("C08-m03 abs dropped in the normalisation", S, "ac2mp", "phi[np.argmax(abs(phi[:, ii])), ii]", "phi[np.argmax(phi[:, ii]), ii]"),
    ("C08-m04 absolute threshold on the singular values", FD, "FDD_mpe", "idx1 = np.argmin(np.abs(diffS1S2 - maxDiffS1S2))", "idx1 = np.argmin(np.abs(diffS1S2 - maxDiffS1S2)) if Sval[0, 0, idxlim[0]] > 1e-06 else 0"),
    ("C08-m06 frequency grid of the correlogram in samples", FD, "SD_est", "np.arange(0, Sy.shape[2]) * (1 / dt / nxseg)", "np.arange(0, Sy.shape[2]) * (1 / nxseg)"),
    ("C08-m07 pLSCF basis function with omega in Hz*s^2", PL, "pLSCF", "fs = 1 / dt", "fs = dt"),
    ("C08-m08 EFDD lag axis from fs", FD, "EFDD_mpe", "tlag = 1 / df", "tlag = df"),
    ("C08-m10 multi-setup SSI passes fs as sampling interval", "algorithms.ssi", "SSIdat_MS.run", "ssi.SSI_poles(Obs, A, C, ordmax, self.dt, step=step, calc_unc=False)", "ssi.SSI_poles(Obs, A, C, ordmax, self.fs, step=step, calc_unc=False)"),
    ("C08-m11 normalisation by the maximum magnitude (not the component)", PL, "ac2mp_poly", "phi[:, ii] / phi[np.argmax(abs(phi[:, ii])), ii]", "phi[:, ii] / np.max(abs(phi[:, ii]))"),
    ("C08-m12 split by mask loses the listed reference order", G, "pre_multisetup", "ref = y[:, ref_id]", "ref = y[:, np.isin(np.arange(n_sens), ref_id)]"),
    ("C08-m13 stability test on the absolute frequency difference", G, "SC_apply", "cond1 = np.abs(f_n[i] - f_n1[idx]) / f_n[i]", "cond1 = np.abs(f_n[i] - f_n1[idx])"),
]
REWRITES = [
    ("rename:C08-r01", S, "ac2mp", "lam_c", "lam_cont"),
    ("C08-r02 np.abs in the normalisation", S, "ac2mp", "phi[np.argmax(abs(phi[:, ii])), ii]", "phi[np.argmax(np.abs(phi[:, ii])), ii]"),
    ("C08-r03 temporary for the pivot index", FD, "FDD_mpe", "phi_FDDn = phi_FDD / phi_FDD[np.argmax(np.abs(phi_FDD))]", "kmax = np.argmax(np.abs(phi_FDD))\nphi_FDDn = phi_FDD / phi_FDD[kmax]"),
    ("C08-r04 sampling interval passed by keyword", "algorithms.ssi", "SSIdat_MS.run", "ssi.SSI_poles(Obs, A, C, ordmax, self.dt, step=step, calc_unc=False)", "ssi.SSI_poles(Obs, A, C, ordmax, dt=self.dt, step=step, calc_unc=False)"),
]
