"""C04 - PreGER spectral merging.

Decided (structural): O-transmissibility - with setups recorded at gains g0 / gk, the merged matrix returned by SD_PreGER has exactly
the support of the mean reference block {g0^2, gk^2} in every row block: each roving block is G_mov,ref * inv(G_ref,ref) (degree 0 in its
own setup's gain) applied to that mean.  R-param - the user's nxseg / method / pov reach the estimator (and noverlap/nperseg/window of
scipy.signal.csd); the three *_MS.run methods pass their run parameters under the matching keywords.  R-grid - the returned frequency
vector is the one the estimator returned.  Not decided: equality with the single-setup matrix (X^-1 X = I), a transposed
transmissibility (same degree), Welch numerics.
"""
import ast

from ..absint import Interp, CTX, Cst, Lst, Dct, D, Obj, SCAL, num, Deg, Tup
from .. import hd, astq
from ..hd import HZ, SEC, expect, expect_support, events_to_obligations
from ..program import rel, FuncInfo

FN = "functions.fdd.SD_PreGER"
EST = "functions.fdd.SD_est"


def check(prog, run):
    astq.shortcut_obligations(prog, run, ["functions.gen.pre_multisetup", "functions.fdd.SD_PreGER"])
    run.rule("O-transmissibility", "SD_PreGER(Y[setup0 ~ g0, others ~ gk]): every block of the merged matrix has the support of the mean "
             "reference block {g0^2, gk^2} (x the PSD unit); freq ~ 1/s", 4)
    run.rule("O-hom", "apart from the mean over setups the property itself states, no degree-mixing operation in SD_PreGER / SD_est", 1)
    run.rule("R-param", "nxseg, method, pov given to SD_PreGER reach every SD_est call; in SD_est pov -> noverlap, nxseg -> nperseg, "
             "window='hann' for 'per'; each *_MS.run passes run_params.{nxseg,method_SD,pov} under the matching keyword", 20)
    run.rule("R-grid", "the frequency vector returned by SD_PreGER is the one returned by SD_est", 1)
    I = Interp(prog)
    fn = I.fn(FN)
    seen = set()
    for m, unit in (("per", dict(s=1)), ("cor", {})):
        CTX.events.clear()
        Y = hd.ms_data("g0", "gk")
        r = I.call(fn, [Y, HZ], {"nxseg": Cst(1024), "pov": Cst(0.5), "method": Cst(m)})
        cfg = f"method={m}"
        if not isinstance(r, Tup) or len(r.items) != 2:
            run.ob("O-transmissibility", fn.qual, "return", None, f"unexpected return {r!r}"[:160], config=cfg)
            continue
        freq, Sy = r.items
        expect(run, prog, "O-transmissibility", fn.qual, "freq", freq, dict(s=-1), cfg, allow_any=False)
        e0 = dict(unit); e0["g0"] = 2
        ek = dict(unit); ek["gk"] = 2
        expect_support(run, prog, "O-transmissibility", fn.qual, "Sy", Sy, [e0, ek], cfg)
        # events: the mean over setups is the stated inhomogeneous sum; anything else is reported
        CTX.events[:] = [e for e in CTX.events if not (e[0] == "mix" and e[1][0].endswith("SD_PreGER") and "g0^2" in e[2] and "gk^2" in e[2])]
        events_to_obligations(run, prog, "O-hom", cfg, seen=seen)
    if not any(o.rule == "O-hom" for o in run.obs):
        run.ob("O-hom", fn.qual, "all-operations", True, "only the stated mean over setups mixes gains")
    run.trusted |= set(CTX.used)
    params(prog, run)
    blocks(prog, run)
    # what is called "reference k" must be the same physical sensor in every setup: the split takes them in the LISTED order
    from .. import seqsig
    seqsig.order_obligations(prog, run, "R-order", which=("pre", "reflists", "split_current"))


WANT_ROWS = "(ref ; for k0 in 0..N: (mov[k0]))"
WANT_COLS = "(ref)"
WANT_FORM = "[mean_k0(S[k0]<ref|ref>) ; for k0 in 0..N: S[k0]<mov|ref> . S[k0]<ref|ref>^-1 . mean_k1(S[k1]<ref|ref>)]"


def blocks(prog, run):
    """R-grid / R-order by channel-group typing of every matrix in SD_PreGER (sa/blockdom.py): what the rows and columns of the
    returned matrix are, and from which raw spectral blocks each row block was computed - for any way of writing the loops."""
    from .. import blockdom, seqdom
    run.rule("R-order", "typed block structure of the merged matrix: rows = [reference sensors ; each setup's roving sensors in setup order], columns = reference "
             "sensors; each roving block = S_mov,ref . inv(S_ref,ref) of its own setup . mean over setups of S_ref,ref; no product / stack of mismatching channel groups", 6)
    pre = prog.func(FN)
    f = rel(prog.mods[pre.mod].path)
    pos = astq.params_of(pre.node)[0]
    for meth in ("per", "cor"):
        cfg = f"method={meth}"
        it = blockdom.Interp(prog, roles={pos[0]: ("setups",)})
        rets = it.run(pre, {"method": seqdom.K(meth)})

        def ob(rule, role, ok, detail, node=None):
            run.ob(rule, pre.qual, role, ok, detail, witness=detail[:120], file=f, node=node, config=cfg)
        tups = [(v, n) for v, n in rets if isinstance(v, seqdom.Tup) and len(v.items) == 2]
        if not tups:
            ob("R-grid", "freq", None, "SD_PreGER does not return a (freq, Sy) pair on this path")
            continue
        for v, n in tups:
            fr, sy = v.items
            if isinstance(sy, blockdom.Asm):
                sy = it.assembled(sy, pre.node)      # allocated first, filled block of rows by block of rows
            if isinstance(fr, blockdom.Freq):
                ob("R-grid", "freq", True, "freq is element 0 of the estimator's return", n)
            else:
                txt = astq.src(fr.node, 80) if isinstance(fr, seqdom.E) else repr(fr)[:80]
                rebuilt = isinstance(fr, seqdom.E) and any(isinstance(c, ast.Call) and astq.src(c.func).split(".")[-1] in ("arange", "linspace", "rfftfreq", "fftfreq") for c in ast.walk(fr.node))
                if isinstance(fr, seqdom.Sq) and any(x[0] == "int" for x in seqdom.walk(fr.t)):
                    rebuilt = True        # an index ramp (arange / range) scaled by something: a grid built by hand
                ob("R-grid", "freq", False if rebuilt or isinstance(fr, (blockdom.Mat, seqdom.I)) else None, f"returned frequency vector is `{txt}`, not the grid returned by the estimator", n)
            if not isinstance(sy, blockdom.Mat):
                ob("R-order", "merged matrix", None, f"returned matrix not typed: {repr(sy)[:120]}", n)
                continue
            opq = blockdom.fopaque(sy.form)
            rows, cols, form = blockdom.gcanon(sy.rows), blockdom.gcanon(sy.cols), blockdom.fshow(sy.form)
            # channel groups that come out of something that was not typed are not known, which is not the same as wrong
            ob("R-order", "rows = [reference sensors ; roving sensors of every setup in setup order]", True if rows == WANT_ROWS else (None if opq else False), f"rows {rows}", n)
            ob("R-order", "columns = reference sensors", True if cols == WANT_COLS else (None if opq else False), f"columns {cols}", n)
            ob("R-order", "axes of the returned matrix = (channels, reference channels, frequency lines)", sy.lay == blockdom.STD_LAY,
               f"(rows, columns, frequency) are carried by the array axes {sy.lay}", n)
            okf = (form == WANT_FORM) if not opq else None
            ob("R-order", "row blocks = [mean_k S_ref,ref(k) ; S_mov,ref(k) . inv(S_ref,ref(k)) . mean_k S_ref,ref(k)]", okf,
               f"{form}" + (f"  (not fully recognised: {opq[0]})" if opq else "") + ("" if okf or opq else "  (the spectral blocks are Hermitian, not symmetric: order, inverse and transposition matter)"), n)
        # the per-setup records handed to the estimator: all channels [ref ; mov] against [ref] and [mov]
        est_calls = [c for c in it.calls if c[0].endswith(".SD_est")]
        if not est_calls:
            ob("R-order", "per-setup record stack = [reference channels ; roving channels]", None, "no estimator call reached")
        seen = set()
        for q, bound, node, loops in est_calls:
            vals = list(bound.values())
            if len(vals) < 2 or not all(isinstance(x, blockdom.Rec) for x in vals[:2]):
                ob("R-order", "per-setup record stack = [reference channels ; roving channels]", None, f"estimator operands of `{astq.src(node, 60)}` not typed", node)
                continue
            a, b = vals[0], vals[1]
            key = (tuple(x[1] for x in a.groups), tuple(x[1] for x in b.groups))
            if key in seen:
                continue
            seen.add(key)
            ob("R-order", "per-setup record stack = [reference channels ; roving channels]", key[0] == ("ref", "mov"),
               f"estimator rows {blockdom.gshow(a.groups)} against columns {blockdom.gshow(b.groups)}", node)
        for node, msg in it.type_errors:
            ob("R-order", "channel groups agree in every product / stack / slice", False, msg, node)
        if not it.type_errors:
            ob("R-order", "channel groups agree in every product / stack / slice", True, "no typing conflict")


def _is_param(fi, e, name):
    x = astq.expand(fi, e)
    return isinstance(x, ast.Name) and x.id == name and name in astq.params_of(fi.node)[0] + astq.params_of(fi.node)[1]


def params(prog, run):
    pre = prog.func(FN)
    est = prog.func(EST)
    f = rel(prog.mods[pre.mod].path)
    recs = astq.forwarded_args(prog, pre, est.qual)
    if not recs:
        run.ob("R-param", pre.qual, "SD_est calls", None, "no call of SD_est found in SD_PreGER or the helpers it calls", witness="missing", file=f)
    pre_params = set(astq.params_of(pre.node)[0] + astq.params_of(pre.node)[1])
    for i, rec in enumerate(recs):
        c = rec["call"]
        fh = rel(prog.mods[rec["holder"].mod].path)
        via = " via " + " -> ".join(rec["chain"][1:]) if len(rec["chain"]) > 1 else ""
        for e in rec["errors"]:
            run.ob("R-param", pre.qual, f"call#{i} conformance", False, e, witness=e, file=fh, node=c)
        for callee_p, caller_p in (("nxseg", "nxseg"), ("method", "method"), ("pov", "pov")):
            if callee_p in rec["missing"]:
                run.ob("R-param", pre.qual, f"{caller_p}->SD_est.{callee_p}", False if rec["complete"] else None,
                       f"SD_est call `{astq.src(c, 70)}`{via} does not receive {caller_p} (the estimator's default is used instead)",
                       witness="not forwarded", file=fh, node=c, config=f"call#{i}")
                continue
            a = rec["args"].get(callee_p)
            if a is None:
                run.ob("R-param", pre.qual, f"{caller_p}->SD_est.{callee_p}", None, f"argument of `{astq.src(c, 60)}`{via} could not be expressed in SD_PreGER's scope", file=fh, node=c, config=f"call#{i}")
                continue
            a = astq.strip_coercion(a)
            ok = isinstance(a, ast.Name) and a.id == caller_p
            if not ok and caller_p == "method" and isinstance(a, ast.Call):
                kl = astq.keeps_labels(rec["holder"], a, caller_p, ("per", "cor"))       # method = normalise(method)
                ok = True if kl else (False if kl is False else ok)
            if not ok and not (isinstance(a, ast.Constant) or (isinstance(a, ast.Name) and a.id in pre_params)
                               or (isinstance(a, ast.BinOp) and any(isinstance(n, ast.Name) and n.id == caller_p for n in ast.walk(a)))):
                ok = None       # neither the parameter nor a recognisably different value
            run.ob("R-param", pre.qual, f"{caller_p}->SD_est.{callee_p}", ok,
                   f"`{astq.src(a)}`{via}" if ok else f"SD_est.{callee_p} receives `{astq.src(a)}`{via}, not the caller's {caller_p}",
                   witness=astq.src(a, 60), file=fh, node=c, config=f"call#{i}")
        x = rec["args"].get("dt")
        if x is not None:
            ok = isinstance(x, ast.BinOp) and isinstance(x.op, ast.Div) and isinstance(x.left, ast.Constant) and x.left.value == 1 \
                and isinstance(x.right, ast.Name) and x.right.id == "fs"
            ok = ok or (isinstance(x, ast.Name) and x.id == "dt")
            if not ok and not (isinstance(x, (ast.Name, ast.Constant)) or (isinstance(x, ast.BinOp) and any(isinstance(n, ast.Name) and n.id == "fs" for n in ast.walk(x)))):
                ok = None
            run.ob("R-param", pre.qual, "dt->SD_est.dt", ok, f"dt = `{astq.src(x)}`{via}", witness=astq.src(x, 60), file=fh, node=c, config=f"call#{i}")
    # inside SD_est: csd keywords
    fe = rel(prog.mods[est.mod].path)
    # the estimator specialised to the periodogram method: its csd call(s), with option dicts written out
    est_pos = astq.params_of(est.node)[0]
    mpar = "method" if "method" in est_pos else (est_pos[4] if len(est_pos) > 4 else None)
    est_full = est
    if mpar is not None:
        est = astq.PrunedFn(est_full, {mpar: "per"}, subst=True)
    csds = [c for c, nm in astq.calls_resolved(prog, est, lambda n: n == "scipy.signal.csd")]
    per = [c for c in csds if astq.kwarg(c, "fs") is not None]
    if not per and csds and not any(k.arg is None for c in csds for k in c.keywords):
        per = csds          # the periodogram's csd call lacks fs=: reported below as dt->fs
    if not per:
        run.ob("R-param", est.qual, "csd(per)", None, "no csd call with fs= (periodogram branch) found: the estimator is written another way, its options are not read", witness="missing", file=fe)
    for c in per:
        kws, kcomplete = astq.call_keywords(prog, est, c)
        nov = kws.get("noverlap")
        if isinstance(nov, ast.IfExp) and isinstance(nov.orelse, ast.Name) and nov.orelse.id == astq.CALLEE_DEFAULT:
            # the overlap is handed over only under a test: a truth test drops pov = 0 (no overlap) - scipy then uses nperseg // 2
            if not (isinstance(nov.test, ast.Compare) and isinstance(nov.test.ops[0], (ast.IsNot, ast.Is))):
                run.ob("R-param", est.qual, "pov->noverlap", False,
                       f"`noverlap` is handed to csd only when `{astq.src(nov.test, 40)}` is truthy: with pov = 0 (no overlap) it is left out and scipy's default "
                       f"noverlap = nperseg // 2 (50 %) is used", witness="noverlap only when truthy", file=fe, node=c)
                nov = None
                kws = dict(kws, noverlap=None)
            else:
                nov = nov.body
        if nov is None and "noverlap" not in kws and not kcomplete:
            pass
        x = astq.expand(est, nov) if nov is not None else None
        from .. import symidx
        from ..poly import P
        v = symidx.SymEval(prog, est).ev(nov) if nov is not None else None
        ok = v is not None and v == P.s("nxseg") * P.s("pov")
        if not ok and (v is None or any(s_ not in ("nxseg", "pov") for k_ in v.t for s_, _e in k_)):
            # written with names that were not resolved to the estimator's own parameters: follow them as data (a local alias of pov)
            dep_p = astq._depends_on(est.node, {"pov"}) if x is not None else set()
            dep_n = astq._depends_on(est.node, {"nxseg"}) if x is not None else set()
            nm_ = {y.id for y in ast.walk(x)} if x is not None and False else ({y.id for y in ast.walk(x) if isinstance(y, ast.Name)} if x is not None else set())
            ok = None if (nm_ & dep_p and nm_ & dep_n) or x is None or v is None else ok
            if ok is False and nm_ and not (nm_ & dep_p):
                ok = False          # nothing of pov in it: the overlap the user set does not arrive
            elif ok is False:
                ok = None
        run.ob("R-param", est.qual, "pov->noverlap", ok, f"noverlap = `{astq.src(x) if x is not None else None}` = {v!r} (expected nxseg*pov)",
               witness=astq.src(x, 60) if x is not None else "missing", file=fe, node=c)
        nps = kws.get("nperseg")
        ok = nps is not None and _is_param(est, nps, "nxseg")
        if not ok and nps is None and not kcomplete:
            ok = None               # keywords spread from a mapping that could not be written out
        elif not ok and nps is not None:
            # a local name for the segment length (nxseg = int(nxseg), an alias made by a helper): the parameter as data
            x_ = astq.strip_coercion(astq.expand(est, nps))
            if isinstance(x_, ast.Name) and x_.id in astq._depends_on(est.node, {"nxseg"}, data_only=True) and not isinstance(astq.expr_at(est, c, nps), ast.BinOp):
                ok = True
            elif not isinstance(x_, (ast.Constant, ast.BinOp)):
                ok = None
        run.ob("R-param", est.qual, "nxseg->nperseg", ok, f"nperseg = `{astq.src(nps) if nps is not None else None}`",
               witness=astq.src(nps, 60) if nps is not None else "missing", file=fe, node=c)
        w = kws.get("window")
        if w is not None and not isinstance(w, ast.Constant):
            w = astq.expand(est, w)
        ok = isinstance(w, ast.Constant) and w.value in ("hann", "hanning")
        if w is not None and not isinstance(w, ast.Constant):
            # an option of the estimator: what it is when the library's defaults are left alone (through every caller in the package)
            ok = astq.resolves_by_default(prog, est, w, lambda v_: v_ in ("hann", "hanning"))
        run.ob("R-param", est.qual, "window", ok, f"window = `{astq.src(w) if w is not None else 'default (hann)'}`" , witness=astq.src(w, 40) if w is not None else "default", file=fe, node=c) if w is not None else \
            run.ob("R-param", est.qual, "window", True, "window default of scipy.signal.csd is 'hann'", file=fe, node=c)
        fsv = kws.get("fs")
        if fsv is None:
            run.ob("R-param", est.qual, "dt->fs", False, "the periodogram's csd call gets no fs= (frequencies in cycles per sample)", witness="missing", file=fe, node=c)
            continue
        x = astq.expand(est, fsv)
        ok = isinstance(x, ast.BinOp) and isinstance(x.op, ast.Div) and isinstance(x.left, ast.Constant) and x.left.value == 1 and isinstance(x.right, ast.Name) and x.right.id == "dt"
        if not ok:
            eparams = set(astq.params_of(est.node)[0] + astq.params_of(est.node)[1])
            if isinstance(x, ast.Name) and x.id == "fs" and "fs" in eparams:
                ok = True           # the estimator is handed the sampling frequency itself (or derives it from dt at its entry)
            elif isinstance(x, ast.Name) and x.id == "dt":
                ok = False          # the sampling interval where the frequency belongs
            elif isinstance(x, ast.BinOp) and isinstance(x.op, ast.Div) and isinstance(x.left, ast.Constant) and x.left.value == 1 and isinstance(x.right, ast.Name) and x.right.id == "fs":
                ok = False
            else:
                ok = None
        run.ob("R-param", est.qual, "dt->fs", ok, f"fs = `{astq.src(x)}`", witness=astq.src(x, 40), file=fe, node=c)
    # the *_MS.run methods
    for cq in ("algorithms.fdd.FDD_MS", "algorithms.fdd.EFDD_MS", "algorithms.plscf.pLSCF_MS"):
        ci = prog.cls(cq)
        rf = prog.find_method(ci, "run")
        fr = rel(prog.mods[rf.mod].path)
        want = {"nxseg": {"self.run_params.nxseg"}, "method": {"self.run_params.method_SD"}, "pov": {"self.run_params.pov"}, "fs": {"self.fs"}}
        label = {"nxseg": "run_params.nxseg->SD_PreGER.nxseg", "method": "run_params.method_SD->SD_PreGER.method", "pov": "run_params.pov->SD_PreGER.pov", "fs": "self.fs->SD_PreGER.fs"}
        res = astq.handover(prog, rf, pre.qual, want, depth=2)
        if not res:
            run.ob("R-param", rf.qual, "SD_PreGER call", False, f"{cq}.run does not call SD_PreGER", witness="missing", file=fr)
            continue
        for rec in astq.forwarded_args(prog, rf, pre.qual, depth=2):
            for e in rec["errors"]:
                run.ob("R-param", rf.qual, "conformance", False, e, witness=e, file=fr, node=rec["outer_call"])
        for c, p_, st, detail in res:
            wit = "default" if "not passed" in detail else detail.split("`")[3][:60] if detail.count("`") >= 4 else detail[:60]
            run.ob("R-param", rf.qual, label[p_], st, detail, witness=wit, file=fr, node=c)


FD = "functions.fdd"
MUTANTS = [
    ("C04-m01 inverse dropped", FD, "SD_PreGER", "np.linalg.inv(Gyy[ii][:n_ref, :n_ref][:, :, ff])", "Gyy[ii][:n_ref, :n_ref][:, :, ff]"),
    ("C04-m02 own reference block instead of the mean", FD, "SD_PreGER", "Gy_refref[:, :, ff]", "Gyy[ii][:n_ref, :n_ref][:, :, ff]", 1),
    ("C04-m03 overlap not forwarded", FD, "SD_PreGER", "SD_est(Y_all, Y_ref, dt, nxseg, method, pov)", "SD_est(Y_all, Y_ref, dt, nxseg, method)", 1),
    ("C04-m04 roving blocks before the reference block", FD, "SD_PreGER", "np.vstack([Gy_refref[:, :, ff], G2])", "np.vstack([G2, Gy_refref[:, :, ff]])"),
    ("C04-m05 transfer block from the wrong corner", FD, "SD_PreGER", "Gyy[ii][n_ref:, :n_ref][:, :, ff]", "Gyy[ii][:n_ref, n_ref:][:, :, ff]"),
    ("C04-m06 segment length not forwarded by FDD_MS", "algorithms.fdd", "FDD_MS.run", "fdd.SD_PreGER(Y, self.fs, nxseg=nxseg, method=method, pov=pov)", "fdd.SD_PreGER(Y, self.fs, method=method, pov=pov)"),
    ("C04-m07 dt passed as fs", FD, "SD_PreGER", "dt = 1 / fs", "dt = fs"),
    ("C04-m08 transposed inverse", FD, "SD_PreGER", "np.linalg.inv(Gyy[ii][:n_ref, :n_ref][:, :, ff])", "np.linalg.inv(Gyy[ii][:n_ref, :n_ref][:, :, ff]).T"),
    ("C04-m09 boxcar window for the periodogram", FD, "SD_est", "'hann'", "'boxcar'"),
    ("C04-m10 frequency vector rebuilt from nxseg", FD, "SD_PreGER", "return (freq, Sy)", "freq = np.arange(Sy.shape[2]) * fs / nxseg\nreturn (freq, Sy)"),
    ("C04-m11 reference block = first setup only", FD, "SD_PreGER", "1 / n_setup * np.sum([Gyy[ii][:n_ref, :n_ref] for ii in range(n_setup)], axis=0)", "Gyy[0][:n_ref, :n_ref]"),
    ("C04-m12 pov and method swapped in pLSCF_MS", "algorithms.plscf", "pLSCF_MS.run", "fdd.SD_PreGER(Y, self.fs, nxseg=nxseg, method=method, pov=pov)", "fdd.SD_PreGER(Y, self.fs, nxseg, method, pov)"),
]
REWRITES = [
    ("rename:C04-r01", FD, "SD_PreGER", "Gy_refref", "ref_mean"),
    ("C04-r02 solve instead of inverse", FD, "SD_PreGER", "np.dot(np.dot(Gyy[ii][n_ref:, :n_ref][:, :, ff], np.linalg.inv(Gyy[ii][:n_ref, :n_ref][:, :, ff])), Gy_refref[:, :, ff])",
     "Gyy[ii][n_ref:, :n_ref][:, :, ff] @ np.linalg.inv(Gyy[ii][:n_ref, :n_ref][:, :, ff]) @ Gy_refref[:, :, ff]"),
    ("C04-r03 keyword arguments to SD_est", FD, "SD_PreGER", "SD_est(Y_all, Y_mov, dt, nxseg, method, pov)", "SD_est(Y_all, Y_mov, dt, nxseg=nxseg, method=method, pov=pov)", 1),
]
