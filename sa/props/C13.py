"""C13 - spectral matrix estimation: grid, pairing, scaling.

Decided (structural): O-grid - freq ~ 1/s for both estimators; for 'cor' it is arange(n) * 1/(dt*nxseg), for 'per' the grid scipy
returns for fs = 1/dt, nperseg = nxseg; O-bilinear - Sy ~ g_all * g_ref (x the PSD unit) for both estimators; R-pairing - the FIRST
(conjugated) csd operand is the all-channel record with the channel axis first and a unit second axis, the second operand the
reference record with a unit first axis, so entry (i, j) pairs channel i with reference j and the phase convention is fixed;
R-param - pov -> noverlap = nxseg*pov, nxseg -> nperseg, Hann window for 'per'.
Not decided: Welch equivalence, PSD-ness, Parseval, gain/delay tolerances (scipy.signal.csd and numerics).
"""
import ast
import copy

from ..absint import Interp, CTX, Cst, D, Tup
from .. import hd, astq, symidx
from ..hd import SEC, expect, events_to_obligations
from ..program import rel, FuncInfo
from ..poly import P

FN = "functions.fdd.SD_est"


def check(prog, run):
    run.rule("O-grid", "freq returned by SD_est has unit 1/s (both estimators); the 'cor' grid is arange(n) * 1/(dt*nxseg)", 3)
    run.rule("O-bilinear", "Sy returned by SD_est is bilinear: degree 1 in the gain of Yall and 1 in the gain of Yref", 2)
    run.rule("O-hom", "no degree-mixing operation in SD_est", 1)
    run.rule("R-pairing", "every csd call pairs Yall (channel axis first, unit second axis) as FIRST operand with Yref (unit first axis) as second", 4)
    run.rule("R-param", "pov -> noverlap = nxseg*pov, nxseg -> nperseg, window 'hann', fs = 1/dt in the 'per' branch", 4)
    run.rule("R-stateless", "the estimators change no module-level table in place: the estimate of one call does not depend on the options of the calls before it", 2)
    from ..effects import shared_state_rule
    reach_ = sorted(q for q in prog.reachable([prog.func(FN).qual, prog.func("functions.fdd.SD_PreGER").qual]) if q in prog.functions and not q.startswith("pyoma2.functions.plot"))
    shared_state_rule(prog, run, "R-stateless", reach_, "the estimate depends on which estimator was used in the calls before")
    # the estimate is a function of the records handed in: nothing is written into (a view of) them - a second estimate from the same arrays
    # is the same estimate, and when the reference records are rows of the data they are not windowed twice
    run.rule("R-inputs-intact", "SD_est and what it calls change none of their array arguments in place (stores, augmented assignments, out=, in-place methods, through "
             "views - reshape, slices - and through helpers that hand back their argument)", 1)
    from . import C15
    C15.shared_data(prog, run.under({"R-shared-data": "R-inputs-intact"}), sorted(q for q in prog.reachable([prog.func(FN).qual]) if q in prog.functions and not q.startswith("pyoma2.functions.plot")))
    I = Interp(prog)
    fn = I.fn(FN)
    seen = set()
    for m, unit in (("per", dict(s=1)), ("cor", {})):
        cfg = f"method={m}"
        CTX.events.clear()
        r = I.call(fn, [D(2, ga=1), D(2, gr=1), SEC, Cst(1024), Cst(m), Cst(0.5)])
        if not isinstance(r, Tup) or len(r.items) != 2:
            run.ob("O-grid", fn.qual, "return", None, f"unexpected return {r!r}"[:160], config=cfg)
            continue
        expect(run, prog, "O-grid", fn.qual, "freq", r.items[0], dict(s=-1), cfg, allow_any=False)
        e = dict(unit); e.update(ga=1, gr=1)
        expect(run, prog, "O-bilinear", fn.qual, "Sy", r.items[1], e, cfg, allow_any=False)
        events_to_obligations(run, prog, "O-hom", cfg, seen=seen)
    if not any(o.rule == "O-hom" for o in run.obs):
        run.ob("O-hom", fn.qual, "all-operations", True, "no event")
    run.trusted |= set(CTX.used)
    fi = prog.func(FN)
    f = rel(prog.mods[fi.mod].path)
    pairing(prog, run, fi, f)
    pairing_by_hand(prog, run, fi, f)
    welch_by_hand(prog, run, fi, f)
    cor_grid(prog, run, fi, f)
    # the single-setup run methods hand their run parameters to the estimator
    n_callers = 0
    for ci, m in prog.class_methods("pyoma2.algorithms", "run"):
        res = astq.handover(prog, m, fi.qual, {"nxseg": {"self.run_params.nxseg"}, "method": {"self.run_params.method_SD"},
                                                "pov": {"self.run_params.pov"}, "dt": {"self.dt", "1 / self.fs"}})
        est_params = set(astq.params_of(fi.node)[0] + astq.params_of(fi.node)[1])
        for c, p_, ok, detail in res:
            n_callers += 1
            if p_ == "dt" and ok is False and "is not passed" in detail and "fs" in est_params:
                # the sampling is handed over as a frequency instead: the estimator's `fs` parameter takes self.fs (or 1 / self.dt)
                alt = [x for x in astq.handover(prog, m, fi.qual, {"fs": {"self.fs", "1 / self.dt"}}) if x[0] is c]
                if alt:
                    _, _, ok, detail = alt[0]
            run.ob("R-param", m.qual, f"run_params -> SD_est.{p_}", ok, detail, witness=detail[:90], file=rel(prog.mods[m.mod].path), node=c, config=p_)
    if not n_callers:
        run.ob("R-param", "pyoma2.algorithms", "callers of SD_est", None, "no run() method calling SD_est found")
    from .C04 import params as c04_params
    # the SD_est part of C04's parameter rule is shared
    before = len(run.obs)
    c04_params(prog, run)
    run.obs[before:] = [o for o in run.obs[before:] if o.fn == fi.qual]


def _unit_axis_form(prog, fi, e, params, at=None):
    """classify an operand: returns (base param name, position of the unit axis, position of channel axis) or None"""
    x = astq.expr_at(fi, at, e) if at is not None else astq.expand(fi, e, stop=params)
    if isinstance(x, ast.Call) and astq.callee_name(prog, fi, x) == "numpy.reshape" and len(x.args) == 2 and isinstance(x.args[0], ast.Name):
        # function form: np.reshape(X, shape) == X.reshape(shape)
        x = ast.Call(func=ast.Attribute(value=x.args[0], attr="reshape", ctx=ast.Load()), args=[x.args[1]], keywords=[])
    if isinstance(x, ast.Call) and isinstance(x.func, ast.Attribute) and x.func.attr == "reshape" and isinstance(x.func.value, ast.Name):
        args = x.args[0].elts if len(x.args) == 1 and isinstance(x.args[0], (ast.Tuple, ast.List)) else x.args
        ones = [i for i, a in enumerate(args) if isinstance(a, ast.Constant) and a.value == 1]
        if len(args) == 3 and len(ones) == 1:
            base = x.func.value.id
            # channel axis: the dim that is base.shape[0]
            se = symidx.SymEval(prog, fi)
            ch = [i for i, a in enumerate(args) if i not in ones and repr(se.ev(a)) == f"{base}.shape[0]"]
            return base, ones[0], (ch[0] if ch else None)
    if isinstance(x, ast.Subscript) and isinstance(x.value, ast.Name):
        el = astq.index_elts(x)
        def isnew(a):
            return (isinstance(a, ast.Constant) and a.value is None) or astq.src(a) in ("np.newaxis", "numpy.newaxis")
        news = [i for i, a in enumerate(el) if isnew(a)]
        if len(el) == 3 and len(news) == 1 and all(astq.is_full_slice(a) for i, a in enumerate(el) if i not in news):
            ch = 0 if news[0] != 0 else 1
            return x.value.id, news[0], ch
    return None


def pairing(prog, run, fi, f):
    pos, _, _, _ = astq.params_of(fi.node)
    p_all, p_ref = pos[0], pos[1]
    mpar = "method" if "method" in pos else (pos[4] if len(pos) > 4 else None)
    # judged per estimator (the two methods may share one csd call site or have one each)
    sites = []
    for meth in ("per", "cor"):
        pf = astq.PrunedFn(fi, {mpar: meth}, subst=True) if mpar is not None else fi
        found = [c for c, nm in astq.calls_resolved(prog, pf, lambda n: n == "scipy.signal.csd")]
        if not found:
            run.ob("R-pairing", fi.qual, "csd", None, f"no scipy.signal.csd call in SD_est for method '{meth}': the estimator is written another way, the pairing rule does not read it", witness="missing", file=f, config=f"method={meth}")
        sites += [(meth, pf, c) for c in found]
    full = fi
    for i, (meth, fi, c) in enumerate(sites):
        x0 = astq.kwarg(c, "x", 0)
        y0 = astq.kwarg(c, "y", 1)
        if c.args and isinstance(c.args[0], ast.Starred):
            # csd(*pair(...), ...): the pair is a two-tuple (possibly returned by a helper)
            t = astq.expr_at(fi, c, c.args[0].value)
            x0, y0 = (t.elts[0], t.elts[1]) if isinstance(t, ast.Tuple) and len(t.elts) == 2 else (None, None)
        a = _unit_axis_form(prog, fi, x0, pos, c) if x0 is not None else None
        b = _unit_axis_form(prog, fi, y0, pos, c) if y0 is not None else None
        cfg = f"method={meth}"
        if a is None or b is None:
            run.ob("R-pairing", fi.qual, "operands", None, f"operand form not recognised: `{astq.src(x0) if x0 is not None else None}`, `{astq.src(y0) if y0 is not None else None}`", file=f, node=c, config=cfg)
            continue
        ok = a[0] == p_all and b[0] == p_ref
        if not ok:
            # operands named after a conversion of the argument (Y1 = np.asarray(Yall, float) ..): which argument each is made of
            da, dr = astq._depends_on(fi.node, {p_all}, data_only=True), astq._depends_on(fi.node, {p_ref}, data_only=True)
            sa_ = {k_ for k_, d_ in (("all", da), ("ref", dr)) if a[0] in d_}
            sb_ = {k_ for k_, d_ in (("all", da), ("ref", dr)) if b[0] in d_}
            ok = True if (sa_ == {"all"} and sb_ == {"ref"}) else (False if (sa_ == {"ref"} and sb_ == {"all"}) else None)
        run.ob("R-pairing", fi.qual, "first operand (conjugated) derives from Yall, second from Yref", ok,
               f"x <- {a[0]}, y <- {b[0]}", witness=f"x<-{a[0]},y<-{b[0]}", file=f, node=c, config=cfg)
        ok = a[1] == 1 and a[2] == 0 and b[1] == 0 and b[2] == 1
        if not ok and a[1] == 1 and b[1] == 0 and (a[2] is None or b[2] is None) and a[2] in (0, None) and b[2] in (1, None):
            ok = None           # unit axes as required, a channel axis could not be identified (its length is not traced to shape[0])
        run.ob("R-pairing", fi.qual, "broadcast axes give (n_all, n_ref, f)", ok,
               f"x: unit axis {a[1]}, channel axis {a[2]}; y: unit axis {b[1]}, channel axis {b[2]}",
               witness=f"x:{a[1]}/{a[2]} y:{b[1]}/{b[2]}", file=f, node=c, config=cfg)


def cor_grid(prog, run, fi, f):
    """in the 'cor' branch: freq = arange(0, n) * (1/dt/nxseg)"""
    se = symidx.SymEval(prog, fi)
    found = False
    for n in ast.walk(fi.node):
        if isinstance(n, ast.Assign) and isinstance(n.value, ast.BinOp) and isinstance(n.value.op, ast.Mult):
            l, r = n.value.left, n.value.right
            for ar, fac in ((l, r), (r, l)):
                rc = symidx.is_range(prog, fi, ar)
                if rc is None or astq.callee_name(prog, fi, rc) != "numpy.arange":
                    continue
                found = True
                ra = symidx.range_args(se, rc)
                v = se.ev(fac)
                exp = P({(("dt", -1), ("nxseg", -1)): 1})
                pnames = set(astq.params_of(fi.node)[0] + astq.params_of(fi.node)[1])
                if v is not None and "fs" in pnames and any(s_ == "fs" for k_ in v.t for s_, _ in k_):
                    # the sampling frequency handed in (or derived from dt at entry) is 1/dt by the routine's contract
                    v = P({tuple(sorted([(("dt" if s_ == "fs" else s_), (-e_ if s_ == "fs" else e_)) for s_, e_ in k_])): c_ for k_, c_ in v.t.items()})
                ok = v is not None and v == exp and ra is not None and ra[0] == P.c(0) and ra[2] == P.c(1)
                if not ok and v is not None and ra is not None:
                    # decided as different only when the spacing is written in the routine's own parameters or in the extent of an array it
                    # computed (a length that is nxseg only for some nxseg); other symbols are not read
                    syms = {s_ for k_ in v.t for s_, _ in k_}
                    if not (syms <= {"dt", "nxseg"} or any(".shape[" in s_ or s_.startswith("len(") for s_ in syms)):
                        ok = None
                run.ob("O-grid", fi.qual, "cor grid spacing", ok, f"freq = arange({ra[0] if ra else '?'}, ..) * ({v!r})",
                       witness=f"{v!r}", file=f, node=n, config="method=cor")
    if not found:
        run.ob("O-grid", fi.qual, "cor grid spacing", None, "frequency-vector construction `arange(..) * factor` not found in SD_est", file=f)


FD = "functions.fdd"
MUTANTS = [
    ("C13-m01 operands of the periodogram csd swapped", FD, "SD_est", "signal.csd(Yall.reshape(n_all, 1, Ndat), Yref.reshape(1, n_ref, Ndat), fs=1 / dt, nperseg=nxseg, noverlap=noverlap, window='hann')",
     "signal.csd(Yref.reshape(1, n_ref, Ndat), Yall.reshape(n_all, 1, Ndat), fs=1 / dt, nperseg=nxseg, noverlap=noverlap, window='hann')"),
    ("C13-m02 broadcast axes swapped", FD, "SD_est", "Yall.reshape(n_all, 1, Ndat)", "Yall.reshape(1, n_all, Ndat)", 1),
    ("C13-m03 sampling frequency = dt", FD, "SD_est", "1 / dt", "dt", 2),
    ("C13-m04 overlap ignored", FD, "SD_est", "noverlap = nxseg * pov", "noverlap = nxseg // 2"),
    ("C13-m05 correlogram grid with the wrong spacing", FD, "SD_est", "np.arange(0, Sy.shape[2]) * (1 / dt / nxseg)", "np.arange(0, Sy.shape[2]) * (1 / dt / (2 * nxseg))"),
    ("C13-m07 reference data squared", FD, "SD_est", "Yref.reshape(1, n_ref, Ndat)", "(Yref * Yref).reshape(1, n_ref, Ndat)", 2),
    ("C13-m08 correlogram operands swapped", FD, "SD_est", "signal.csd(Yall.reshape(n_all, 1, Ndat), Yref.reshape(1, n_ref, Ndat), nperseg=nxseg // 2, nfft=nxseg, noverlap=0, window='boxcar')",
     "signal.csd(Yref.reshape(1, n_ref, Ndat), Yall.reshape(n_all, 1, Ndat), nperseg=nxseg // 2, nfft=nxseg, noverlap=0, window='boxcar')"),
]
REWRITES = [
    ("rename:C13-r01", FD, "SD_est", "noverlap", "n_over"),
    ("C13-r02 newaxis instead of reshape", FD, "SD_est", "Yall.reshape(n_all, 1, Ndat)", "Yall[:, None, :]", 2),
    ("C13-r03 grid spacing as one quotient", FD, "SD_est", "np.arange(0, Sy.shape[2]) * (1 / dt / nxseg)", "np.arange(0, Sy.shape[2]) * (1 / (dt * nxseg))"),
]


_check_base = check


def check(prog, run):
    _check_base(prog, run)
    cor_chain(prog, run)


def pairing_by_hand(prog, run, fi, f):
    """an estimator that multiplies the segment transforms itself: entry (i, j) = conj(X_all[i]) . X_ref[j] - the conjugate sits on the
    transform of the FIRST argument (scipy.signal.csd's convention, the library's phase convention); and the first output index of the
    pair product belongs to the first argument"""
    raw = prog.raw
    fr = raw.functions[fi.qual]
    pos, _, _, _ = astq.params_of(fr.node)
    p_all, p_ref = pos[0], pos[1]
    n = 0
    for q in sorted(x for x in raw.reachable([fr.qual]) if x in raw.functions):
        g = raw.functions[q]
        gp = astq.params_of(g.node)[0] + astq.params_of(g.node)[1]
        for c in ast.walk(g.node):
            if not (isinstance(c, ast.Call) and astq.src(c.func).split(".")[-1] == "einsum" and len(c.args) == 3 and isinstance(c.args[0], ast.Constant) and "->" in str(c.args[0].value)):
                continue
            a, b = c.args[1], c.args[2]

            def conj_of(x):
                if isinstance(x, ast.Call) and isinstance(x.func, ast.Attribute) and x.func.attr in ("conj", "conjugate") and not x.args:
                    return x.func.value
                if isinstance(x, ast.Call) and astq.src(x.func).split(".")[-1] in ("conj", "conjugate") and len(x.args) == 1:
                    return x.args[0]
                return None
            ca, cb = conj_of(a), conj_of(b)
            if (ca is None) == (cb is None):
                continue
            # which argument(s) of SD_est each operand is made from
            def side(x):
                roots = {y.id for y in ast.walk(x) if isinstance(y, ast.Name)}
                if g.node is fr.node:
                    return {k_ for k_, p_ in (("all", p_all), ("ref", p_ref)) if roots & astq._depends_on(g.node, {p_}, data_only=True)}
                src_params = [p_ for p_ in gp if roots & astq._depends_on(g.node, {p_}, data_only=True)]
                sides = set()
                for rec in astq.forwarded_args(raw, fr, g.qual, depth=3):
                    for p_ in src_params:
                        e_ = rec["args"].get(p_)
                        if e_ is None:
                            continue
                        nm_ = {y.id for y in ast.walk(e_) if isinstance(y, ast.Name)}
                        sides |= {k_ for k_, pp in (("all", p_all), ("ref", p_ref)) if pp in nm_}
                return sides
            which = side(ca if ca is not None else cb)
            other = side(b if ca is not None else a)
            n += 1
            ok = True if (which == {"all"} and "ref" in other) else (False if (which == {"ref"} and "all" in other) else None)
            which = next(iter(which)) if len(which) == 1 else None
            run.ob("R-pairing", fi.qual, "pair product by hand: conj on the transform of the first argument", ok,
                   f"`{astq.src(c, 70)}` in {g.node.name}: the conjugated factor is made from `{ {'all': p_all, 'ref': p_ref}.get(which, '?') }`" +
                   ("" if ok is not False else f" - scipy.signal.csd(x, y) (and the other estimator) gives conj(X) . Y: the phase of every off-diagonal entry changes sign"),
                   witness=f"conj on {which}", file=f, node=c, config="by hand")
    return n


def welch_by_hand(prog, run, fi, f):
    """an estimator that cuts the segments itself (sliding windows taken every `step` samples) instead of calling scipy.signal.csd:
    Welch's estimate with overlap pov needs step = nperseg - noverlap = nxseg - nxseg*pov, expressed in SD_est's own parameters
    through every helper on the way; and the taper of the periodogram is the Hann window"""
    prog = prog.raw             # (the calls as written: the helpers on the way keep their parameters)
    fi = prog.functions[fi.qual]
    pos, _, _, _ = astq.params_of(fi.node)
    mpar = "method" if "method" in pos else (pos[4] if len(pos) > 4 else None)
    pf = astq.PrunedFn(fi, {mpar: "per"}, subst=True, renormalise=False) if mpar is not None else fi
    if [c for c, nm in astq.calls_resolved(prog, pf, lambda n: n == "scipy.signal.csd")]:
        return
    want = P.s("nxseg") - P.s("nxseg") * P.s("pov")
    want2 = P.s("nperseg") - P.s("nxseg") * P.s("pov")         # (nperseg = nxseg for the periodogram, as long as the record is longer than a segment)
    n = 0
    reach = [q for q in prog.reachable([fi.qual]) if q in prog.functions]
    for q in reach:
        g = prog.functions[q]
        for sub in ast.walk(g.node):
            if not (isinstance(sub, ast.Subscript) and isinstance(sub.value, ast.Call) and astq.src(sub.value.func).split(".")[-1] == "sliding_window_view"):
                continue
            steps = [e.step for e in astq.index_elts(sub) if isinstance(e, ast.Slice) and e.step is not None]
            if len(steps) != 1:
                continue
            st = astq.expr_at(g, sub, steps[0])
            if isinstance(st, ast.BoolOp) and isinstance(st.op, ast.Or) and isinstance(st.values[0], ast.Name):
                st = st.values[0]           # `step or nperseg`: the value handed in, when one is
            exprs = []
            if g.node is fi.node:
                exprs = [(astq.expr_at(pf, sub, steps[0]), sub)]
            else:
                gp = set(astq.params_of(g.node)[0] + astq.params_of(g.node)[1])
                for rec in astq.forwarded_args(prog, pf, g.qual, depth=3):
                    names = {x.id for x in ast.walk(st) if isinstance(x, ast.Name) and x.id in gp}
                    if all(rec["args"].get(nm_) is not None for nm_ in names):
                        exprs.append((astq.fold(astq._SubstEnv({nm_: rec["args"][nm_] for nm_ in names}).visit(copy.deepcopy(st))), rec["outer_call"]))
                    elif any(nm_ in rec["missing"] for nm_ in names):
                        exprs.append((None, rec["outer_call"]))       # left at the helper's default (no overlap): not this branch's business when pov is unused
            for e, at in exprs:
                n += 1
                if e is None:
                    run.ob("R-param", fi.qual, "segment stride = nxseg - nxseg*pov", None, f"stride of the segments in {g.node.name} is left at its default at `{astq.src(at, 50)}`", file=f, node=at, config="by hand")
                    continue
                v = symidx.SymEval(prog, pf).ev(e)
                known = v is not None and all(s_ in ("nxseg", "pov", "nperseg") for k_ in v.t for s_, _e in k_)
                ok = None if not known else (v == want or v == want2)
                run.ob("R-param", fi.qual, "segment stride = nxseg - nxseg*pov", ok,
                       f"segments are taken every `{astq.src(e, 50)}` = {v!r} samples (in {g.node.name})" + ("" if ok is not False else
                       f"; Welch's average with overlap pov moves on by nperseg - noverlap = {want!r} - the two agree only for pov = 0.5"),
                       witness=f"{v!r}", file=f, node=at, config="by hand")
    if not n:
        run.ob("R-param", fi.qual, "segment stride = nxseg - nxseg*pov", None, "neither a scipy.signal.csd call nor segments cut with sliding_window_view(..)[::step] found", file=f, config="by hand")


def P_half():
    from fractions import Fraction
    return P.c(Fraction(1, 2))


def cor_chain(prog, run):
    run.rule("R-cor-chain", "correlogram estimator: raw (boxcar, non-overlapping, zero-padded) periodogram -> inverse FFT -> exponential lag window -> FFT", 4)
    fi = prog.func(FN)
    f = rel(prog.mods[fi.mod].path)
    pos, _, _, _ = astq.params_of(fi.node)
    pf = astq.PrunedFn(fi, {pos[4]: "cor"}, subst=True)
    rets = [n for n in ast.walk(pf.node) if isinstance(n, ast.Return) and isinstance(n.value, ast.Tuple)]
    if not rets:
        run.ob("R-cor-chain", fi.qual, "return", None, "no tuple return on the 'cor' path", file=f)
        return
    x = astq.expr_at(pf, rets[-1], rets[-1].value.elts[1])
    ok_outer = isinstance(x, ast.Call) and astq.callee_name(prog, pf, x) == "numpy.fft.rfft" and x.args
    inner = x.args[0] if ok_outer else None
    ok_mid = isinstance(inner, ast.BinOp) and isinstance(inner.op, ast.Mult)
    ir = win = None
    if ok_mid:
        for a, b in ((inner.left, inner.right), (inner.right, inner.left)):
            if isinstance(a, ast.Call) and astq.callee_name(prog, pf, a) == "numpy.fft.irfft":
                ir, win = a, b
    ok_chain = bool(ok_outer and ok_mid and ir is not None)
    if not ok_chain and not any(isinstance(n_, ast.Call) and "fft" in astq.src(n_.func) for n_ in ast.walk(x)):
        ok_chain = None         # the returned value could not be written out down to the transforms: nothing recognised, nothing judged
    run.ob("R-cor-chain", fi.qual, "Sy = rfft(irfft(P) * window)", ok_chain, f"`{astq.src(x, 100)}`", witness=astq.src(x, 80), file=f, node=rets[-1])
    if ir is None:
        return
    src_p = ir.args[0] if ir.args else None
    okp = isinstance(src_p, ast.Subscript) and isinstance(src_p.slice, ast.Constant) and src_p.slice.value == 1 and isinstance(src_p.value, ast.Call) \
        and astq.callee_name(prog, pf, src_p.value) == "scipy.signal.csd"
    if not okp and (src_p is None or isinstance(src_p, ast.Name) or not any(isinstance(n_, ast.Call) for n_ in ast.walk(src_p))):
        okp = None              # where the transformed spectrum comes from could not be written out
    run.ob("R-cor-chain", fi.qual, "P = cross spectrum returned by csd", okp, f"`{astq.src(src_p, 60) if src_p is not None else None}`", witness=astq.src(src_p, 60) if src_p is not None else "none", file=f, node=rets[-1])
    if okp:
        c = src_p.value
        se = symidx.SymEval(prog, pf)
        w = astq.kwarg(c, "window")
        nov = astq.kwarg(c, "noverlap")
        nfft = se.ev(astq.kwarg(c, "nfft")) if astq.kwarg(c, "nfft") is not None else None
        nps = astq.kwarg(c, "nperseg")
        npv = se.ev(nps) if nps is not None else None
        half = npv is not None and (npv == P.s("nxseg") * P_half() or repr(npv) in ("floor(1/2*nxseg)", "1/2*nxseg") or astq.src(nps).replace(" ", "") in ("nxseg//2", "int(nxseg/2)"))
        okk = isinstance(w, ast.Constant) and w.value == "boxcar" and isinstance(nov, ast.Constant) and nov.value == 0 and nfft is not None and nfft == P.s("nxseg") \
            and nps is not None and half
        if not okk and isinstance(w, ast.Constant) and w.value == "boxcar" and isinstance(nov, ast.Constant) and nov.value == 0 and nfft is not None and nfft == P.s("nxseg") \
                and (npv is None or any(s_ != "nxseg" and not s_.startswith("floor(") for k_ in npv.t for s_, _e in k_)):
            okk = None          # the segment length is written in terms that were not resolved
        if not okk and astq.kwargs_open(c) and None in (w, nov, nps):
            okk = None          # the options travel through `**...`: what is not written at the call is not known to be absent
        run.ob("R-cor-chain", fi.qual, "raw periodogram: boxcar window, no overlap, segments of nxseg/2 zero-padded to nxseg", okk,
               f"window={astq.src(w) if w is not None else None}, noverlap={astq.src(nov) if nov is not None else None}, nfft={nfft!r}, nperseg={astq.src(nps) if nps is not None else None}",
               witness=f"{astq.src(w) if w is not None else None}/{astq.src(nov) if nov is not None else None}/{nfft!r}", file=f, node=c)
    okw = isinstance(win, ast.Call) and astq.callee_name(prog, pf, win) == "scipy.signal.windows.exponential"
    detail = astq.src(win, 100) if win is not None else "none"
    if okw:
        cen = astq.kwarg(win, "center", 1)
        sym = astq.kwarg(win, "sym", 3)
        tau = astq.kwarg(win, "tau", 2)
        okw = isinstance(cen, ast.Constant) and cen.value == 0 and isinstance(sym, ast.Constant) and sym.value is False and tau is not None
        if okw:
            # tau = -M / log(0.01): the window falls to 1 % at the last lag
            t = astq.src(tau, 4000).replace(" ", "")
            okw = "log(0.01)" in t and t.startswith("-")
    okw = bool(okw)
    if not okw:
        # a window made by a helper of the package is looked into once; anything that is not an exponential-window call is not judged
        wcall = win
        if isinstance(wcall, ast.Call) and astq.callee_name(prog, pf, wcall) != "scipy.signal.windows.exponential":
            r_ = None
            try:
                r_ = prog.resolve_call(pf, wcall)
            except Exception:
                pass
            inner = None
            if isinstance(r_, FuncInfo):
                for n_ in ast.walk(r_.node):
                    if isinstance(n_, ast.Call) and astq.callee_name(prog, r_, n_) == "scipy.signal.windows.exponential":
                        inner = (r_, n_)
            if inner is not None:
                r_, n_ = inner
                cen, sym, tau = astq.kwarg(n_, "center", 1), astq.kwarg(n_, "sym", 3), astq.kwarg(n_, "tau", 2)
                t = astq.src(astq.expr_at(r_, n_, tau), 4000).replace(" ", "") if tau is not None else ""
                okw = isinstance(cen, ast.Constant) and cen.value == 0 and isinstance(sym, ast.Constant) and sym.value is False and "log(0.01)" in t and t.startswith("-")
                detail = astq.src(n_, 100) + f" (in {r_.node.name})"
            else:
                okw = None
        elif not isinstance(wcall, ast.Call):
            okw = None
    run.ob("R-cor-chain", fi.qual, "exponential lag window starting at lag 0 and decaying to 1 % at the last lag", okw, f"`{detail}`", witness=detail[:80], file=f, node=rets[-1])


MUTANTS += [
    ("C13-m09 correlogram window centred in the middle of the lags", FD, "SD_est", "signal.windows.exponential(Rxy.shape[2], center=0, tau=tau, sym=False)", "signal.windows.exponential(Rxy.shape[2], tau=tau)"),
    ("C13-m10 correlogram from a Hann periodogram", FD, "SD_est", "'boxcar'", "'hann'"),
    ("C13-m11 window applied to the spectrum instead of the correlation", FD, "SD_est", "Sy = np.fft.rfft(Rxy)", "Sy = np.fft.rfft(np.fft.irfft(Pxy)) * win[:Pxy.shape[2]]"),
]
REWRITES += [
    ("C13-r04 explicit product instead of in-place", FD, "SD_est", "Rxy *= win", "Rxy = Rxy * win"),
]
