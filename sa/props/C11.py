"""C11 - modal parameter extraction returns the requested pole, whole and only if close.

Decided (structural, in ssi.SSI_mpe and plscf.pLSCF_mpe, branches order = int / list / 'find_min'):
R-own-freq - the closeness test compares the selected pole with the loop's OWN requested frequency (not with the whole request list);
R-same-pole - every value appended for one mode (frequency, damping, shape and the three covariances) is read from its table at
the same (row, column): column = the requested order (order, resp. order[k] with the loop counter), row = nanargmin|Fn[:, column] - f|;
R-guarded-append - the appends sit in the success branch of the closeness test; R-slots - each returned slot is fed from the table
of the same kind; R-first-order - SSI_mpe 'find_min' scans the columns ascending, takes every value from the first qualifying column,
reports that column and leaves the loop; R-handover - mpe()/mpe_from_plot() of the algorithm classes pass the result tables under the
matching parameters and store each returned value into the field of the same name.
Not decided: absolute-vs-relative band of find_min, 'exactly one stable pole', pLSCF_mpe's find_min loop (unreachable while its label
constant is 7, see C10).
"""
import ast

from .. import astq, symidx
from ..program import rel, FuncInfo, AnalysisError
from ..poly import P

TARGETS = [("functions.ssi.SSI_mpe", True), ("functions.plscf.pLSCF_mpe", False)]
ORDERS = {"int": 3, "list": [2, 3]}


def _appends(fn_node):
    out = []
    for n in ast.walk(fn_node):
        if isinstance(n, ast.Call) and isinstance(n.func, ast.Attribute) and n.func.attr == "append" and isinstance(n.func.value, ast.Name) and len(n.args) == 1:
            out.append(n)
    return out


def declare_extraction_rules(run, first_order=True, handover_min=30):
    run.rule("R-own-freq", "closeness test: isclose(pole at (row, col), the loop's own requested frequency, rtol=rtol)", 4)
    run.rule("R-same-pole", "all values appended for one mode come from (row, col) with col = requested order and row = nanargmin|Fn[:, col] - f|", 20)
    run.rule("R-guarded-append", "appends are dominated by the success branch of the closeness test", 4)
    run.rule("R-slots", "returned Fn/Xi/Phi(/covariances) are built from the lists fed by the table of the same kind", 6)
    if first_order:
        run.rule("R-first-order", "SSI_mpe find_min: ascending scan over all columns, values taken at the first qualifying column, that column reported, loop left", 5)
    if handover_min is not None:
        run.rule("R-handover", "mpe / mpe_from_plot pass result.{Fn,Xi,Phi}_poles, Lab, covariances under the matching parameter and store returns in the matching fields", handover_min)


def extraction(prog, run, first_order=True, with_handover=True, only_methods=None):
    """the rules of the explicit-order extraction (shared with C01 and C16, for which it is a necessary condition)"""
    for qual, has_cov in TARGETS:
        fi = prog.func(qual)
        f = rel(prog.mods[fi.mod].path)
        pos, _, _, _ = astq.params_of(fi.node)
        p_freq, tF, tX, tP, p_order = pos[0], pos[1], pos[2], pos[3], pos[4]
        kinds = {tF: "Fn", tX: "Xi", tP: "Phi"}
        if has_cov:
            for p in pos:
                if p.endswith("_cov"):
                    kinds[p] = p
        tables = set(kinds)
        for label, oval in ORDERS.items():
            cfg = f"order={label}"
            consts = {p_order: oval}
            pf = astq.PrunedFn(fi, consts)
            pm = astq.parent_map(pf.node)
            if not explicit_branch_lam(prog, run, fi, pf, f, cfg, label, oval, p_freq, p_order, tF, kinds, tables, has_cov):
                explicit_branch(prog, run, fi, pf, pm, f, cfg, label, p_freq, p_order, tF, kinds, tables, has_cov)
        if qual.endswith("SSI_mpe") and first_order:
            find_min(prog, run, fi, f, p_freq, p_order, tF, kinds, tables)
    if with_handover:
        handover(prog, run, only_methods)


def check(prog, run):
    declare_extraction_rules(run)
    extraction(prog, run)
    run.rule("R-own-option", "an extraction routine hands its options (rtol, ..) to every helper that repeats them with the same default, wherever what the helper "
             "computes from them is used", 0)
    raw = prog.raw              # (the calls as written: the normaliser writes small helpers out at their calls, default values and all)
    roots = [raw.func(q_).qual for q_ in ("functions.ssi.SSI_mpe", "functions.plscf.pLSCF_mpe") if q_.split(".")[-1] in {f_.node.name for f_ in raw.functions.values()}]
    reach = sorted(q_ for q_ in raw.reachable(roots) if q_ in raw.functions and not q_.startswith("pyoma2.functions.plot"))
    astq.repeated_option_rule(raw, run, "R-own-option", reach)
    run.rule("R-dtype", "no returned table takes its dtype from the requested frequencies / orders as the caller typed them (integers truncate what is stored)", 0)
    reach2 = sorted(q_ for q_ in prog.reachable([prog.func(q_).qual for q_ in ("functions.ssi.SSI_mpe", "functions.plscf.pLSCF_mpe")]) if q_ in prog.functions and not q_.startswith("pyoma2.functions.plot"))
    astq.inherited_dtype_rule(prog, run, "R-dtype", reach2)
    run.rule("R-filter-guard", "a selection that removes the modes outside the tolerance is carried out whenever the closeness mask rejects something (not only "
             "when it accepts nothing)", 0)
    astq.empty_selection_rule(prog.raw, run, "R-filter-guard", [q_ for q_ in reach if q_ in prog.raw.functions])


def _row_is_nearest(prog, pf, row, tF, col, freqvar, tables):
    """row == nanargmin(abs(Fn[:, col] - freqvar))"""
    arr = astq.argreduce(prog, pf, row, {"numpy.nanargmin"})
    if arr is None:
        return False, "not a nanargmin"
    inner = astq.strip_abs(prog, pf, arr)
    if not (isinstance(inner, ast.BinOp) and isinstance(inner.op, ast.Sub)):
        return False, "argument is not |a - b|"
    for a, b in ((inner.left, inner.right), (inner.right, inner.left)):
        acc = astq.access_path(a, tables)
        if acc is not None and acc.table == tF and acc.row is None and acc.col is not None and astq.dump(acc.col) == astq.dump(col) \
                and isinstance(b, ast.Name) and b.id == freqvar:
            return True, f"nanargmin|{tF}[:, {astq.src(col, 30)}] - {freqvar}|"
    return False, f"`{astq.src(row, 80)}` is not the distance of the order's frequency column to the requested frequency"


def _lam_run(prog, fi, p_freq, p_order, tables, oval):
    from .. import lamdom
    pos, kwo, _, _ = astq.params_of(fi.node)
    ranks = {p_: 0 for p_ in pos + kwo}
    ranks[p_freq] = 1
    for t in tables:
        ranks[t] = 3 if "Phi" in t else 2
    if "Lab" in ranks:
        ranks["Lab"] = 2
    if isinstance(oval, list):
        ranks[p_order] = 1
    try:
        return lamdom.Interp(prog, fi, ranks=ranks, consts={p_order: oval}).run()
    except Exception:
        return None


def gather_form(prog, fi, e, at, depth=2):
    """(table name, rows list name, cols list name) when `e` is table[array(rows), array(cols)] of two local position lists (directly, or
    through a package helper that does exactly that), else None"""
    from ..program import FuncInfo

    def unwrap(x):
        while True:
            if isinstance(x, ast.Attribute) and x.attr == "T":
                x = x.value
            elif isinstance(x, ast.Call) and isinstance(x.func, ast.Attribute) and x.func.attr in ("reshape", "copy", "astype", "ravel", "flatten", "squeeze"):
                x = x.func.value
            elif isinstance(x, ast.Call) and astq.callee_name(prog, fi, x) in ("numpy.array", "numpy.asarray", "numpy.moveaxis", "numpy.transpose", "numpy.atleast_1d") and x.args:
                x = x.args[0]
            else:
                return x
    e = unwrap(e)
    if isinstance(e, ast.Name) and at is not None:
        try:
            e = unwrap(astq.expr_at(fi, at, e))
        except Exception:
            return None
    if isinstance(e, ast.Subscript) and isinstance(e.value, ast.Name):
        el = astq.index_elts(e)
        if len(el) == 2:
            rc = [unwrap(x) for x in el]
            if all(isinstance(x, ast.Name) for x in rc):
                return e.value.id, rc[0].id, rc[1].id
        return None
    if isinstance(e, ast.Call) and depth > 0:
        try:
            r = prog.resolve_call(getattr(fi, "fi", fi), e)
        except Exception:
            r = None
        if isinstance(r, FuncInfo):
            m_, errs = astq.bind_args(r.node, e, bound=False)
            rets = [n for n in ast.walk(r.node) if isinstance(n, ast.Return) and n.value is not None]
            forms = [gather_form(prog, r, x.value, None, depth - 1) for x in rets]
            forms = [g_ for g_ in forms if g_ is not None]
            if len(forms) == 1 and not errs:
                t_, r_, c_ = forms[0]
                back = []
                for nm in (t_, r_, c_):
                    a_ = m_.get(nm)
                    a_ = unwrap(a_) if isinstance(a_, ast.AST) else None
                    if not isinstance(a_, ast.Name):
                        return None
                    back.append(a_.id)
                return tuple(back)
    return None


def _gathered_items(prog, fi, pf, it, tables):
    """values collected as (row, column) POSITIONS in two lists and gathered at the end (T[array(rows), array(cols)]): the same facts as
    appends of T[row, col], one per pair of position appends that share their premises"""
    from .. import lamdom
    out = []
    rets = [n for n in ast.walk(pf.node) if isinstance(n, ast.Return) and isinstance(n.value, ast.Tuple)]
    seen = set()
    for r in rets:
        for el in r.value.elts:
            try:
                x = astq.expr_at(pf, r, el)
            except Exception:
                continue
            g = gather_form(prog, pf, x, r)
            if g is None and isinstance(el, ast.Name):
                g = gather_form(prog, pf, el, r)
            if g is None or g[0] not in tables or g in seen:
                continue
            seen.add(g)
            t_, rl, cl = g
            ra = [a for a in it.appends if a["list"] == rl and isinstance(a["value"], lamdom.Lam) and a["value"].scalar]
            ca = [a for a in it.appends if a["list"] == cl and isinstance(a["value"], lamdom.Lam) and a["value"].scalar]
            if not ra or len(ra) != len(ca):
                continue
            for a_r, a_c in zip(ra, ca):
                if [(astq.dump(c) if isinstance(c, ast.AST) else c, p_) for c, p_ in a_r["path"]] != [(astq.dump(c) if isinstance(c, ast.AST) else c, p_) for c, p_ in a_c["path"]]:
                    continue
                body = ast.Subscript(value=ast.Name(id=t_, ctx=ast.Load()), slice=ast.Tuple(elts=[a_r["value"].body, a_c["value"].body], ctx=ast.Load()), ctx=ast.Load())
                name_ = el.id if isinstance(el, ast.Name) else t_
                ap = dict(a_r)
                ap["list"] = name_
                ap["value"] = lamdom.Lam([], body)
                out.append(ap)
    return out


def explicit_branch_lam(prog, run, fi, pf, f, cfg, label, oval, p_freq, p_order, tF, kinds, tables, has_cov):
    """the rules of the explicit-order branch on the index-level model of the function (sa/lamdom.py): every appended value as a scalar
    expression T[row, col] in the request index, with the conditions under which it is appended - for loops, batched searches, closures
    and helpers alike.  Returns False (nothing reported) when the model does not reach the appends with known values."""
    from .. import lamdom
    it = _lam_run(prog, fi, p_freq, p_order, tables, oval)
    if it is None:
        return False
    items = []
    for ap in it.appends:
        v = ap["value"]
        if not isinstance(v, lamdom.Lam):
            continue
        acc = astq.access_path(v.body, tables)
        if acc is None or acc.col is None:
            continue
        items.append((ap, acc))
    if len(items) < 3:
        items = []
        for ap in _gathered_items(prog, fi, pf, it, tables):
            acc = astq.access_path(ap["value"].body, tables)
            if acc is not None and acc.col is not None:
                items.append((ap, acc))
    if len(items) < 3 or any(not ap["loops"] or ap["loops"][-1][0] is None for ap, acc in items):
        return False
    loopvars = {ap["loops"][-1][0] for ap, acc in items}
    if len(loopvars) != 1:
        return False
    lv = next(iter(loopvars))
    loop_node = items[0][0]["loops"][-1][2]

    def is_req(e):
        """the loop's own requested frequency: freq[loop index]"""
        return isinstance(e, ast.Subscript) and isinstance(e.value, ast.Name) and e.value.id == p_freq and isinstance(e.slice, ast.Name) and e.slice.id == lv
    uses_req = any(is_req(x) for ap, acc in items for c, pol in ap["path"] for x in ast.walk(c)) or any(is_req(x) for ap, acc in items for x in ast.walk(ap["value"].body))
    run.ob("R-same-pole", fi.qual, "loop runs over the requested frequencies", uses_req, f"values appended per element of `{p_freq}`" if uses_req else f"the appended values do not depend on an element of `{p_freq}`",
           astq.src(loop_node.iter, 50), file=f, node=loop_node, config=cfg)
    if label == "int":
        def col_ok(c):
            return isinstance(c, ast.Name) and c.id == p_order
        colname = p_order
    else:
        def col_ok(c):
            return isinstance(c, ast.Subscript) and isinstance(c.value, ast.Name) and c.value.id == p_order and isinstance(c.slice, ast.Name) and c.slice.id == lv
        colname = f"{p_order}[{lv}]"

    def row_nearest(row, col):
        arr = astq.argreduce(prog, pf, row, {"numpy.nanargmin"})
        if arr is None:
            return False, "not a nanargmin"
        inner = astq.strip_abs(prog, pf, arr)
        if not (isinstance(inner, ast.BinOp) and isinstance(inner.op, ast.Sub)):
            return False, "argument is not |a - b|"
        for a, b in ((inner.left, inner.right), (inner.right, inner.left)):
            ac = astq.access_path(a, tables)
            if ac is not None and ac.table == tF and ac.row is None and ac.col is not None and astq.dump(ac.col) == astq.dump(col) and is_req(b):
                return True, f"nanargmin|{tF}[:, {astq.src(col, 30)}] - {p_freq}[{lv}]|"
        return False, f"`{astq.src(row, 80)}` is not the distance of the order's frequency column to the requested frequency"
    seen_tables = {}
    ref = items[0][1]
    for ap, acc in items:
        node = ap["site"] if ap["site"] is not None else ap["node"]
        role = f"{kinds.get(acc.table, acc.table)} value"
        okc = col_ok(acc.col)
        if not okc:
            # a column read through a local array this model could not evaluate (orders = [order] * n ...): not recognised, not wrong
            known_names = set(astq.params_of(fi.node)[0] + astq.params_of(fi.node)[1]) | {lv}
            if {x.id for x in ast.walk(acc.col) if isinstance(x, ast.Name)} - known_names:
                okc = None
        run.ob("R-same-pole", fi.qual, f"{role}: column is the requested order", okc, f"{acc!r}; expected column {colname}", astq.src(acc.col, 40), file=f, node=node, config=cfg)
        okr, why = (False, "no row")
        if acc.row is not None:
            okr, why = row_nearest(acc.row, acc.col)
        run.ob("R-same-pole", fi.qual, f"{role}: row is the pole nearest to the requested frequency in that column", okr, why, why[:80], file=f, node=node, config=cfg)
        same = acc.row is not None and ref.row is not None and astq.dump(acc.row) == astq.dump(ref.row) and astq.dump(acc.col) == astq.dump(ref.col)
        run.ob("R-same-pole", fi.qual, f"{role}: same (row, column) as the other values of this mode", same, "identical index pair" if same else f"{acc!r} vs {ref!r}", f"{acc!r}"[:90], file=f, node=node, config=cfg)
        seen_tables.setdefault(ap["list"], set()).add(acc.table)
    # the closeness test: a premise of EVERY append
    CLOSE = ("numpy.isclose", "numpy.allclose", "math.isclose")

    def close_calls(c):
        return [x for x in ast.walk(c) if isinstance(x, ast.Call) and astq.callee_name(prog, pf, x) in CLOSE]
    guards = []
    # `if not close: warn; continue` at the top of the loop body guards everything after it (the model below follows enclosing ifs only)
    early = []
    for st_ in getattr(loop_node, "body", []):
        if isinstance(st_, ast.If) and not st_.orelse and astq._terminates(st_.body) and close_calls(st_.test):
            t_ = st_.test
            early.append((t_.operand, True) if isinstance(t_, ast.UnaryOp) and isinstance(t_.op, ast.Not) else (t_, False))
    for ap, acc in items:
        g = [(c, pol) for c, pol in ap["path"] if close_calls(c)]
        if not g and early:
            site_ = ap["site"] if ap["site"] is not None else ap["node"]
            ln_ = getattr(site_, "lineno", None)
            g = [(c_, p_) for c_, p_ in early if ln_ is None or getattr(c_, "lineno", 0) <= ln_]
        guards.append(g)
    node0 = items[0][0]["site"] if items[0][0]["site"] is not None else items[0][0]["node"]
    if any(not g for g in guards):
        run.ob("R-guarded-append", fi.qual, "closeness test", False, "appends are not under any closeness test (isclose) - a far-away pole would be returned", "unguarded", file=f, node=loop_node, config=cfg)
        return True
    allpos = all(pol for g in guards for c, pol in g)
    same_guard = len({astq.dump(c) for g in guards for c, pol in g}) == 1
    c0, pol0 = guards[0][0]
    run.ob("R-guarded-append", fi.qual, "appends in the success branch of the closeness test", allpos and same_guard,
           f"test `{astq.src(c0, 60)}` holds on the path of every append" if allpos and same_guard else f"test `{astq.src(c0, 60)}`: appends run when it " + ("FAILS" if not allpos else "differs between the values"),
           "misplaced", file=f, node=node0, config=cfg)
    iscl = close_calls(c0)[0]
    a0, b0 = iscl.args[0], iscl.args[1]
    acc0 = astq.access_path(a0, tables)
    okA = acc0 is not None and acc0.table == tF and _same(acc0.row, ref.row) and _same(acc0.col, ref.col)
    if not okA and acc0 is not None and acc0.table == tF and None in (_same3(prog, fi, acc0.row, ref.row), _same3(prog, fi, acc0.col, ref.col)) \
            and False not in (_same3(prog, fi, acc0.row, ref.row), _same3(prog, fi, acc0.col, ref.col)):
        okA = None
    okB = is_req(b0)
    if not okB and acc0 is None:
        acc1 = astq.access_path(b0, tables)
        okA = acc1 is not None and acc1.table == tF and _same(acc1.row, ref.row)
        okB = is_req(a0)
    run.ob("R-own-freq", fi.qual, "tested pole is the one that is appended", okA, f"isclose first argument `{astq.src(a0, 60)}`", astq.src(a0, 60), file=f, node=node0, config=cfg)
    run.ob("R-own-freq", fi.qual, "reference of the closeness test is the loop's own requested frequency", okB,
           f"compared with `{astq.src(b0, 40)}`" + ("" if okB else f" instead of the loop's own element of `{p_freq}`: a pole near ANOTHER requested frequency passes the test"),
           astq.src(b0, 40), file=f, node=node0, config=cfg)
    rt = astq.kwarg(iscl, "rtol", 2)
    run.ob("R-own-freq", fi.qual, "relative tolerance is the rtol parameter", isinstance(rt, ast.Name) and rt.id == "rtol", f"rtol={astq.src(rt) if rt is not None else 'default'}",
           astq.src(rt) if rt is not None else "default", file=f, node=node0, config=cfg)
    slots(prog, run, fi, pf, f, cfg, seen_tables, kinds)
    return True


def explicit_branch(prog, run, fi, pf, pm, f, cfg, label, p_freq, p_order, tF, kinds, tables, has_cov):
    apps = [a for a in _appends(pf.node)]
    groups = {}
    for a in apps:
        v = astq.expr_at(pf, a, a.args[0])
        acc = astq.access_path(v, tables)
        if acc is None:
            continue
        loop = astq.enclosing(pm, a, (ast.For,))
        groups.setdefault(loop, []).append((a, acc))
    if not groups:
        run.ob("R-same-pole", fi.qual, "appends", None, f"no table reads appended in branch {cfg}", file=f, config=cfg)
        return
    for loop, items in groups.items():
        if loop is None:
            run.ob("R-same-pole", fi.qual, "loop over requested frequencies", None, "appends outside a loop", file=f, config=cfg)
            continue
        # loop variable(s): `for fj in freq` or `for ii, fj in enumerate(freq)`
        tgt = loop.target
        counter = None
        ordvar = None           # `for fj, oi in zip(<requested frequencies>, <one order per mode>)`: oi is this mode's order
        itn = loop.iter
        while isinstance(itn, ast.Call) and astq.src(itn.func).split(".")[-1] in ("tqdm", "list", "tuple") and itn.args:
            itn = itn.args[0]
        if isinstance(tgt, ast.Tuple) and len(tgt.elts) == 2 and all(isinstance(e_, ast.Name) for e_ in tgt.elts) and isinstance(itn, ast.Call) \
                and astq.src(itn.func) == "zip" and len(itn.args) == 2:
            d_f = astq._depends_on(fi.node, {p_freq}, data_only=True) | {p_freq}
            d_o = astq._depends_on(fi.node, {p_order}, data_only=True) | {p_order}
            n0 = {x_.id for x_ in ast.walk(itn.args[0]) if isinstance(x_, ast.Name)}
            n1 = {x_.id for x_ in ast.walk(itn.args[1]) if isinstance(x_, ast.Name)}
            if n0 & d_f and n1 & d_o and not (n1 & d_f - d_o):
                freqvar, ordvar = tgt.elts[0].id, tgt.elts[1].id
            elif n1 & d_f and n0 & d_o:
                ordvar, freqvar = tgt.elts[0].id, tgt.elts[1].id
            else:
                run.ob("R-same-pole", fi.qual, "loop target", None, "unrecognised loop over pairs", file=f, config=cfg)
                continue
        elif isinstance(tgt, ast.Tuple) and len(tgt.elts) == 2 and all(isinstance(e_, ast.Name) for e_ in tgt.elts):
            counter, freqvar = tgt.elts[0].id, tgt.elts[1].id
        elif isinstance(tgt, ast.Name):
            freqvar = tgt.id
        else:
            run.ob("R-same-pole", fi.qual, "loop target", None, "unrecognised loop target", file=f, config=cfg)
            continue
        itx = astq.expr_at(pf, loop, loop.iter)
        names = {n.id for n in ast.walk(itx) if isinstance(n, ast.Name)}
        run.ob("R-same-pole", fi.qual, "loop runs over the requested frequencies", p_freq in names, f"iterates `{astq.src(loop.iter, 50)}`", astq.src(loop.iter, 50), file=f, node=loop, config=cfg)
        # expected column
        if ordvar is not None:
            def col_ok(c):
                return isinstance(c, ast.Name) and c.id == ordvar
            colname = f"{ordvar} (this mode's element of the orders made from `{p_order}`)"
        elif label == "int":
            def col_ok(c):
                return isinstance(c, ast.Name) and c.id == p_order
            colname = p_order
        else:
            def col_ok(c):
                return isinstance(c, ast.Subscript) and isinstance(c.value, ast.Name) and c.value.id == p_order and isinstance(c.slice, ast.Name) and c.slice.id == counter
            colname = f"{p_order}[{counter}]"
        seen_tables = {}
        ref = items[0][1]
        for a, acc in items:
            role = f"{kinds.get(acc.table, acc.table)} value"
            okc = acc.col is not None and col_ok(acc.col)
            run.ob("R-same-pole", fi.qual, f"{role}: column is the requested order", okc, f"{acc!r}; expected column {colname}",
                   astq.src(acc.col, 40) if acc.col is not None else "none", file=f, node=a, config=cfg)
            okr = False
            why = "no row"
            if acc.row is not None and acc.col is not None:
                okr, why = _row_is_nearest(prog, pf, acc.row, tF, acc.col, freqvar, tables)
            run.ob("R-same-pole", fi.qual, f"{role}: row is the pole nearest to the requested frequency in that column", okr, why, why[:80], file=f, node=a, config=cfg)
            same = acc.row is not None and ref.row is not None and astq.dump(acc.row) == astq.dump(ref.row) and astq.dump(acc.col) == astq.dump(ref.col)
            run.ob("R-same-pole", fi.qual, f"{role}: same (row, column) as the other values of this mode", same,
                   "identical index pair" if same else f"{acc!r} vs {ref!r}", f"{acc!r}"[:90], file=f, node=a, config=cfg)
            seen_tables.setdefault(a.func.value.id, set()).add(acc.table)
        # guarded appends + own frequency
        ifs = set()
        for a, acc in items:
            i = astq.enclosing(pm, a, (ast.If,))
            while i is not None and astq.enclosing(pm, i, (ast.For,)) is not loop and astq.enclosing(pm, i, (ast.For,)) is not None and i is not None:
                i = astq.enclosing(pm, i, (ast.If,))
            ifs.add(i)
        ifs.discard(None)
        cov_ifs = set()
        main_if = None
        for i in ifs:
            t = astq.expr_at(pf, i, i.test)
            if any(isinstance(c, ast.Call) and astq.callee_name(prog, pf, c) in ("numpy.isclose", "numpy.allclose", "math.isclose") for c in ast.walk(t)):
                main_if = i
        if main_if is None:
            # appends may sit under `if Fn_cov is not None` nested inside the closeness if
            for a, acc in items:
                i = astq.enclosing(pm, a, (ast.If,))
                while i is not None:
                    t = astq.expr_at(pf, i, i.test)
                    if any(isinstance(c, ast.Call) and astq.callee_name(prog, pf, c) in ("numpy.isclose", "numpy.allclose", "math.isclose") for c in ast.walk(t)):
                        main_if = i
                        break
                    i = astq.enclosing(pm, i, (ast.If,))
                if main_if is not None:
                    break
        early_if = None
        if main_if is None:
            # `if not close: warn; continue` before the appends, at the top of the loop body
            for st_ in loop.body:
                if isinstance(st_, ast.If) and not st_.orelse and astq._terminates(st_.body) and \
                        any(isinstance(c, ast.Call) and astq.callee_name(prog, pf, c) in ("numpy.isclose", "numpy.allclose", "math.isclose") for c in ast.walk(astq.expr_at(pf, st_, st_.test))) \
                        and all(getattr(a, "lineno", 10 ** 9) > st_.lineno for a, acc in items):
                    early_if = main_if = st_
        if main_if is None:
            run.ob("R-guarded-append", fi.qual, "closeness test", False, "appends are not under any closeness test (isclose) - a far-away pole would be returned", "unguarded", file=f, node=loop, config=cfg)
            continue
        t = astq.expr_at(pf, main_if, main_if.test)
        neg = isinstance(t, ast.UnaryOp) and isinstance(t.op, ast.Not)
        want = "orelse" if neg else "body"
        allok = all(astq.branch_of(pm, a, main_if) == want for a, acc in items) if early_if is None else neg
        if early_if is not None:
            want = "the code after the early exit"
        run.ob("R-guarded-append", fi.qual, "appends in the success branch of the closeness test", allok,
               f"test `{astq.src(main_if.test, 40)}` ({'negated' if neg else 'direct'}), appends expected in `{want}`", "misplaced", file=f, node=main_if, config=cfg)
        iscl = [c for c in ast.walk(t) if isinstance(c, ast.Call) and astq.callee_name(prog, pf, c) in ("numpy.isclose", "numpy.allclose", "math.isclose")][0]
        a0, b0 = iscl.args[0], iscl.args[1]
        acc0 = astq.access_path(a0, tables)
        okA = acc0 is not None and acc0.table == tF and _same(acc0.row, ref.row) and _same(acc0.col, ref.col)
        okB = isinstance(b0, ast.Name) and b0.id == freqvar
        if not okB and acc0 is None:
            # arguments the other way round
            acc1 = astq.access_path(b0, tables)
            okA = acc1 is not None and acc1.table == tF and _same(acc1.row, ref.row)
            okB = isinstance(a0, ast.Name) and a0.id == freqvar
        run.ob("R-own-freq", fi.qual, "tested pole is the one that is appended", okA, f"isclose first argument `{astq.src(iscl.args[0], 60)}`", astq.src(iscl.args[0], 60), file=f, node=main_if, config=cfg)
        run.ob("R-own-freq", fi.qual, "reference of the closeness test is the loop's own requested frequency", okB,
               f"compared with `{astq.src(b0, 40)}`" + ("" if okB else f" instead of the loop variable `{freqvar}`: a pole near ANOTHER requested frequency passes the test"),
               astq.src(b0, 40), file=f, node=main_if, config=cfg)
        rt = astq.kwarg(iscl, "rtol", 2)
        run.ob("R-own-freq", fi.qual, "relative tolerance is the rtol parameter", isinstance(rt, ast.Name) and rt.id == "rtol", f"rtol={astq.src(rt) if rt is not None else 'default'}",
               astq.src(rt) if rt is not None else "default", file=f, node=main_if, config=cfg)
        slots(prog, run, fi, pf, f, cfg, seen_tables, kinds)


def _same(a, b):
    """two optional index expressions denote the same thing (None = the whole axis)"""
    if a is None or b is None:
        return a is None and b is None
    if astq.dump(a) == astq.dump(b):
        return True
    # int(<arg-reduction>) is the arg-reduction: a conversion of type keeps the index
    return astq.dump(astq.uncoerce(a)) == astq.dump(astq.uncoerce(b))


def _opaque_index(prog, fi, e):
    """the index expression goes through a call of a package function that was not written out (a helper with several returns): what it
    denotes is not known, so it is neither the same as nor different from another index"""
    if e is None:
        return False
    for c in ast.walk(e):
        if isinstance(c, ast.Call):
            nm = astq.callee_name(prog, fi, c) or ""
            if nm.startswith("pyoma2.") or (isinstance(c.func, ast.Name) and not nm.startswith(("numpy.", "scipy.", "math.")) and c.func.id not in ("int", "float", "len", "abs", "min", "max", "range")):
                return True
    return False


def _same3(prog, fi, a, b):
    """True / False / None (not known) for two optional index expressions"""
    if _same(a, b):
        return True
    if _opaque_index(prog, fi, a) or _opaque_index(prog, fi, b):
        return None
    return False


def slots(prog, run, fi, pf, f, cfg, seen_tables, kinds):
    """returned tuple position k is built from the list that received values of the table of kind k"""
    rets = [n for n in ast.walk(pf.node) if isinstance(n, ast.Return) and isinstance(n.value, ast.Tuple)]
    if not rets:
        run.ob("R-slots", fi.qual, "return", None, "no tuple return", file=f, config=cfg)
        return
    want = ["Fn", "Xi", "Phi", None, "Fn_cov", "Xi_cov", "Phi_cov"]
    for r in rets:
        for k, el in enumerate(r.value.elts):
            if k >= len(want) or want[k] is None:
                continue
            if isinstance(el, ast.Constant) and el.value is None:
                continue
            x = astq.expr_at(pf, r, el)
            if isinstance(x, ast.Call) and astq.callee_name(prog, pf, x) in ("numpy.array", "numpy.empty", "numpy.zeros") and x.args \
                    and ((isinstance(x.args[0], (ast.List, ast.Tuple)) and not x.args[0].elts) or (isinstance(x.args[0], ast.Constant) and x.args[0].value == 0)):
                continue        # the empty result of an empty request
            lists = {n.id for n in ast.walk(x) if isinstance(n, ast.Name) and n.id in seen_tables}
            if not lists and isinstance(el, ast.Name) and el.id in seen_tables:
                lists = {el.id}     # values gathered from position lists are filed under the returned variable
            src_tables = set()
            for l in lists:
                src_tables |= seen_tables[l]
            got = {kinds.get(t, t) for t in src_tables}
            if not got:
                run.ob("R-slots", fi.qual, f"return[{k}] ({want[k]})", None, f"`{astq.src(el)}` not traced to an appended list", file=f, node=r, config=cfg)
                continue
            ok = got == {want[k]}
            run.ob("R-slots", fi.qual, f"return[{k}] ({want[k]})", ok, f"built from values of {sorted(got)}", ",".join(sorted(got)), file=f, node=r, config=cfg)


def blocks_up_from(pm, node, stop):
    """(parent, statement list, index) for every statement list between `node` and the loop `stop`"""
    cur = node
    while cur is not stop:
        par = pm.get(cur)
        if par is None:
            return
        for field in ("body", "orelse", "finalbody"):
            lst = getattr(par, field, None)
            if isinstance(lst, list) and cur in lst:
                yield par, lst, lst.index(cur)
        cur = par


def find_min(prog, run, fi, f, p_freq, p_order, tF, kinds, tables):
    cfg = "order=find_min"
    pf = astq.PrunedFn(fi, {p_order: "find_min"})
    pm = astq.parent_map(pf.node)
    apps = _appends(pf.node)
    items = []
    for a in apps:
        v = astq.expr_at(pf, a, a.args[0])
        acc = astq.access_path(v, tables)
        if acc is not None and acc.col is not None:
            items.append((a, acc))
    if not items:
        # the values may be appended inside a closure / helper, or through a batched search: take them from the index-level model
        from .. import lamdom
        it = _lam_run(prog, pf, p_freq, p_order, tables, "find_min")
        for ap in (it.appends if it is not None else []):
            v = ap["value"]
            acc = astq.access_path(v.body, tables) if isinstance(v, lamdom.Lam) else None
            if acc is not None and acc.col is not None and ap["site"] is not None and ap["site"] in pm:
                items.append((ap["site"], acc))
    if not items:
        run.ob("R-first-order", fi.qual, "appends", None, "no table reads in the find_min branch", file=f, config=cfg)
        return
    def find_scan(items_):
        n_ = astq.enclosing(pm, items_[0][0], (ast.For,))
        while n_ is not None:
            if symidx.is_range(prog, pf, n_.iter) is not None:
                return n_
            n_ = astq.enclosing(pm, n_, (ast.For,))
        return None
    scan = find_scan(items)
    if scan is None:
        # appends written inside a nested helper: use the call sites and the lowered values of the index-level model instead
        from .. import lamdom
        it = _lam_run(prog, pf, p_freq, p_order, tables, "find_min")
        items2 = []
        for ap in (it.appends if it is not None else []):
            v = ap["value"]
            acc = astq.access_path(v.body, tables) if isinstance(v, lamdom.Lam) else None
            if acc is not None and acc.col is not None and ap["site"] is not None and ap["site"] in pm:
                items2.append((ap["site"], acc))
        if items2 and find_scan(items2) is not None:
            items = items2
            scan = find_scan(items)
    a0 = items[0][0]
    if scan is None or not isinstance(scan.target, ast.Name):
        run.ob("R-first-order", fi.qual, "scan loop", None, "loop over the order columns not found", file=f, config=cfg)
        return
    se = symidx.SymEval(prog, pf)
    ra = symidx.range_args(se, symidx.is_range(prog, pf, scan.iter))
    # the stop is ONE symbol, the column extent of a table (`<table>.shape[1]`) - an expression that merely contains one (shape[1] - 1, shape[1] // 2) is
    # a recognised different range; anything else is not read
    one_ext = ra is not None and len(ra[1].t) == 1 and all(v_ == 1 and len(k_) == 1 and k_[0][1] == 1 and k_[0][0].endswith(".shape[1]") for k_, v_ in ra[1].t.items())
    ok = (ra[0] == P.c(0) and ra[2] == P.c(1) and one_ext) if ra is not None else None
    if ra is not None and not ok and ".shape[1]" not in repr(ra[1]):
        ok = None
    run.ob("R-first-order", fi.qual, "scan runs over all columns in ascending order", ok, f"range({', '.join(map(repr, ra)) if ra else '?'})", repr(ra), file=f, node=scan, config=cfg)
    var = scan.target.id
    okc = all(isinstance(acc.col, ast.Name) and acc.col.id == var for a, acc in items)
    run.ob("R-first-order", fi.qual, "every returned value is read at the scanned column", okc, "; ".join(repr(acc) for a, acc in items)[:200], "col", file=f, node=scan, config=cfg)
    rows = {astq.dump(acc.row) for a, acc in items if acc.row is not None}
    run.ob("R-first-order", fi.qual, "one row index for all values of a mode", len(rows) == 1, f"{len(rows)} distinct row expressions", str(len(rows)), file=f, node=scan, config=cfg)
    # the qualifying test: EVERY requested frequency has its pole at this order (count equal, all close) - not just some of them
    conds = []
    for par, lst, k in list(blocks_up_from(pm, a0, scan)):
        if isinstance(par, ast.If) and lst is par.body:
            conds.append((par.test, True))
        for prev in lst[:k]:
            if isinstance(prev, ast.If) and prev.body and isinstance(prev.body[-1], (ast.Continue, ast.Break)) and not prev.orelse:
                conds.append((prev.test, False))      # guard-and-continue: the appends run when the test is FALSE
    texts = []
    allq = anyq = lenq = False
    for t_, pol in conds:
        x_ = astq.expr_at(pf, t_, t_)
        for c_ in ast.walk(x_):
            if isinstance(c_, ast.Call):
                nm_ = astq.callee_name(prog, pf, c_)
                if nm_ == "numpy.allclose" or (nm_ == ".all" and any(isinstance(z, ast.Call) and astq.callee_name(prog, pf, z) == "numpy.isclose" for z in ast.walk(c_))):
                    allq = True
                if nm_ in (".any", "numpy.any") and any(isinstance(z, ast.Call) and astq.callee_name(prog, pf, z) == "numpy.isclose" for z in ast.walk(c_)):
                    anyq = True
            if isinstance(c_, ast.Compare) and len(c_.ops) == 1 and isinstance(c_.ops[0], (ast.Eq, ast.NotEq)) and all(isinstance(z, ast.Call) and astq.callee_name(prog, pf, z) == "len" for z in (c_.left, c_.comparators[0])):
                lenq = True
        texts.append(astq.src(x_, 90))
    okq = None
    if conds:
        okq = False if (anyq and not allq) else (True if (allq and lenq) else None)
    run.ob("R-first-order", fi.qual, "an order qualifies only if EVERY requested frequency has its stable pole there (equal count, all close)", okq,
           f"qualifying test(s): {texts}" + (" - `.any()` accepts an order where only some requested modes are present" if okq is False else ""),
           "qualify", file=f, node=scan, config=cfg)
    # after the values of the qualifying column are appended the scan must be left (break on the same path) and that column reported:
    # walk from the append up to the scan loop; in one of the enclosing statement lists a `break` (and `order_out = <scan variable>`)
    # must follow the statement that contains the append
    def blocks_up(node):
        cur = node
        while cur is not scan:
            par = pm.get(cur)
            if par is None:
                return
            for field in ("body", "orelse", "finalbody"):
                lst = getattr(par, field, None)
                if isinstance(lst, list) and cur in lst:
                    yield par, lst, lst.index(cur)
            cur = par
    has_break = None
    brk_block = None
    for par, lst, k in blocks_up(a0):
        if isinstance(par, ast.For) and par is not scan:
            continue            # a break here would leave an inner loop only
        if any(isinstance(s_, ast.Break) for s_ in lst[k + 1:]):
            has_break, brk_block = True, (lst, k)
            break
    anybreak = any(isinstance(n_, ast.Break) for n_ in ast.walk(scan))
    if has_break is None and not anybreak:
        has_break = False
    node_q = astq.enclosing(pm, a0, (ast.If,)) or scan
    run.ob("R-first-order", fi.qual, "scan stops at the first qualifying column", has_break,
           "`break` follows the appends on the qualifying path" if has_break else ("no `break`: a later (higher) order overwrites the result" if has_break is False else "a `break` exists but not on the path of the appends"),
           "no-break", file=f, node=node_q, config=cfg)
    rets = [n for n in ast.walk(pf.node) if isinstance(n, ast.Return) and isinstance(n.value, ast.Tuple) and len(n.value.elts) > 3]
    okr = None
    oo = []
    if brk_block is not None:
        lst, k = brk_block
        oo = [s_ for s_ in lst if isinstance(s_, ast.Assign) and len(s_.targets) == 1 and isinstance(s_.targets[0], ast.Name)
              and any(isinstance(r.value.elts[3], ast.Name) and r.value.elts[3].id == s_.targets[0].id for r in rets)]
        if oo:
            v = astq.expr_at(pf, oo[-1], oo[-1].value)
            okr = isinstance(v, ast.Name) and v.id == var
            if not okr and not (isinstance(v, (ast.Name, ast.Constant, ast.BinOp))):
                okr = None
    run.ob("R-first-order", fi.qual, "reported order is the qualifying column", okr, f"order_out <- {astq.src(oo[-1].value) if oo else '?'}", "order_out", file=f, node=node_q, config=cfg)


# ----------------------------------------------------------------------------- hand-over
HANDOVER = [
    ("algorithms.ssi.SSIdat", "mpe", "functions.ssi.SSI_mpe", True),
    ("algorithms.ssi.SSIdat", "mpe_from_plot", "functions.ssi.SSI_mpe", True),
    ("algorithms.plscf.pLSCF", "mpe", "functions.plscf.pLSCF_mpe", False),
    ("algorithms.plscf.pLSCF", "mpe_from_plot", "functions.plscf.pLSCF_mpe", False),
]
ARG_FIELDS = {"Fn_pol": "Fn_poles", "Xi_pol": "Xi_poles", "Phi_pol": "Phi_poles", "Lab": "Lab",
              "Fn_cov": "Fn_poles_cov", "Xi_cov": "Xi_poles_cov", "Phi_cov": "Phi_poles_cov"}


def handover(prog, run, only_methods=None):
    for cq, mname, callee_q, has_cov in HANDOVER:
        if only_methods is not None and mname not in only_methods:
            continue
        ci = prog.cls(cq)
        m = prog.find_method(ci, mname)
        callee = prog.func(callee_q)
        f = rel(prog.mods[m.mod].path)
        recs = astq.forwarded_args(prog, m, callee.qual, depth=2)
        if not recs:
            run.ob("R-handover", m.qual, f"call of {callee.node.name}", False, f"{mname} does not call {callee.node.name}", "missing", file=f)
            continue
        rec = recs[0]
        call, holder, b = rec["call"], rec["holder"], rec["args"]
        fh = rel(prog.mods[holder.mod].path)
        for e in rec["errors"]:
            run.ob("R-handover", m.qual, "call conformance", False, e, e, file=fh, node=call)
        pos, _, _, _ = astq.params_of(callee.node)
        roles = dict(ARG_FIELDS)
        # positional table parameters by position (names in the callee may change): 1,2,3 = Fn, Xi, Phi tables
        roles = {pos[1]: "Fn_poles", pos[2]: "Xi_poles", pos[3]: "Phi_poles"}
        for p in pos:
            if p in ARG_FIELDS and p not in roles:
                roles[p] = ARG_FIELDS[p]
        for p, field in roles.items():
            if p in rec["missing"]:
                if p in ("Lab",) or p.endswith("_cov"):
                    if p.endswith("_cov") and has_cov:
                        run.ob("R-handover", m.qual, f"{p} <- result.{field}", False if rec["complete"] else None, f"{callee.node.name}.{p} is not passed: covariances of the selected poles are lost", "not passed", file=fh, node=call)
                    continue
                run.ob("R-handover", m.qual, f"{p} <- result.{field}", False if rec["complete"] else None, f"{p} not passed", "not passed", file=fh, node=call)
                continue
            x = b.get(p)
            if x is None:
                run.ob("R-handover", m.qual, f"{p} <- result.{field}", None, f"argument for {p} could not be expressed in the scope of {mname}", file=fh, node=call)
                continue
            if p == "Lab" and isinstance(x, ast.Constant) and x.value is None:
                run.ob("R-handover", m.qual, f"{p} <- None (orders picked by hand)", True, "Lab=None", file=fh, node=call)
                continue
            ok = astq.src(x) == f"self.result.{field}"
            run.ob("R-handover", m.qual, f"{p} <- result.{field}", ok, f"`{astq.src(x, 50)}`", astq.src(x, 50), file=fh, node=call)
        # requested frequencies / order / rtol
        mpos, _, _, _ = astq.params_of(m.node)
        for p, want in ((pos[0], "sel_freq"), (pos[4], "order"), ("rtol", "rtol")):
            if p in rec["missing"]:
                run.ob("R-handover", m.qual, f"{p} <- {want}", False if rec["complete"] else None, f"{p} not passed (default used)", "not passed", file=fh, node=call)
                continue
            x = b.get(p)
            if x is None:
                run.ob("R-handover", m.qual, f"{p} <- {want}", None, f"argument for {p} could not be expressed in the scope of {mname}", file=fh, node=call)
                continue
            stale = ""
            if mname == "mpe":
                ok = isinstance(x, ast.Name) and x.id == want and want in mpos
                if not ok and want in mpos:
                    rt_ = astq.retyped_param(holder if holder is not None else m, x, want)       # the argument after type conversions
                    ok = True if rt_ else (ok if rt_ is False else None)
                if not ok and isinstance(x, ast.Attribute) and astq.src(x).startswith("self.run_params."):
                    # the value read back from the run parameters, where this call stored the caller's argument just before
                    st_, v_ = astq.attr_store_status(holder if holder is not None else m, call, astq.src(x))
                    if st_ == "before" and isinstance(v_, ast.Name) and v_.id == want and want in mpos:
                        ok = True
                    elif st_ == "after":
                        stale = f" is read BEFORE this call's `{want}` is stored into it: the extraction uses the value of the previous request"
            else:
                x = astq.uncoerce(x)
                s = astq.src(x, 400)
                if want == "rtol" and isinstance(x, ast.Attribute) and s.startswith("self.run_params."):
                    st_, v_ = astq.attr_store_status(holder if holder is not None else m, call, s)
                    if st_ == "before" and isinstance(v_, ast.Name) and v_.id == "rtol" and "rtol" in mpos:
                        x = v_
                ok = (want == "rtol" and isinstance(x, ast.Name) and x.id == "rtol") or \
                     (want == "sel_freq" and s.endswith(".result[0]") and "SelFromPlot" in s) or (want == "order" and s.endswith(".result[1]") and "SelFromPlot" in s)
                if not ok and isinstance(x, ast.Name) and want in ("sel_freq", "order"):
                    # a local given the dialog's result on every path, possibly re-typed (int(o) for every o, list(..)): every value it is given
                    fi_h = holder if holder is not None else m
                    vals_, seen_, work_ = [], set(), [x.id]
                    while work_:
                        nm_ = work_.pop()
                        if nm_ in seen_:
                            continue
                        seen_.add(nm_)
                        for st_, v_ in astq.assignments(fi_h).get(nm_, []):
                            vv_ = astq.uncoerce(astq.expr_at(fi_h, st_, v_)) if v_ is not None else None
                            while isinstance(vv_, ast.Call) and astq.src(vv_.func).split(".")[-1] in ("int", "list", "tuple") and len(vv_.args) == 1:
                                vv_ = astq.uncoerce(vv_.args[0])
                            if isinstance(vv_, ast.Name) and vv_.id != nm_:
                                work_.append(vv_.id)
                            elif isinstance(vv_, ast.Name):
                                pass
                            else:
                                vals_.append(vv_)
                    idx_ = "0" if want == "sel_freq" else "1"
                    if vals_ and all(v_ is not None and astq.src(v_, 400).endswith(f".result[{idx_}]") and "SelFromPlot" in astq.src(v_, 400) for v_ in vals_):
                        ok = True
                    elif not vals_ or any(v_ is None for v_ in vals_):
                        ok = None
            run.ob("R-handover", m.qual, f"{p} <- {want}", ok, f"`{astq.src(x, 60)}`" + stale, astq.src(x, 60), file=fh, node=call)
        m_outer, m, f = m, holder, fh
        # stores: self.result.X = <name unpacked at the position where the callee returns X>
        ret_names = None
        # the return that names what it returns (an early `return (*empty, ..)` / a tuple of expressions tells nothing about positions)
        cands = [[e.id if isinstance(e, ast.Name) else None for e in r.value.elts] for r in ast.walk(callee.node)
                 if isinstance(r, ast.Return) and isinstance(r.value, ast.Tuple) and not any(isinstance(e, ast.Starred) for e in r.value.elts)]
        if cands:
            ret_names = max(cands, key=lambda ns: sum(1 for n_ in ns if n_))
            if any(len(ns) != len(ret_names) for ns in cands):
                ret_names = None
        if ret_names is not None:
            # what a position of the returned tuple IS follows from the routine's interface (Fn, Xi, Phi, order, then the covariances), not
            # from the names of its local variables
            roles_by_pos = ["Fn", "Xi", "Phi", "order_out", "Fn_cov", "Xi_cov", "Phi_cov"]
            if len(ret_names) <= len(roles_by_pos):
                ret_names = [roles_by_pos[i_] if n_ is not None or True else None for i_, n_ in enumerate(ret_names)]
        unpack = None
        for s in ast.walk(m.node):
            if isinstance(s, ast.Assign) and s.value is call and isinstance(s.targets[0], ast.Tuple):
                unpack = [e.id if isinstance(e, ast.Name) else None for e in s.targets[0].elts]
                direct = [(e, s) if isinstance(e, ast.Attribute) else None for e in s.targets[0].elts]
        import copy as _copy
        if ret_names is not None and unpack is None:
            # no tuple unpacking: the returned tuple has a name (or none at all) and its items are stored by position:
            # the stored value, expanded at the store, is <call of the routine>[i]
            stored, seen_call = {}, False
            for s in ast.walk(m.node):
                if not (isinstance(s, ast.Assign) and len(s.targets) == 1):
                    continue
                t0, v0 = s.targets[0], s.value
                pairs = list(zip(t0.elts, v0.elts)) if isinstance(t0, ast.Tuple) and isinstance(v0, ast.Tuple) and len(t0.elts) == len(v0.elts) else [(t0, v0)]
                for t_, v_ in pairs:
                    if not isinstance(t_, ast.Attribute):
                        continue
                    obj = astq.expr_at(m, s, _copy.deepcopy(t_.value))
                    if astq.src(obj) != "self.result":
                        continue
                    val = astq.expr_at(m, s, _copy.deepcopy(v_))
                    while isinstance(val, ast.Call) and isinstance(val.func, ast.Attribute) and val.func.attr in ("reshape", "copy", "ravel", "flatten") :
                        val = val.func.value
                    if isinstance(val, ast.Subscript) and isinstance(val.slice, ast.Constant) and isinstance(val.slice.value, int) and isinstance(val.value, ast.Call) \
                            and astq.src(val.value.func).split(".")[-1] == callee.node.name and 0 <= val.slice.value < len(ret_names):
                        seen_call = True
                        if ret_names[val.slice.value]:
                            stored[t_.attr] = (ret_names[val.slice.value], s)
            if not seen_call:
                run.ob("R-handover", m_outer.qual, "stores", None, "return tuple / unpacking not recognised", file=f, node=call)
                continue
            for role in ret_names:
                if role is None:
                    continue
                if role not in stored:
                    run.ob("R-handover", m_outer.qual, f"result.{role} stored", False, f"returned {role} is not stored in result.{role}", "not stored", file=f, node=call)
                    continue
                got, snode = stored[role]
                run.ob("R-handover", m_outer.qual, f"result.{role} <- returned {role}", got == role, f"result.{role} receives the returned {got}", got, file=f, node=snode)
            continue
        if ret_names is None or unpack is None:
            run.ob("R-handover", m_outer.qual, "stores", None, "return tuple / unpacking not recognised", file=f, node=call)
            continue
        if len(unpack) != len(ret_names):
            run.ob("R-handover", m_outer.qual, "unpacking arity", False, f"{len(unpack)} targets for {len(ret_names)} returned values", "arity", file=f, node=call)
            continue
        local2role = {u: r for u, r in zip(unpack, ret_names) if u and r}
        stored = {}
        # returned values unpacked straight into attributes: res.Fn, res.Xi, ... = callee(...)
        for d_, role in zip(direct, ret_names):
            if d_ is not None and role:
                obj = astq.expr_at(m, d_[1], _copy.deepcopy(d_[0].value))
                if astq.src(obj) == "self.result":
                    stored[d_[0].attr] = (role, d_[1])
        for s in ast.walk(m.node):
            if not (isinstance(s, ast.Assign) and len(s.targets) == 1):
                continue
            t0, v0 = s.targets[0], s.value
            pairs = list(zip(t0.elts, v0.elts)) if isinstance(t0, ast.Tuple) and isinstance(v0, ast.Tuple) and len(t0.elts) == len(v0.elts) else [(t0, v0)]
            for t_, v_ in pairs:
                if not (isinstance(t_, ast.Attribute) and isinstance(v_, ast.Name) and v_.id in local2role):
                    continue
                # the object stored into, with local aliases (res = self.result) resolved
                obj = astq.expr_at(m, s, _copy.deepcopy(t_.value))
                if astq.src(obj) == "self.result":
                    stored[t_.attr] = (local2role[v_.id], s)
        for role in ret_names:
            if role is None:
                continue
            field = role
            if field not in stored:
                run.ob("R-handover", m_outer.qual, f"result.{field} stored", False, f"returned {role} is not stored in result.{field}", "not stored", file=f, node=call)
                continue
            got, snode = stored[field]
            run.ob("R-handover", m_outer.qual, f"result.{field} <- returned {role}", got == role, f"result.{field} receives the returned {got}", got, file=f, node=snode)


S, PL = "functions.ssi", "functions.plscf"
MUTANTS = [
    ("C11-m01 damping from a different row", S, "SSI_mpe", "sel_xi.append(Xi_pol[:, order][sel])", "sel_xi.append(Xi_pol[:, order][np.nanargmin(np.abs(Xi_pol[:, order] - fj))])"),
    ("C11-m02 first order for every mode", S, "SSI_mpe", "sel_xi.append(Xi_pol[:, order[ii]][sel])", "sel_xi.append(Xi_pol[:, order[0]][sel])"),
    ("C11-m03 appends when NOT close", S, "SSI_mpe", "not check.any()", "check.any()", 1),
    ("C11-m04 descending scan", S, "SSI_mpe", "range(aggregated_poles.shape[1])", "range(aggregated_poles.shape[1] - 1, -1, -1)"),
    ("C11-m05 no break", S, "SSI_mpe", "break", "pass"),
    ("C11-m06 reported order off by one", S, "SSI_mpe", "order_out = i", "order_out = i + 1"),
    ("C11-m07 covariance hand-over crossed", "algorithms.ssi", "SSIdat.mpe", "Fn_pol_cov = self.result.Fn_poles_cov", "Fn_pol_cov = self.result.Xi_poles_cov"),
    ("C11-m08 stores crossed", "algorithms.ssi", "SSIdat.mpe", "self.result.Xi = Xi", "self.result.Xi = Fn"),
    ("C11-m09 shape table passed as damping", "algorithms.plscf", "pLSCF.mpe", "plscf.pLSCF_mpe(sel_freq, Fn_pol, Sm_pol, Ms_pol, order, Lab=Lab, rtol=rtol)", "plscf.pLSCF_mpe(sel_freq, Fn_pol, Ms_pol, Sm_pol, order, Lab=Lab, rtol=rtol)"),
    ("C11-m10 nearest in damping table", S, "SSI_mpe", "sel = np.nanargmin(np.abs(Fn_pol[:, order] - fj))", "sel = np.nanargmin(np.abs(Xi_pol[:, order] - fj))"),
    ("C11-m11 shape from previous order", PL, "pLSCF_mpe", "sel_phi.append(Phi_pol[:, order][sel, :])", "sel_phi.append(Phi_pol[:, order - 1][sel, :])"),
    ("C11-m12 whole request list as reference (SSI int)", S, "SSI_mpe", "np.isclose(fns_at_ord_ii, fj, rtol=rtol)", "np.isclose(fns_at_ord_ii, freq_ref, rtol=rtol)", 1),
    ("C11-m13 whole request list as reference (pLSCF list)", PL, "pLSCF_mpe", "np.isclose(fns_at_ord_ii, fj, rtol=rtol)", "np.isclose(fns_at_ord_ii, sel_freq, rtol=rtol)", 2),
    ("C11-m14 unguarded append", PL, "pLSCF_mpe", "if not check.any():\n    logger.warning('Could not find any values')\n    order_out = order\nelse:\n    sel_freq1.append(Fn_pol[:, order][sel])\n    sel_xi.append(Xi_pol[:, order][sel])\n    sel_phi.append(Phi_pol[:, order][sel, :])\n    order_out = order",
     "sel_freq1.append(Fn_pol[:, order][sel])\nsel_xi.append(Xi_pol[:, order][sel])\nsel_phi.append(Phi_pol[:, order][sel, :])\norder_out = order"),
    ("C11-m15 find_min value from wrong column", S, "SSI_mpe", "sel_xi.append(Xi_pol[index, i])", "sel_xi.append(Xi_pol[index, i - 1])"),
    ("C11-m16 mpe_from_plot passes frequencies as orders", "algorithms.ssi", "SSIdat.mpe_from_plot", "order = SFP.result[1]", "order = SFP.result[0]"),
    ("C11-m17 tolerance ignored", S, "SSI_mpe", "np.isclose(fns_at_ord_ii, fj, rtol=rtol)", "np.isclose(fns_at_ord_ii, fj)", 1),
    ("C11-m18 Xi returned in Fn slot", S, "SSI_mpe", "Fn = np.array(sel_freq).reshape(-1)", "Fn = np.array(sel_xi).reshape(-1)"),
]
REWRITES = [
    ("rename:C11-r01", S, "SSI_mpe", "sel", "row"),
    ("C11-r02 direct 2-d index", S, "SSI_mpe", "sel_xi.append(Xi_pol[:, order][sel])", "sel_xi.append(Xi_pol[sel, order])"),
    ("C11-r03 temp for column", S, "SSI_mpe", "sel = np.nanargmin(np.abs(Fn_pol[:, order[ii]] - fj))", "col = order[ii]\nsel = np.nanargmin(np.abs(Fn_pol[:, col] - fj))"),
    ("rename:C11-r04", PL, "pLSCF_mpe", "fns_at_ord_ii", "candidate"),
    ("C11-r05 positive test", PL, "pLSCF_mpe", "if not check.any():\n    logger.warning('Could not find any values')\n    order_out = order\nelse:\n    sel_freq1.append(Fn_pol[:, order][sel])\n    sel_xi.append(Xi_pol[:, order][sel])\n    sel_phi.append(Phi_pol[:, order][sel, :])\n    order_out = order",
     "if check.any():\n    sel_freq1.append(Fn_pol[:, order][sel])\n    sel_xi.append(Xi_pol[:, order][sel])\n    sel_phi.append(Phi_pol[:, order][sel, :])\n    order_out = order\nelse:\n    logger.warning('Could not find any values')\n    order_out = order"),
    ("C11-r06 tqdm removed", S, "SSI_mpe", "tqdm(freq_ref)", "freq_ref", 1),
]
