"""C18 - mode-shape indicators.

Decided (structural): O-real-scale - MAC, MPC, MPD, MCF are homogeneous of degree 0 in each mode-shape argument (unchanged under a
positive real factor) and MSF(a, b) ~ b/a; R-domain - in those functions every arccos/arcsin argument is bounded by an explicit
clip/minimum/maximum, every sqrt argument is a sum of squares / magnitude, and a quotient whose denominator contains a per-component
magnitude is formed under a zero guard (np.divide(where=), np.where on the denominator) or reduced NaN-safely: 'finite values, never
NaN'; R-mac-shape - MAC rows belong to the first set, columns to the second, both normalisers use the matching column.
Not decided: the bounds [0,1] / [0,pi/2] as numbers, invariance under a complex factor, exactness on collinear shapes.
"""
import ast

from ..absint import Interp, CTX, Cst, D, Tup, num, Deg
from .. import hd, astq
from ..hd import expect, events_to_obligations
from ..program import FuncInfo,  rel

FUNCS = ["MAC", "MPC", "MPD", "MCF", "MSF"]
RESTRICTED = {"numpy.arccos": "[-1,1]", "numpy.arcsin": "[-1,1]", "numpy.sqrt": ">=0", "numpy.log": ">0", "numpy.log10": ">0", "math.sqrt": ">=0", "math.acos": "[-1,1]"}
BOUNDERS = {"numpy.clip", ".clip", "numpy.minimum", "numpy.maximum", "numpy.fmin", "numpy.fmax", "min", "max"}
REDUCERS = {"numpy.sum", "numpy.dot", "numpy.vdot", "numpy.linalg.norm", "numpy.nansum", "numpy.mean", "numpy.max", "numpy.min", ".sum", ".dot",
            "numpy.trace", "numpy.inner", "sum", "numpy.nanmax", "numpy.amax"}


def check(prog, run):
    run.rule("O-real-scale", "MAC, MPC, MPD, MCF have degree 0 in the scale of each argument; MSF(a, b) has degree b/a", 6)
    run.rule("O-hom", "no degree-mixing operation / dimensional arccos argument inside the indicator functions", 1)
    run.rule("R-domain", "every arccos/arcsin argument is bounded by clip/minimum/maximum; every sqrt argument is a sum of squares or a magnitude; "
             "a quotient by a per-component magnitude is guarded against 0/0", 3)
    run.rule("R-mac-shape", "MAC: product conj(first).T @ second; entry [i, j] normalised with column i of the first and column j of the second set", 2)
    run.rule("R-options", "no option of a library call inside the indicator functions is dropped by a truth test (`axis=0`, `keepdims=False` are settings)", 1)
    qs_ = sorted(q for q in prog.reachable([prog.func("functions.gen." + n_).qual for n_ in FUNCS]) if q in prog.functions)
    astq.dropped_options_rule(prog, run, "R-options", qs_)
    run.rule("R-one-object", "inside the indicator functions no in-place operation touches an array that is also known by another local name which is used afterwards "
             "(the same object handed in for both sets, a prepared copy re-used for the second set)", 0)
    from ..effects import alias_inplace_rule
    raw_ = prog.raw
    alias_inplace_rule(raw_, run, "R-one-object", sorted(q for q in raw_.reachable([raw_.func("functions.gen." + n_).qual for n_ in FUNCS]) if q in raw_.functions))
    I = Interp(prog)
    seen = set()
    one = {
        "MAC": ([D(1, a=1), D(1, b=1)], {}),
        "MPC": ([D(1, a=1)], {}),
        "MPD": ([D(1, a=1)], {}),
        "MCF": ([D(1, a=1)], {}),
        "MSF": ([D(1, a=1), D(1, b=1)], dict(a=-1, b=1)),
    }
    for name in FUNCS:
        fn = I.fn("functions.gen." + name)
        args, exp = one[name]
        CTX.events.clear()
        r = I.call(fn, args)
        expect(run, prog, "O-real-scale", fn.qual, "value", r, exp, f"{name}({', '.join('abcd'[i] + '*phi' for i in range(len(args)))})", allow_any=False)
        if name == "MAC":
            CTX.events.clear()
            r = I.call(fn, [D(2, a=1), D(2, b=1)])
            expect(run, prog, "O-real-scale", fn.qual, "value (matrix form)", r, {}, "MAC(a*Phi1, b*Phi2)", allow_any=False)
        events_to_obligations(run, prog, "O-hom", name, seen=seen)
    if not any(o.rule == "O-hom" for o in run.obs):
        run.ob("O-hom", "pyoma2.functions.gen", "all-operations", True, "no event")
    # the MAC band filter of the EFDD / FSDD bell (fdd.SDOF_bellandMS) decides `MAC(reference shape, singular vector) > MAClim`: the left
    # side must be free of the scale of the reference shape (a MAC), whoever computes it - gen.MAC or an inlined batch form
    from ..hd import SEC, HZ
    from ..absint import Cst, SCAL
    try:
        bell = I.fn("functions.fdd.SDOF_bellandMS")
    except Exception:
        bell = None
    if bell is not None:
        for meth in ("FSDD", "EFDD"):
            CTX.events.clear()
            I.call(bell, [D(3, g=2, s=1), SEC, HZ, D(1, a=1), Cst(meth), Cst(1), SCAL, HZ])
            before = len(run.obs)
            events_to_obligations(run, prog, "O-hom", f"SDOF_bellandMS(phi_ref ~ a)[method={meth}]", seen=seen)
            if len(run.obs) == before:
                run.ob("O-hom", bell.qual, "MAC filter of the band is scale-free in the reference shape", True, f"no scale-dependent decision (method={meth})", config=meth)
    run.trusted |= set(CTX.used)
    for name in FUNCS:
        domain(prog, run, prog.func("functions.gen." + name))
    mac_shape(prog, run, prog.func("functions.gen.MAC"))
    mpd_vector(prog, run, prog.func("functions.gen.MPD"))


def _contains_componentwise_abs(prog, fi, e, params):
    """does e contain abs(<expression of a parameter>) outside any reducing call?"""
    def rec(n, reduced):
        if isinstance(n, ast.Attribute) and n.attr in ("shape", "ndim", "size", "dtype"):
            return False        # only the extent / type of the array is used, not its values
        if isinstance(n, ast.Call) and isinstance(n.func, ast.Name) and n.func.id == "len":
            return False
        if isinstance(n, ast.Call):
            nm = astq.callee_name(prog, fi, n)
            if nm in REDUCERS or _reducing_helper(prog, fi, n):
                return False
            if nm in astq.ABS and n.args:
                names = {x.id for x in ast.walk(n.args[0]) if isinstance(x, ast.Name)}
                if names & set(params):
                    return True
        for c in ast.iter_child_nodes(n):
            if rec(c, reduced):
                return True
        return False
    return rec(e, False)


def _reducing_helper(prog, fi, call):
    """a function of the package whose result is a reduction (np.sum(..) ..) of what it is given"""
    r = prog.resolve_call(fi, call)
    if not isinstance(r, FuncInfo):
        return False
    rets = [x.value for x in ast.walk(r.node) if isinstance(x, ast.Return) and x.value is not None]
    return bool(rets) and all(isinstance(v, ast.Call) and astq.callee_name(prog, r, astq.expr_at(r, v, v) if False else v) in REDUCERS for v in rets)


def _sum_of_squares(prog, fi, e):
    """e is nonnegative by construction: x**2 (+ y**2 ...), abs(..), products/sums of such, or positive constants"""
    if isinstance(e, ast.BinOp):
        if isinstance(e.op, ast.Pow) and isinstance(e.right, ast.Constant) and isinstance(e.right.value, int) and e.right.value % 2 == 0:
            return True
        if isinstance(e.op, (ast.Add, ast.Mult)):
            return _sum_of_squares(prog, fi, e.left) and _sum_of_squares(prog, fi, e.right)
        return False
    if isinstance(e, ast.Constant):
        return isinstance(e.value, (int, float)) and e.value >= 0
    if isinstance(e, ast.Call):
        nm = astq.callee_name(prog, fi, e)
        if nm in astq.ABS or nm in ("numpy.square",):
            return True
        if nm in ("numpy.sum", ".sum", "numpy.diag") and e.args:
            return _sum_of_squares(prog, fi, e.args[0])
    return False


def domain(prog, run, fi):
    f = rel(prog.mods[fi.mod].path)
    pos, _, _, _ = astq.params_of(fi.node)
    n_inst = 0
    for n in ast.walk(fi.node):
        if isinstance(n, ast.Call):
            nm = astq.callee_name(prog, fi, n)
            if nm in RESTRICTED and n.args:
                n_inst += 1
                arg = astq.expand(fi, n.args[0], stop=pos)
                dom = RESTRICTED[nm]
                if dom == "[-1,1]":
                    ok = isinstance(arg, ast.Call) and astq.callee_name(prog, fi, arg) in BOUNDERS
                    run.ob("R-domain", fi.qual, f"{nm.split('.')[-1]} argument bounded", ok,
                           f"`{astq.src(n.args[0], 70)}`" + ("" if ok else " is not bounded by clip/minimum/maximum: rounding can push it outside [-1, 1] (NaN)"),
                           witness="unbounded", file=f, node=n)
                elif dom == ">=0":
                    # S (singular values) is nonnegative: sqrt of names bound from svd()[1] accepted
                    ok = _sum_of_squares(prog, fi, arg)
                    run.ob("R-domain", fi.qual, "sqrt argument nonnegative", ok,
                           f"`{astq.src(n.args[0], 70)}`" + ("" if ok else " is not a sum of squares / magnitude"), witness="sign unknown", file=f, node=n)
                else:
                    run.ob("R-domain", fi.qual, "log argument positive", None, f"`{astq.src(n.args[0], 70)}`: positivity not modelled", file=f, node=n)
        den = None
        guarded = False
        if isinstance(n, ast.BinOp) and isinstance(n.op, ast.Div):
            den = n.right
        elif isinstance(n, ast.Call) and astq.callee_name(prog, fi, n) in ("numpy.divide", "numpy.true_divide") and len(n.args) >= 2:
            den = n.args[1]
            guarded = astq.kwarg(n, "where") is not None
        if den is not None:
            dx = astq.expand(fi, den, stop=pos)
            if _contains_componentwise_abs(prog, fi, dx, pos):
                n_inst += 1
                if not guarded:
                    guarded = _under_where_guard(prog, fi, n, den)
                if not guarded:
                    guarded = _nan_absorbed(prog, fi, n)
                run.ob("R-domain", fi.qual, "quotient by a per-component magnitude guarded", guarded,
                       f"`{astq.src(n, 70)}`" + ("" if guarded else ": 0/0 = NaN when a component is zero"), witness="unguarded", file=f, node=n)
    if n_inst == 0:
        run.ob("R-domain", fi.qual, "restricted-domain operations", True, "none in this function", file=f, node=fi.node)


def mpd_vector(prog, run, fi):
    """the elements of the right-singular-vector matrix used by MPD belong to ONE singular vector (components 0 and 1 of it)"""
    run.rule("R-mpd-vector", "MPD combines the two components of ONE right singular vector of [Re phi, Im phi]", 1)
    f = rel(prog.mods[fi.mod].path)
    reads = []
    # the svd may sit in a private helper of the module that returns the two components: judge the reads there
    scopes = [fi]
    for c, r in prog.calls_in(fi):
        from ..program import FuncInfo as _FI
        if isinstance(r, _FI) and r.mod == fi.mod and r.node.name.startswith("_") and r not in scopes:
            scopes.append(r)
    whole = []      # (node, part, 'vector' | 'component', index, scope): reads of a whole row / column of the factor
    for sc in scopes:
        for n in ast.walk(sc.node):
            if not isinstance(n, ast.Subscript):
                continue
            el = astq.index_elts(n)
            kinds = ["c" if (isinstance(e, ast.Constant) and isinstance(e.value, int)) else ("f" if astq.is_full_slice(e) else "?") for e in el]
            if kinds not in (["c"], ["c", "f"], ["f", "c"]):
                continue
            base = astq.expr_at(sc, n, n.value)
            transposed = False
            while isinstance(base, ast.Attribute) and base.attr == "T":
                transposed = not transposed
                base = base.value
            if isinstance(base, ast.Subscript) and isinstance(base.slice, ast.Constant) and isinstance(base.value, ast.Call) \
                    and astq.callee_name(prog, sc, base.value) in ("numpy.linalg.svd", "scipy.linalg.svd") and base.slice.value in (0, 2):
                part = base.slice.value
                first_axis = kinds[0] == "c"
                k_ = [e.value for e in el if isinstance(e, ast.Constant)][0]
                # part 2 (V^H): rows are the vectors; part 0 (U): columns are the vectors; a transposition swaps the two
                rows_are_vectors = (part == 2) != transposed
                takes_vector = first_axis == rows_are_vectors
                whole.append((n, part, "vector" if takes_vector else "component", k_, sc))
    for n, part, what, k_, sc in whole:
        ok = part == 2 and what == "vector"
        run.ob("R-mpd-vector", fi.qual, "a whole slice of the right factor that is used is ONE singular vector", ok,
               f"`{astq.src(n, 40)}` (in {sc.node.name}) is " + (f"right singular vector {k_}" if ok else (f"component {k_} of EVERY singular vector (a column of V^H): components of different vectors are combined" if what == "component" else f"a vector of the LEFT factor")),
               witness=f"{astq.src(n, 30)}:{what}", file=rel(prog.mods[sc.mod].path), node=n)
    for n in ast.walk(fi.node):
        if isinstance(n, ast.Subscript) and len(astq.index_elts(n)) == 2 and all(isinstance(e, ast.Constant) and isinstance(e.value, int) for e in astq.index_elts(n)):
            base = astq.expr_at(fi, n, n.value)
            transposed = False
            while isinstance(base, ast.Attribute) and base.attr == "T":
                transposed = not transposed
                base = base.value
            if isinstance(base, ast.Subscript) and isinstance(base.slice, ast.Constant) and isinstance(base.value, ast.Call) \
                    and astq.callee_name(prog, fi, base.value) in ("numpy.linalg.svd", "scipy.linalg.svd"):
                part = base.slice.value
                a, b = [e.value for e in astq.index_elts(n)]
                if part == 2:
                    vec, comp = (b, a) if transposed else (a, b)   # rows of V^H are the vectors
                elif part == 0:
                    vec, comp = (a, b) if transposed else (b, a)   # columns of U are the vectors
                else:
                    continue
                reads.append((n, part, vec, comp))
    if not reads:
        if not whole:
            run.ob("R-mpd-vector", fi.qual, "singular-vector elements", None, "no constant-index read of an svd factor found in MPD", file=f)
        return
    vecs = {v for _, _, v, _ in reads}
    comps = {c for _, _, _, c in reads}
    parts = {p for _, p, _, _ in reads}
    ok = len(vecs) == 1 and comps == {0, 1} and parts == {2}
    run.ob("R-mpd-vector", fi.qual, "all elements read belong to one right singular vector, both components used", ok,
           "reads (vector, component): " + ", ".join(f"`{astq.src(n)}`->({v},{c})" for n, _, v, c in reads) + ("" if ok else " - components of DIFFERENT singular vectors are combined"),
           witness=str(sorted((v, c) for _, _, v, c in reads)), file=f, node=reads[0][0])


NAN_ABSORBING = ("numpy.fmin", "numpy.fmax", "numpy.nan_to_num")     # fmin(nan, c) = c; minimum / clip hand the NaN on


def _nan_absorbed(prog, fi, node):
    """the quotient - itself, or through the one name it is bound to - is only ever read as the first argument of a function that replaces a
    NaN by a number (np.fmin(q, 1.0), np.nan_to_num(q)): the 0/0 of a zero component never leaves the routine"""
    pm = astq.parent_map(fi.node)

    def absorbed_use(x):
        par = pm.get(x)
        return isinstance(par, ast.Call) and astq.callee_name(prog, fi, par) in NAN_ABSORBING and par.args and par.args[0] is x
    if absorbed_use(node):
        return True
    par = pm.get(node)
    if isinstance(par, ast.Assign) and par.value is node and len(par.targets) == 1 and isinstance(par.targets[0], ast.Name):
        t = par.targets[0].id
        stores = [x for x in ast.walk(fi.node) if isinstance(x, ast.Name) and x.id == t and isinstance(x.ctx, ast.Store)]
        loads = [x for x in ast.walk(fi.node) if isinstance(x, ast.Name) and x.id == t and isinstance(x.ctx, ast.Load)]
        return len(stores) == 1 and bool(loads) and all(absorbed_use(x) for x in loads)
    return False


def _under_where_guard(prog, fi, node, den):
    """node appears as an argument of np.where(cond, ...) whose condition mentions the denominator variable"""
    dn = {x.id for x in ast.walk(den) if isinstance(x, ast.Name)}
    for w in ast.walk(fi.node):
        if isinstance(w, ast.Call) and astq.callee_name(prog, fi, w) == "numpy.where" and len(w.args) == 3:
            if any(node is x for a in w.args[1:] for x in ast.walk(a)):
                cn = {x.id for x in ast.walk(w.args[0]) if isinstance(x, ast.Name)}
                if cn & dn:
                    return True
    return False


class _Cols(ast.NodeTransformer):
    """iteration over the columns of a (2-d) set written as rows of its transpose:  len(P.T) -> P.shape[1],  P.T[k] -> P[:, k]"""

    def __init__(self, names):
        self.names = names

    def _is_t(self, e):
        return isinstance(e, ast.Attribute) and e.attr == "T" and isinstance(e.value, ast.Name) and e.value.id in self.names

    def visit_Call(self, n):
        self.generic_visit(n)
        if isinstance(n.func, ast.Name) and n.func.id == "len" and len(n.args) == 1 and self._is_t(n.args[0]):
            return ast.copy_location(ast.Subscript(value=ast.Attribute(value=n.args[0].value, attr="shape", ctx=ast.Load()), slice=ast.Constant(value=1), ctx=ast.Load()), n)
        return n

    def visit_Subscript(self, n):
        self.generic_visit(n)
        if self._is_t(n.value) and not isinstance(n.slice, (ast.Tuple, ast.Slice)):
            return ast.copy_location(ast.Subscript(value=n.value.value, slice=ast.Tuple(elts=[ast.Slice(lower=None, upper=None, step=None), n.slice], ctx=ast.Load()), ctx=n.ctx), n)
        return n


def _reduction_kind(prog, fi, e):
    """('per-shape' | 'whole-set', text) for an expression that reduces a (sensors x shapes) set to norms: which axis is summed.
    Helpers of the package are looked into (their returned expression); None when no reduction is recognised"""
    seen = 0
    work = [(fi, e)]
    while work and seen < 6:
        g, x = work.pop()
        seen += 1
        for c in ast.walk(x):
            if not isinstance(c, ast.Call):
                continue
            nm = astq.callee_name(prog, g, c) or ""
            last = nm.split(".")[-1]
            if nm in ("numpy.vdot",):
                return "whole-set", f"`{astq.src(c, 40)}`: np.vdot flattens its arguments - one number for all shapes together"
            if last in ("sum", "nansum", "norm", "mean") and (nm.startswith("numpy.") or nm.startswith(".")):
                ax = astq.kwarg(c, "axis", 1 if not nm.startswith(".") else 0)
                if nm.endswith("linalg.norm"):
                    ax = astq.kwarg(c, "axis", 2)
                if ax is None:
                    return "whole-set", f"`{astq.src(c, 40)}` has no axis: it reduces over sensors AND shapes"
                if isinstance(ax, ast.Constant) and ax.value == 0:
                    return "per-shape", f"`{astq.src(c, 40)}` reduces over the sensor axis"
                return None
            if last == "einsum" and c.args and isinstance(c.args[0], ast.Constant) and isinstance(c.args[0].value, str) and "->" in c.args[0].value:
                out = c.args[0].value.split("->")[1].strip()
                return ("per-shape", f"`{astq.src(c, 40)}` keeps one index") if len(out) == 1 else (("whole-set", f"`{astq.src(c, 40)}` sums every index") if out == "" else None)
            r = None
            try:
                r = prog.resolve_call(g, c)
            except Exception:
                pass
            if isinstance(r, FuncInfo) and r.node is not g.node:
                rets = [n_ for n_ in ast.walk(r.node) if isinstance(n_, ast.Return) and n_.value is not None]
                if len(rets) == 1:
                    work.append((r, astq.expr_at(r, rets[0], rets[0].value)))
    return None


def mac_shape(prog, run, fi):
    f = rel(prog.mods[fi.mod].path)
    pos, _, _, _ = astq.params_of(fi.node)
    p0, p1 = pos[0], pos[1]
    # `for i, x in enumerate(P.T)` / `zip` loops as index loops over the columns
    fi = astq.IndexedFn(fi)
    fi.node = ast.fix_missing_locations(_Cols({p0, p1}).visit(fi.node))
    # the matrix product
    prods = [n for n in ast.walk(fi.node) if isinstance(n, ast.BinOp) and isinstance(n.op, ast.MatMult)] + \
            [n for n in ast.walk(fi.node) if isinstance(n, ast.Call) and astq.callee_name(prog, fi, n) in ("numpy.dot", "numpy.matmul", "numpy.vdot")]
    found = False
    for pnode in prods:
        l, r = (pnode.left, pnode.right) if isinstance(pnode, ast.BinOp) else (pnode.args[0], pnode.args[1])
        ln = {x.id for x in ast.walk(l) if isinstance(x, ast.Name)} & {p0, p1}
        rn = {x.id for x in ast.walk(r) if isinstance(x, ast.Name)} & {p0, p1}
        if len(ln) == 1 and len(rn) == 1 and ln != rn:
            found = True
            transposed = any(isinstance(x, ast.Attribute) and x.attr in ("T", "H") for x in ast.walk(l)) or \
                any(isinstance(x, ast.Call) and astq.callee_name(prog, fi, x) in ("numpy.transpose", ".transpose") for x in ast.walk(l))
            conj = any(isinstance(x, ast.Call) and astq.callee_name(prog, fi, x) in ("numpy.conj", "numpy.conjugate", ".conj", ".conjugate") for x in ast.walk(l))
            ok = ln == {p0} and rn == {p1} and transposed
            run.ob("R-mac-shape", fi.qual, "product orientation", ok, f"`{astq.src(pnode, 60)}`: left <- {sorted(ln)}, right <- {sorted(rn)}, left transposed: {transposed}, conjugated: {conj}",
                   witness=f"{sorted(ln)}x{sorted(rn)} T={transposed}", file=f, node=pnode)
    if not found:
        run.ob("R-mac-shape", fi.qual, "product orientation", None, "cross product between the two sets not found", file=f)
    # loops
    loops = {}
    for n in ast.walk(fi.node):
        if isinstance(n, ast.For) and isinstance(n.target, ast.Name) and isinstance(n.iter, ast.Call) and astq.callee_name(prog, fi, n.iter) == "range" and n.iter.args:
            a = n.iter.args[-1] if len(n.iter.args) <= 2 else n.iter.args[1]
            s = astq.src(astq.expr_at(fi, n, a, keep=(p0, p1)))
            for p in (p0, p1):
                if s == f"{p}.shape[1]":
                    loops[n.target.id] = p
    stores = [n for n in ast.walk(fi.node) if isinstance(n, (ast.Assign, ast.AugAssign))
              and isinstance((n.targets[0] if isinstance(n, ast.Assign) else n.target), ast.Subscript)]
    checked = 0
    for st in stores:
        tgt = st.targets[0] if isinstance(st, ast.Assign) else st.target
        el = astq.index_elts(tgt)
        if len(el) == 2 and all(isinstance(e, ast.Name) and e.id in loops for e in el):
            checked += 1
            ok = loops[el[0].id] == p0 and loops[el[1].id] == p1
            run.ob("R-mac-shape", fi.qual, "entry indices", ok, f"`{astq.src(tgt)}`: row index runs over {loops[el[0].id]}, column index over {loops[el[1].id]}",
                   witness=f"{loops[el[0].id]},{loops[el[1].id]}", file=f, node=st)
            bad = []
            for sub in ast.walk(astq.expr_at(fi, st, st.value, keep=(p0, p1))):
                if isinstance(sub, ast.Subscript) and isinstance(sub.value, ast.Name) and sub.value.id in (p0, p1):
                    e2 = astq.index_elts(sub)
                    if len(e2) == 2 and isinstance(e2[1], ast.Name) and e2[1].id in loops and loops[e2[1].id] != sub.value.id:
                        bad.append(astq.src(sub))
            run.ob("R-mac-shape", fi.qual, "normalisers use the matching column", not bad,
                   "each set is indexed with its own loop variable" if not bad else f"{bad} indexed with the other set's loop variable",
                   witness=";".join(bad), file=f, node=st)
    if not checked:
        # vectorised normalisation:  |X^H A|^2 / outer(u, v)   (or u[:, None] * v[None, :]) - rows belong to the first set, so u must be its norms
        def prov(e):
            return {n_.id for n_ in ast.walk(e) if isinstance(n_, ast.Name)} & {p0, p1}
        vec = 0
        for dv in ast.walk(fi.node):
            if not (isinstance(dv, ast.BinOp) and isinstance(dv.op, ast.Div)):
                continue
            den = astq.expr_at(fi, dv, dv.right, keep=(p0, p1))
            numr = astq.expr_at(fi, dv, dv.left, keep=(p0, p1))
            if not ({p0, p1} <= {n_.id for n_ in ast.walk(numr) if isinstance(n_, ast.Name)}):
                continue
            u = v = None
            if isinstance(den, ast.Call) and astq.callee_name(prog, fi, den) in ("numpy.outer", "numpy.multiply.outer") and len(den.args) == 2:
                u, v = den.args
            elif isinstance(den, ast.BinOp) and isinstance(den.op, ast.Mult):
                def bc(e):
                    """(base, 'col' | 'row') for e[:, None] / e[None, :]"""
                    if isinstance(e, ast.Subscript) and len(astq.index_elts(e)) == 2:
                        a_, b_ = astq.index_elts(e)
                        isn = lambda z: (isinstance(z, ast.Constant) and z.value is None) or astq.src(z).endswith("newaxis")
                        if astq.is_full_slice(a_) and isn(b_):
                            return e.value, "col"
                        if isn(a_) and astq.is_full_slice(b_):
                            return e.value, "row"
                    return None
                l_, r_ = bc(den.left), bc(den.right)
                if l_ and r_ and {l_[1], r_[1]} == {"col", "row"}:
                    u, v = (l_[0], r_[0]) if l_[1] == "col" else (r_[0], l_[0])
            if u is None:
                # nested comprehension: np.array([[f(x, a) for a in <second set>] for x in <first set>]) - entry [i][j] pairs the i-th
                # element of the OUTER iteration with the j-th of the inner one (a reshape to the product's shape keeps that)
                d2 = den
                while isinstance(d2, ast.Call) and isinstance(d2.func, ast.Attribute) and d2.func.attr in ("reshape", "astype", "copy") :
                    d2 = d2.func.value
                if isinstance(d2, ast.Call) and astq.callee_name(prog, fi, d2) in ("numpy.array", "numpy.asarray") and d2.args:
                    d2 = d2.args[0]
                if isinstance(d2, ast.ListComp) and len(d2.generators) == 1 and isinstance(d2.elt, ast.ListComp) and len(d2.elt.generators) == 1:
                    u, v = d2.generators[0].iter, d2.elt.generators[0].iter
                elif isinstance(d2, ast.ListComp) and len(d2.generators) == 2:
                    u, v = d2.generators[0].iter, d2.generators[1].iter
            if u is None:
                continue
            vec += 1
            pu, pv = prov(u), prov(v)
            ok = (pu == {p0} and pv == {p1}) if (len(pu) == 1 and len(pv) == 1) else None
            # each factor is ONE number per shape (a reduction over the sensors): a reduction over the whole set (np.vdot flattens its
            # arguments, a sum / norm without axis) gives one number for the set - outer() of two scalars still broadcasts, silently
            for fac, whose in ((u, p0), (v, p1)):
                kind = _reduction_kind(prog, fi, fac)
                if kind is not None:
                    run.ob("R-mac-shape", fi.qual, "normalisers are one number per shape", kind[0] == "per-shape",
                           f"`{astq.src(fac, 50)}`: {kind[1]}" + ("" if kind[0] == "per-shape" else f" - every entry of the matrix is divided by a number that belongs to the whole set `{whose}`, not to its own shape"),
                           witness=kind[1][:80], file=f, node=dv)
            run.ob("R-mac-shape", fi.qual, "entry indices", ok, f"normaliser `{astq.src(den, 70)}`: row factor from {sorted(pu)}, column factor from {sorted(pv)} (rows belong to {p0}, columns to {p1})",
                   witness=f"{sorted(pu)},{sorted(pv)}", file=f, node=dv)
        if not vec:
            # the sets made unit length BEFORE the product (each in its own call of one helper, or in place): |X^H A|^2 is then the MAC -
            # provided every shape was divided by ITS OWN length
            copies = {p0: p0, p1: p1}
            for a_ in ast.walk(fi.node):
                if isinstance(a_, ast.Assign) and len(a_.targets) == 1 and isinstance(a_.targets[0], ast.Name) and isinstance(a_.value, ast.Name) and a_.value.id in copies \
                        and a_.targets[0].id not in copies:
                    copies[a_.targets[0].id] = copies[a_.value.id]
            for dv in ast.walk(fi.node):
                if isinstance(dv, ast.BinOp) and isinstance(dv.op, ast.Div) and isinstance(dv.left, ast.Name) and dv.left.id in copies:
                    kind = _reduction_kind(prog, fi, dv.right)
                    if kind is not None and dv.left.id in {n_.id for n_ in ast.walk(dv.right) if isinstance(n_, ast.Name)}:
                        whose = copies[dv.left.id]
                        vec += 1
                        run.ob("R-mac-shape", fi.qual, "normalisers are one number per shape", kind[0] == "per-shape",
                               f"`{astq.src(dv, 60)}` (the set `{whose}` made unit length before the product): {kind[1]}" +
                               ("" if kind[0] == "per-shape" else f" - every shape of `{whose}` is divided by a number that belongs to the whole set, not to itself"),
                               witness=kind[1][:80], file=f, node=dv, config=whose)
            for c_ in ast.walk(fi.node):
                if not (isinstance(c_, ast.Call) and c_.args and isinstance(c_.args[0], ast.Name) and c_.args[0].id in (p0, p1)):
                    continue
                try:
                    g_ = prog.resolve_call(fi, c_)
                except Exception:
                    g_ = None
                if not isinstance(g_, FuncInfo) or g_.node is fi.node:
                    continue
                gp = astq.params_of(g_.node)[0]
                if not gp:
                    continue
                for dv in ast.walk(g_.node):
                    if isinstance(dv, ast.BinOp) and isinstance(dv.op, ast.Div) and isinstance(dv.left, ast.Name) and dv.left.id == gp[0]:
                        kind = _reduction_kind(prog, g_, dv.right)
                        if kind is not None and gp[0] in {n_.id for n_ in ast.walk(dv.right) if isinstance(n_, ast.Name)}:
                            vec += 1
                            run.ob("R-mac-shape", fi.qual, "normalisers are one number per shape", kind[0] == "per-shape",
                                   f"`{astq.src(dv, 60)}` in {g_.node.name} (applied to `{c_.args[0].id}` before the product): {kind[1]}" +
                                   ("" if kind[0] == "per-shape" else f" - every shape of `{c_.args[0].id}` is divided by a number that belongs to the whole set, not to itself"),
                                   witness=kind[1][:80], file=f, node=c_, config=c_.args[0].id)
        if not vec:
            run.ob("R-mac-shape", fi.qual, "entry indices", None, "normalisation (loop `M[i, j] = ...` or outer product of the two norm vectors) not found", file=f)


G = "functions.gen"
MUTANTS = [
    ("C18-m11 vectorised normalisation with the two norm vectors swapped", G, "MAC", "for i in range(phi_X.shape[1]):\n    for j in range(phi_A.shape[1]):\n        MAC[i, j] = MAC[i, j] / (np.conj(phi_X[:, i]) @ phi_X[:, i] * np.conj(phi_A[:, j]) @ phi_A[:, j])",
     "MAC = MAC / np.outer(np.sum(np.abs(phi_A) ** 2, axis=0), np.sum(np.abs(phi_X) ** 2, axis=0))"),
    ("C18-m01 arccos argument not clipped", G, "MPD", "np.arccos(np.clip(ratio, 0.0, 1.0))", "np.arccos(ratio)"),
    ("C18-m02 plain division by the component magnitudes", G, "MPD", "np.divide(np.abs(num), den, out=np.ones_like(den), where=den > 0)", "np.abs(num) / den"),
    ("C18-m03 MAC normalised by the first set only", G, "MAC", "np.conj(phi_X[:, i]) @ phi_X[:, i] * np.conj(phi_A[:, j]) @ phi_A[:, j]", "np.conj(phi_X[:, i]) @ phi_X[:, i]"),
    ("C18-m04 MAC rows and columns swapped", G, "MAC", "np.conj(phi_X).T @ phi_A", "np.conj(phi_A).T @ phi_X"),
    ("C18-m06 MPC not squared", G, "MPC", "(lambd[0] - lambd[1]) ** 2 / (lambd[0] + lambd[1]) ** 2", "(lambd[0] - lambd[1]) ** 2 / (lambd[0] + lambd[1])"),
    ("C18-m07 MSF inverted", G, "MSF", "np.dot(phi_2[:, i].T, phi_1[:, i]) / np.dot(phi_1[:, i].T, phi_1[:, i])", "np.dot(phi_1[:, i].T, phi_1[:, i]) / np.dot(phi_2[:, i].T, phi_1[:, i])"),
    ("C18-m08 MCF with a scale-dependent term", G, "MCF", "(S_xx + S_yy) ** 2", "(S_xx + S_yy)"),
    ("C18-m09 MPD weights not normalised", G, "MPD", "/ np.sum(w)", "", ),
    ("C18-m10 MPD mixes two singular vectors", G, "MPD", "V = VT.T", "V = VT"),
    ("C18-m11 MPD from the left singular vectors", G, "MPD", "U, s, VT = np.linalg.svd(np.c_[phi.real, phi.imag])", "VT, s, U = np.linalg.svd(np.c_[phi.real, phi.imag])"),
]
MUTANTS = [m for m in MUTANTS if m[4] != ""]
MUTANTS.append(("C18-m09 MPD weights not normalised", G, "MPD", "MPD = np.sum(w * np.arccos(np.clip(ratio, 0.0, 1.0))) / np.sum(w)", "MPD = np.sum(w * np.arccos(np.clip(ratio, 0.0, 1.0)))"))
REWRITES = [
    ("C18-r05 vectorised normalisation (outer product of the column norms)", G, "MAC", "for i in range(phi_X.shape[1]):\n    for j in range(phi_A.shape[1]):\n        MAC[i, j] = MAC[i, j] / (np.conj(phi_X[:, i]) @ phi_X[:, i] * np.conj(phi_A[:, j]) @ phi_A[:, j])",
     "MAC = MAC / np.outer(np.sum(np.abs(phi_X) ** 2, axis=0), np.sum(np.abs(phi_A) ** 2, axis=0))"),
    ("rename:C18-r01", G, "MPD", "ratio", "cosang"),
    ("C18-r02 minimum instead of clip", G, "MPD", "np.clip(ratio, 0.0, 1.0)", "np.minimum(ratio, 1.0)"),
    ("C18-r03 where-guarded quotient", G, "MPD", "np.divide(np.abs(num), den, out=np.ones_like(den), where=den > 0)", "np.where(den > 0, np.abs(num) / np.where(den > 0, den, 1.0), 1.0)"),
    ("C18-r04 transposed factor used directly", G, "MPD", "num = phi.real * V[1, 1] - phi.imag * V[0, 1]", "num = phi.real * VT[1, 1] - phi.imag * VT[1, 0]"),
]
