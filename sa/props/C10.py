"""C10 - stability labels follow the soft criteria between consecutive orders.

Decided (structural, in gen.SC_apply): R-neighbour - the compared column is the previous one (o-1) for frequency, damping and
shape; the matched pole of the previous order is the one nearest in FREQUENCY (nanargmin |f_prev - f_i|) and the SAME index is used
for all three quantities; each relative difference is compared, strictly, with its own tolerance (err_fn <-> frequency,
err_xi <-> damping, err_phi <-> 1-MAC) and the three tests are joined by `and`; the order loop runs over
range(ordmin, ordmax+1, step), the first column is skipped; labels are only 0/1 written into a freshly allocated array at
(pole i, order o) - the function stores nothing into its arguments (pure function of the tables and tolerances).
R-labels - every reader of the label table reachable from the algorithm classes compares it with a value the writer can produce.
Not decided: the meaning of ordmin for pLSCF (column vs order), the 1e-9 tolerance band.
"""
import ast

from .. import astq, symidx
from ..program import rel, FuncInfo, AnalysisError
from ..poly import P

FN = "functions.gen.SC_apply"


_SC_CACHE = {}


def _sc_bind_by_dependence(prog):
    """{(run method, tolerance parameter): (verdict, text)} from the dependence (taint) interpretation of every SSI / pLSCF run():
    which entries of the user's `sc` dictionary the value handed to each tolerance parameter of SC_apply depends on"""
    key = id(prog)
    if key in _SC_CACHE:
        return _SC_CACHE[key]
    from . import C09
    from ..taint import TaintInterp, labels
    out = {}
    SC = "pyoma2.functions.gen.SC_apply"
    pos = astq.params_of(prog.func(FN).node)[0]
    for cq, method, unc in C09.CLASSES:
        ci = prog.cls(cq)
        runf = prog.find_method(ci, "run")
        ti = TaintInterp(prog)
        try:
            ti.call_function(runf, [], {}, bound=C09.make_me(prog, ci, cq, method, unc))
        except AnalysisError:
            continue
        calls = [env for q, env, node in ti.call_log if q == SC]
        for p_ in pos[6:9]:
            verdict, text = None, ""
            for env in calls:
                ls = labels(env.get(p_))
                got = sorted(l[3:] for l in ls if l.startswith("sc:"))
                if "mix:order" in ls:
                    v, t = False, f"`{p_}` receives one of {got} - whichever comes at that position in the user's `sc` dictionary: the tolerances are handed over in the order of that dictionary, not by name"
                elif got == [p_]:
                    v, t = True, f"`{p_}` <- sc[{p_!r}] (dependence analysis of run())"
                elif any(q_ != p_ and any(l_.startswith("sc:") for l_ in labels(x_)) for q_, x_ in env.items() if q_ not in pos[6:9]):
                    other = next(q_ for q_, x_ in env.items() if q_ != p_ and q_ not in pos[6:9] and any(l_.startswith("sc:") for l_ in labels(x_)))
                    v, t = None, f"`{p_}` <- {got}; the user's tolerances reach SC_apply through its parameter `{other}` - how they are used there was not followed"
                elif ti.blind_for(env.get(p_)):
                    v, t = None, f"`{p_}` <- {got}; not decided: the analysis did not follow {ti.blind_for(env.get(p_))}"
                else:
                    v, t = False, f"`{p_}` depends on sc entries {got}, expected ['{p_}'] only"
                if verdict is None or v is False:
                    verdict, text = v, t
            prev = out.get((runf.qual, p_))
            if prev is None or verdict is False or (prev[0] is True and verdict is None):
                out[(runf.qual, p_)] = (verdict, text)
    _SC_CACHE[key] = out
    return out


def _pair_loop_env(prog, fi, se, at):
    """`for a, b in <pairs>` around node `at`, the pairs being a comprehension of tuples (written there or returned by a helper):
    a and b are bound to the tuple's components in terms of the comprehension variable - `[(o - 1, o) for o in cols]` makes a = b - 1"""
    pm = astq.parent_map(fi.node)
    loop = astq.enclosing(pm, at, (ast.For,))
    while loop is not None:
        if isinstance(loop.target, ast.Tuple) and all(isinstance(t, ast.Name) for t in loop.target.elts):
            it = loop.iter
            owner = fi
            for _ in range(3):
                if isinstance(it, ast.Name):
                    d_ = astq.unique_def(astq.assignments(owner), it.id)
                    if d_ is None:
                        break
                    it = d_
                elif isinstance(it, ast.Call) and not isinstance(it.func, ast.Attribute):
                    try:
                        r = prog.resolve_call(owner, it)
                    except Exception:
                        r = None
                    rets = [x for x in ast.walk(r.node) if isinstance(x, ast.Return) and x.value is not None] if isinstance(getattr(r, "node", None), ast.FunctionDef) else []
                    if len(rets) != 1:
                        break
                    owner, it = r, rets[0].value
                else:
                    break
            if isinstance(it, ast.ListComp) and isinstance(it.elt, ast.Tuple) and len(it.elt.elts) == len(loop.target.elts) and len(it.generators) == 1 \
                    and isinstance(it.generators[0].target, ast.Name):
                v = it.generators[0].target.id
                se2 = symidx.SymEval(prog, owner, stop={v})
                vals = [se2.ev(e_) for e_ in it.elt.elts]
                if all(x is not None for x in vals):
                    for t, x in zip(loop.target.elts, vals):
                        se.env[t.id] = x
        loop = astq.enclosing(pm, loop, (ast.For,))


def check(prog, run):
    run.rule("R-neighbour", "SC_apply compares column o with column o-1; match = nanargmin|f_prev - f_i|, one index for f, xi, phi; "
             "|df|/f < err_fn and |dxi|/xi < err_xi and 1-MAC < err_phi; range(ordmin, ordmax+1, step); first column skipped", 12)
    run.rule("R-pure", "labels are constants 0/1 stored at (i, o) into a freshly allocated array; no store into a parameter", 3)
    run.rule("R-bind", "every run() hands sc['err_fn'], sc['err_xi'], sc['err_phi'] of its run parameters to the tolerance parameter of the same name", 6)
    sc_fi = prog.func(FN)
    pos_ = astq.params_of(sc_fi.node)[0]
    want_ = {pos_[6]: {"self.run_params.sc['err_fn']"}, pos_[7]: {"self.run_params.sc['err_xi']"}, pos_[8]: {"self.run_params.sc['err_phi']"}}
    nb_ = 0
    for ci, m in prog.class_methods("pyoma2.algorithms", "run"):
        for c, p_, ok, detail in astq.handover(prog, m, sc_fi.qual, want_):
            nb_ += 1
            if ok is None:
                # not readable off the call as written (spread of a computed dictionary ...): the dependence analysis of the whole run()
                tv = _sc_bind_by_dependence(prog).get((m.qual, p_))
                if tv is not None and tv[0] is not None:
                    ok, detail = tv
            run.ob("R-bind", m.qual, f"sc -> SC_apply.{p_}", ok, detail, witness=detail[:90], file=rel(prog.mods[m.mod].path), node=c, config=p_)
    if not nb_:
        run.ob("R-bind", "pyoma2.algorithms", "callers of SC_apply", None, "no run() method calling SC_apply found")
    first_order(prog, run)
    run.rule("R-labels", "readers of Lab reachable from the algorithm classes compare it only with values SC_apply writes", 4)
    run.rule("R-final", "every run() labels the pole tables it stores: the tables handed to SC_apply carry all the criteria of the stored ones", 12)
    from . import C09
    C09.labels_final(prog, run, "R-final")
    fi = prog.func(FN)
    f = rel(prog.mods[fi.mod].path)
    pos, _, _, _ = astq.params_of(fi.node)
    if len(pos) < 9:
        raise AnalysisError("anchor lost: SC_apply signature changed (expected 3 tables, ordmin, ordmax, step, 3 tolerances)")
    tF, tX, tP = pos[0], pos[1], pos[2]
    p_ordmin, p_ordmax, p_step = pos[3], pos[4], pos[5]
    tol = {pos[6]: ("frequency", tF), pos[7]: ("damping", tX), pos[8]: ("shape", tP)}
    tables = {tF, tX, tP}

    def ob(rule, role, ok, detail, witness="", node=None):
        run.ob(rule, fi.qual, role, ok, detail, witness=witness or detail[:90], file=f, node=node)

    # ---- the conjunction: first on the index-level model of the function (sa/lamdom.py: the scalar conditions under which label 1 is
    # stored, whatever mixture of loops, masks and helpers computes them), else on the `if` statement as written
    lam = _lam_conditions(prog, fi, tF, tX, tP, set(tol))
    if lam is not None:
        parts, ifn, okconj, shown = lam["parts"], lam["node"], lam["okconj"], lam["shown"]
        ob("R-neighbour", "three tests joined by `and`", okconj, f"`{shown}`", shown[:80], ifn)
        lowered = True
    else:
        lowered = False
        tests = []
        for n in ast.walk(fi.node):
            if isinstance(n, ast.If):
                names = {x.id for x in ast.walk(n.test) if isinstance(x, ast.Name)}
                exp_names = {x.id for x in ast.walk(astq.expr_at(fi, n, n.test)) if isinstance(x, ast.Name)}
                if set(tol) & (names | exp_names):
                    tests.append(n)
        if not tests:
            # the tolerances may be compared elsewhere (handed to a helper, used in a vectorised mask): only their complete absence from
            # the function is a definite defect
            used = {x.id for x in ast.walk(fi.node) if isinstance(x, ast.Name) and isinstance(x.ctx, ast.Load)} & set(tol)
            ob("R-neighbour", "tolerance test", False if not used else None,
               "no test against err_fn/err_xi/err_phi found in SC_apply" + ("" if not used else f" itself; {sorted(used)} are used in a form that was not recognised"), "missing")
            return
        ifn = tests[0]
        test = ifn.test
        if not isinstance(test, ast.BoolOp):
            # the conjunction may sit in a helper predicate: decide on the inlined test
            x = astq.expr_at(fi, ifn, test)
            while isinstance(x, ast.Call) and isinstance(x.func, ast.Name) and x.func.id == "bool" and len(x.args) == 1:
                x = x.args[0]
            if isinstance(x, ast.BoolOp):
                test = x
        conj = isinstance(test, ast.BoolOp) and isinstance(test.op, ast.And)
        parts = test.values if isinstance(test, ast.BoolOp) else [test]
        okconj = conj and len(parts) == 3
        if not okconj and not isinstance(test, (ast.BoolOp, ast.Compare)):
            okconj = None        # not a boolean combination of comparisons at all: form not recognised
        if not okconj and okconj is not None:
            # tolerances that are tested elsewhere (element-wise masks, earlier guards) take part in the decision in a way this rule does not
            # follow: the conjunction cannot be judged from this `if` alone
            in_test = {x.id for x in ast.walk(test) if isinstance(x, ast.Name)} & set(tol)
            elsewhere = set()
            for n in ast.walk(fi.node):
                if isinstance(n, ast.Compare) and not any(n is x for x in ast.walk(ifn.test)):
                    elsewhere |= {x.id for x in ast.walk(n) if isinstance(x, ast.Name)} & set(tol)
            if elsewhere - in_test:
                okconj = None
        ob("R-neighbour", "three tests joined by `and`", okconj, f"`{astq.src(test, 80)}`", astq.src(test, 80), ifn)
    idx_exprs = {}
    curcols = {}
    for part in parts:
        x = part if lowered else astq.expr_at(fi, ifn, part)
        if not (isinstance(x, ast.Compare) and len(x.ops) == 1):
            ob("R-neighbour", "test form", None, f"`{astq.src(part)}` is not a simple comparison", node=ifn)
            continue
        l, r, op = x.left, x.comparators[0], x.ops[0]
        if isinstance(l, ast.Name) and l.id in tol and not (isinstance(r, ast.Name) and r.id in tol):
            l, r = r, l
            op = {ast.Gt: ast.Lt(), ast.GtE: ast.LtE(), ast.Lt: ast.Gt(), ast.LtE: ast.GtE()}.get(type(op), op)
        if not (isinstance(r, ast.Name) and r.id in tol):
            ob("R-neighbour", "test form", None, f"`{astq.src(part)}`: no tolerance parameter on either side", node=ifn)
            continue
        qty, table = tol[r.id]
        ob("R-neighbour", f"{qty}: strict `<` against {r.id}", isinstance(op, ast.Lt), f"operator {type(op).__name__}", type(op).__name__, ifn)
        # which table does the left side read?
        acc = []
        for sub in _walk_values(l):
            a = astq.access_path(sub, tables) if isinstance(sub, (ast.Subscript, ast.Call)) else None
            if a is not None and (a.col is not None):
                acc.append(a)
        used = {a.table for a in acc}
        ob("R-neighbour", f"{qty}: tolerance {r.id} is compared with the {qty} difference", used == {table} or (qty == "shape" and table in used and used <= {table, tF}),
           f"left side reads {sorted(used)}", ",".join(sorted(used)), ifn)
        own = [a for a in acc if a.table == table and a.row is not None]
        cur = [a for a in own if _is_loop_row(a.row)]
        prev = [a for a in own if not _is_loop_row(a.row)]
        if not cur or not prev:
            ob("R-neighbour", f"{qty}: current vs matched previous pole", None, f"could not separate current/previous accesses in `{astq.src(l, 90)}`", node=ifn)
            continue
        se = symidx.SymEval(prog, fi)
        _pair_loop_env(prog, fi, se, ifn)
        ccur, cprev = se.ev(cur[0].col), se.ev(prev[0].col)
        d = (cprev - ccur) if (ccur is not None and cprev is not None) else None
        # decided only when the difference is a NUMBER: two column variables whose relation was not read are not "another column"
        okd = None if d is None or not d.is_const() else d == P.c(-1)
        ob("R-neighbour", f"{qty}: compared with the previous order (column o-1)", okd,
           f"current column {astq.src(cur[0].col, 40)}, compared column {astq.src(prev[0].col, 40)} (difference {d!r})", repr(d), ifn)
        curcols[qty] = cur[0].col
        idx_exprs[qty] = prev[0].row
        # form of the quantity
        if qty in ("frequency", "damping"):
            okform = isinstance(l, ast.BinOp) and isinstance(l.op, ast.Div) and astq.strip_abs(prog, fi, l.left) is not None
            denom_ok = okform and (astq.access_path(l.right, tables) is not None and astq.access_path(l.right, tables).key() == cur[0].key())
            ob("R-neighbour", f"{qty}: relative difference |x_i - x_prev| / x_i", bool(okform and denom_ok), f"`{astq.src(part)}` = `{astq.src(l, 100)}`", astq.src(l, 60), ifn)
        else:
            macs = [c for c in ast.walk(l) if isinstance(c, ast.Call) and astq.callee_name(prog, fi, c).endswith(".MAC")]
            okform = isinstance(l, ast.BinOp) and isinstance(l.op, ast.Sub) and isinstance(l.left, ast.Constant) and l.left.value == 1 and len(macs) == 1
            ob("R-neighbour", "shape: 1 - MAC(current, matched previous)", okform, f"`{astq.src(l, 100)}`", astq.src(l, 60), ifn)
    # one matched index for all three, and it is the nearest in frequency
    if len(idx_exprs) == 3:
        dumps = {astq.dump(v) for v in idx_exprs.values()}
        ob("R-neighbour", "the same matched index is used for frequency, damping and shape", len(dumps) == 1,
           "one index expression" if len(dumps) == 1 else "; ".join(f"{k}: {astq.src(v, 50)}" for k, v in idx_exprs.items()), str(len(dumps)), ifn)
        ix = idx_exprs["frequency"]
        arr = astq.argreduce(prog, fi, ix, {"numpy.nanargmin"})
        arr_any = astq.argreduce(prog, fi, ix, astq.ARGMIN | astq.ARGMAX)
        inner = astq.strip_abs(prog, fi, arr) if arr is not None else None
        okm = False
        why = f"`{astq.src(ix, 100)}`"
        if inner is not None and isinstance(inner, ast.BinOp) and isinstance(inner.op, ast.Sub):
            a1, a2 = astq.access_path(inner.left, tables), astq.access_path(inner.right, tables)
            if a1 is not None and a2 is not None:
                both = [a1, a2]
                prevc = [a for a in both if a.row is None]
                curc = [a for a in both if a.row is not None]
                if len(prevc) == 1 and len(curc) == 1 and prevc[0].table == tF and curc[0].table == tF:
                    se = symidx.SymEval(prog, fi)
                    d = se.ev(prevc[0].col) - se.ev(curc[0].col) if se.ev(prevc[0].col) is not None and se.ev(curc[0].col) is not None else None
                    se_ = symidx.SymEval(prog, fi)
                    _pair_loop_env(prog, fi, se_, ifn)
                    d = se_.ev(prevc[0].col) - se_.ev(curc[0].col) if se_.ev(prevc[0].col) is not None and se_.ev(curc[0].col) is not None else None
                    okm = (d == P.c(-1) and _is_loop_row(curc[0].row)) if (d is not None and d.is_const()) else None
                    why += f" -> nearest in {prevc[0].table}[:, o{d!r}] to {curc[0]!r}"
        if arr is None and arr_any is not None:
            why += " (not a NaN-aware arg-min)"
        ob("R-neighbour", "match = nanargmin |f_prev(all poles of order o-1) - f_i|", okm, why, astq.src(ix, 70), ifn)
    # ---- loop range, column formula, first column skipped
    outer = None
    loops_ = [n for n in ast.walk(fi.node) if isinstance(n, ast.For) and astq._contains(n, ifn)]
    # the loop over the orders is the OUTERMOST loop around the comparison (ast.walk is breadth first: the first one found)
    if loops_ and symidx.is_range(prog, fi, loops_[0].iter) is not None:
        outer = loops_[0]
    if outer is None and not lowered and loops_:
        ob("R-neighbour", "order loop", None, f"the orders are iterated by `for {astq.src(loops_[0].target, 20)} in {astq.src(loops_[0].iter, 50)}`, not by a range(): which orders are "
           f"inspected, and that the first one is skipped, is not read off it")
    elif outer is None:
        ob("R-neighbour", "order loop", None, "loop over orders not found")
    else:
        se = symidx.SymEval(prog, fi)
        ra = symidx.range_args(se, symidx.is_range(prog, fi, outer.iter))
        ok = ra is not None and ra[0] == P.s(p_ordmin) and ra[1] == P.s(p_ordmax) + 1 and ra[2] == P.s(p_step)
        ob("R-neighbour", "orders run over range(ordmin, ordmax+1, step)", ok, f"range({', '.join(repr(x) for x in ra) if ra else '?'})", repr(ra), outer)
        if curcols and isinstance(outer.target, ast.Name):
            cexpr = next(iter(curcols.values())) if lowered else astq.expr_at(fi, ifn, next(iter(curcols.values())))
            v = se.ev(cexpr)
            expc = P.s(outer.target.id) * P({((p_step, -1),): 1})
            okc = v is not None and (v == expc or repr(v) == f"floor({outer.target.id}/{p_step})" or "floor" in repr(v))
            ob("R-neighbour", "column index = order / step", okc, f"column = {astq.src(cexpr, 40)} = {v!r}", repr(v), outer)
            skip = False
            if lowered:
                # the store is reached only when `column == 0` is false
                for c_, pol_ in lam["path"]:
                    if not pol_ and isinstance(c_, ast.Compare) and len(c_.ops) == 1 and isinstance(c_.ops[0], ast.Eq):
                        a, b = c_.left, c_.comparators[0]
                        if (isinstance(b, ast.Constant) and b.value == 0 and astq.dump(a) == astq.dump(cexpr)) or (isinstance(a, ast.Constant) and a.value == 0 and astq.dump(b) == astq.dump(cexpr)):
                            skip = True
                    if pol_ and isinstance(c_, ast.Compare) and len(c_.ops) == 1 and isinstance(c_.ops[0], (ast.Gt, ast.NotEq)) and isinstance(c_.comparators[0], ast.Constant) \
                            and c_.comparators[0].value == 0 and astq.dump(c_.left) == astq.dump(cexpr):
                        skip = True
            for s in ([] if lowered else outer.body):
                if isinstance(s, ast.If) and any(isinstance(x, ast.Continue) for x in s.body):
                    t = astq.expr_at(fi, s, s.test)
                    if isinstance(t, ast.Compare) and len(t.ops) == 1 and isinstance(t.ops[0], ast.Eq):
                        a, b = t.left, t.comparators[0]
                        if isinstance(b, ast.Constant) and b.value == 0 and astq.dump(a) == astq.dump(cexpr):
                            skip = True
                        if isinstance(a, ast.Constant) and a.value == 0 and astq.dump(b) == astq.dump(cexpr):
                            skip = True
            ob("R-neighbour", "first column (no previous order) is skipped", skip, "`if o == 0: continue` present" if skip else "no guard skipping column 0: column -1 (the last order) would be used as previous order", "no-skip", outer)
    # ---- stores / purity
    rets = [n for n in ast.walk(fi.node) if isinstance(n, ast.Return) and n.value is not None]
    lab = rets[-1].value.id if rets and isinstance(rets[-1].value, ast.Name) else None
    stores = []
    for n in ast.walk(fi.node):
        if isinstance(n, (ast.Assign, ast.AugAssign)):
            tg = n.targets if isinstance(n, ast.Assign) else [n.target]
            for t in tg:
                if isinstance(t, ast.Subscript):
                    stores.append((n, t))
    bad = [astq.src(t) for n, t in stores if not (isinstance(t.value, ast.Name) and t.value.id == lab)]
    ob("R-pure", "no store into a parameter or another object", not bad, "only the label array is written" if not bad else f"stores into {bad}", ";".join(bad))
    if lab:
        init = astq.expand(fi, ast.Name(id=lab, ctx=ast.Load()))
        fresh = isinstance(init, ast.Call) and astq.callee_name(prog, fi, init) in ("numpy.zeros", "numpy.zeros_like", "numpy.full")
        ob("R-pure", "label array freshly allocated with zeros", fresh, f"`{astq.src(init, 60)}`", astq.src(init, 60))
        vals = []
        okpos = True
        for n, t in stores:
            if isinstance(t.value, ast.Name) and t.value.id == lab:
                v = n.value
                vals.append(v.value if isinstance(v, ast.Constant) else astq.src(v))
                el = astq.index_elts(t)
                if len(el) == 2 and curcols and not lowered:
                    c = astq.expr_at(fi, n, el[1])
                    if astq.dump(c) != astq.dump(astq.expr_at(fi, ifn, next(iter(curcols.values())))) or not _is_loop_row(el[0]):
                        okpos = False
        if lowered and curcols:
            for st_ in lam["stores"]:
                ix = st_["index"]
                if len(ix) != 2 or any(not hasattr(x, "body") for x in ix) or not _is_loop_row(ix[0].body) or astq.dump(ix[1].body) != astq.dump(next(iter(curcols.values()))):
                    okpos = False
        ob("R-pure", "labels written are the constants 0/1 at (pole i, order o)", set(vals) <= {0, 1} and 1 in vals and okpos, f"values {vals}", str(vals))
        one_in_then = bool(lam["parts"]) if lowered else any(isinstance(n.value, ast.Constant) and n.value.value == 1 and any(n is x for b in ifn.body for x in ast.walk(b)) for n, t in stores)
        ob("R-neighbour", "label 1 is written in the success branch of the conjunction", one_in_then, "store of 1 inside the `if` body" if one_in_then else "label 1 not written under the test", "misplaced")
    labels_readers(prog, run)


def first_order(prog, run):
    """'not the first order': what is skipped for having no previous order is column 0 of the tables - not the first ITERATION of
    the loop, which starts at ordmin.  A store of labels guarded by a variable that is carried from one iteration to the next
    (`prev is not None`, a first-time flag) skips order ordmin whenever ordmin > 0."""
    run.rule("R-first-order", "in SC_apply the labelling of an order is skipped only for column 0 (a test on the order index), not for the first iteration of the loop "
             "over range(ordmin, ..) (a test on a value carried over from the previous iteration)", 1)
    fi = prog.raw.functions.get("pyoma2.functions.gen.SC_apply")
    if fi is None:
        return
    f = rel(prog.mods[fi.mod].path)
    rets = {x.id for r in ast.walk(fi.node) if isinstance(r, ast.Return) and r.value is not None for x in ast.walk(r.value) if isinstance(x, ast.Name)}
    n = 0
    for loop in ast.walk(fi.node):
        if not (isinstance(loop, ast.For) and isinstance(loop.iter, ast.Call) and astq.src(loop.iter.func).split(".")[-1] in ("range", "trange", "arange")):
            continue
        start = loop.iter.args[0] if len(loop.iter.args) >= 2 else None
        if start is None or isinstance(start, ast.Constant):
            continue            # a loop from 0: its first iteration IS column 0
        stores = [s_ for s_ in ast.walk(loop) if isinstance(s_, ast.Assign) and any(isinstance(t_, ast.Subscript) and isinstance(t_.value, ast.Name) and t_.value.id in rets for t_ in s_.targets)]
        if not stores:
            continue
        # names that carry a value from one iteration to the next: bound before the loop (to None / a flag) and re-bound inside it
        before = {t_.id: a_.value for a_ in ast.walk(fi.node) if isinstance(a_, ast.Assign) and a_.lineno < loop.lineno for t_ in a_.targets if isinstance(t_, ast.Name)}
        inside = {t_.id for a_ in ast.walk(loop) if isinstance(a_, ast.Assign) for t_ in a_.targets if isinstance(t_, ast.Name)}
        carried = {k for k, v in before.items() if k in inside and isinstance(v, ast.Constant) and (v.value is None or isinstance(v.value, bool))}
        pm = astq.parent_map(loop)
        lv = {x.id for x in ast.walk(loop.target) if isinstance(x, ast.Name)}
        idx_names = lv | {t_.id for a_ in ast.walk(loop) if isinstance(a_, ast.Assign) for t_ in a_.targets if isinstance(t_, ast.Name)
                          and any(isinstance(y, ast.Name) and y.id in lv for y in ast.walk(a_.value))}
        for st in stores:
            n += 1
            guards = []
            cur = st
            while cur in pm and pm[cur] is not loop:
                cur = pm[cur]
                if isinstance(cur, ast.If):
                    guards.append(cur.test)
            # early `continue` guards before the store count as well
            for s_ in loop.body:
                if isinstance(s_, ast.If) and any(isinstance(y, ast.Continue) for y in s_.body) and s_.lineno < st.lineno:
                    guards.append(s_.test)
            on_state = [g for g in guards if any(isinstance(y, ast.Name) and y.id in carried for y in ast.walk(g)) and not any(isinstance(y, ast.Name) and y.id in idx_names for y in ast.walk(g))]
            on_index = [g for g in guards if any(isinstance(y, ast.Name) and y.id in idx_names for y in ast.walk(g))]
            if on_state:
                run.ob("R-first-order", fi.qual, "skipped order = column 0", False,
                       f"`{astq.src(st, 50)}` is carried out only when `{astq.src(on_state[0], 40)}` - a value carried over from the previous iteration: the first iteration of "
                       f"`for {astq.src(loop.target)} in {astq.src(loop.iter, 40)}` is order {astq.src(start)}, which has a previous order whenever {astq.src(start)} > 0 and is left unlabelled",
                       witness=astq.src(on_state[0], 40), file=f, node=st)
            else:
                run.ob("R-first-order", fi.qual, "skipped order = column 0", True if on_index else None,
                       f"`{astq.src(st, 50)}` guarded by `{astq.src(on_index[0], 40)}`" if on_index else f"`{astq.src(st, 50)}`: no guard on the order index found around it", file=f, node=st)
    if not n:
        # the orders iterated as a prepared list of (previous, current) columns: what the list leaves out must be column 0 - a filter on the
        # VALUE of the column (`o > 0`) - and not the first ELEMENT of the list of columns (`cols[1:]`, zip(cols[:-1], cols[1:])), which is
        # column int(ordmin / step)
        rawp = prog.raw
        for loop in ast.walk(fi.node):
            if not (isinstance(loop, ast.For) and isinstance(loop.target, (ast.Tuple, ast.Name))):
                continue
            if isinstance(loop.iter, ast.Call) and astq.src(loop.iter.func).split(".")[-1] in ("range", "trange", "arange", "ndindex", "enumerate"):
                continue
            stores = [s_ for s_ in ast.walk(loop) if isinstance(s_, ast.Assign) and any(isinstance(t_, ast.Subscript) and isinstance(t_.value, ast.Name) and t_.value.id in rets for t_ in s_.targets)]
            if not stores:
                continue
            if isinstance(loop.target, ast.Name):
                # `for o in cols[1:]` / `for o in cols[cols > 0]`
                e_ = loop.iter
                v1, w1 = None, f"columns `{astq.src(e_, 40)}`: not read"
                if isinstance(e_, ast.Subscript) and isinstance(e_.value, ast.Name):
                    sl = e_.slice
                    if isinstance(sl, ast.Slice) and isinstance(sl.lower, ast.Constant) and sl.lower.value == 1 and sl.upper is None:
                        d2 = astq.unique_def(astq.assignments(fi), e_.value.id)
                        zero = d2 is not None and ("range(0," in astq.src(d2, 300).replace(" ", ""))
                        if not zero:
                            v1, w1 = False, (f"`for {loop.target.id} in {astq.src(e_, 30)}` leaves out the first ELEMENT of `{e_.value.id}`: that is column int(ordmin / step), which has a "
                                             f"previous order whenever ordmin > 0")
                    elif isinstance(sl, ast.Compare) and isinstance(sl.left, ast.Name) and sl.left.id == e_.value.id and len(sl.ops) == 1 and isinstance(sl.comparators[0], ast.Constant) \
                            and ((isinstance(sl.ops[0], (ast.Gt, ast.NotEq)) and sl.comparators[0].value == 0) or (isinstance(sl.ops[0], ast.GtE) and sl.comparators[0].value == 1)):
                        v1, w1 = True, f"`{astq.src(e_, 40)}`: column 0 is left out by its value"
                n += 1
                run.ob("R-first-order", fi.qual, "skipped order = column 0", v1, w1, witness=w1[:80], file=f, node=loop)
                continue
            it, owner = loop.iter, fi
            for _ in range(3):
                if isinstance(it, ast.Name):
                    d_ = astq.unique_def(astq.assignments(owner), it.id)
                    if d_ is None:
                        break
                    it = d_
                elif isinstance(it, ast.Call) and astq.src(it.func) == "list" and len(it.args) == 1:
                    it = it.args[0]
                elif isinstance(it, ast.Call) and not isinstance(it.func, ast.Attribute) and astq.src(it.func) not in ("zip", "enumerate"):
                    try:
                        r = rawp.resolve_call(owner, it)
                    except Exception:
                        r = None
                    rr = [x for x in ast.walk(r.node) if isinstance(x, ast.Return) and x.value is not None] if isinstance(getattr(r, "node", None), ast.FunctionDef) else []
                    if len(rr) != 1:
                        break
                    owner, it = r, rr[0].value
                else:
                    break
            verdict, why = None, f"pairs `{astq.src(it, 60)}`: not read"

            def drops_first(e_):
                return isinstance(e_, ast.Subscript) and isinstance(e_.slice, ast.Slice) and isinstance(e_.slice.lower, ast.Constant) and e_.slice.lower.value == 1 and e_.slice.upper is None

            def starts_at_zero(seq):
                d2 = astq.unique_def(astq.assignments(owner), seq.id) if isinstance(seq, ast.Name) else seq
                txt = astq.src(d2, 300).replace(" ", "") if d2 is not None else ""
                return "range(0," in txt or "arange(0," in txt
            if isinstance(it, ast.ListComp) and len(it.generators) == 1 and isinstance(it.generators[0].target, ast.Name) and isinstance(it.elt, ast.Tuple):
                g_ = it.generators[0]
                v_ = g_.target.id
                cur_is_v = isinstance(it.elt.elts[-1], ast.Name) and it.elt.elts[-1].id == v_
                val_filter = any(isinstance(c_, ast.Compare) and isinstance(c_.left, ast.Name) and c_.left.id == v_ and len(c_.ops) == 1 and isinstance(c_.comparators[0], ast.Constant)
                                 and ((isinstance(c_.ops[0], (ast.Gt, ast.NotEq)) and c_.comparators[0].value == 0) or (isinstance(c_.ops[0], ast.GtE) and c_.comparators[0].value == 1)) for c_ in g_.ifs)
                if cur_is_v and val_filter:
                    verdict, why = True, f"`{astq.src(it, 60)}`: column 0 is left out by its value"
                elif drops_first(g_.iter) and not starts_at_zero(g_.iter.value):
                    verdict, why = False, f"`{astq.src(it, 60)}` leaves out the first ELEMENT of `{astq.src(g_.iter.value, 20)}`: that is column int(ordmin / step), which has a previous order whenever ordmin > 0"
            elif isinstance(it, ast.Call) and astq.src(it.func) == "zip" and len(it.args) == 2 and drops_first(it.args[1]):
                seq = it.args[1].value
                if not starts_at_zero(seq):
                    verdict, why = False, (f"`{astq.src(it, 60)}`: the current columns are `{astq.src(it.args[1], 20)}` - the first ELEMENT of `{astq.src(seq, 20)}` is left out, that is column "
                                           f"int(ordmin / step), which has a previous order whenever ordmin > 0")
            n += 1
            run.ob("R-first-order", fi.qual, "skipped order = column 0", verdict, why, witness=why[:80], file=f, node=loop)
    if not n:
        run.ob("R-first-order", fi.qual, "skipped order = column 0", None, "no store of labels inside a loop over range(ordmin, ..) found", file=f)


def _lam_conditions(prog, fi, tF, tX, tP, tolnames):
    """the scalar conditions under which the constant 1 is stored into the label array, from the index-level interpretation of the
    function (None if that does not reach a store of 1 with every condition evaluated)"""
    from .. import lamdom
    pos, kwo, _, _ = astq.params_of(fi.node)
    ranks = {p_: 0 for p_ in pos + kwo}
    ranks.update({tF: 2, tX: 2, tP: 3})
    try:
        it = lamdom.Interp(prog, fi, ranks=ranks).run()
    except Exception:
        return None
    def const_of(st):
        v = st["value"]
        return v.body.value if isinstance(v, lamdom.Lam) and v.scalar and isinstance(v.body, ast.Constant) else None
    ones = [st for st in it.stores if const_of(st) == 1]
    if len(ones) != 1:
        return None
    one = ones[0]
    lab = one["array"]
    stores = [st for st in it.stores if st["array"] == lab]
    atoms = []        # (ast, positive)
    def flat(c, pol):
        while isinstance(c, ast.Call) and isinstance(c.func, ast.Name) and c.func.id == "bool" and len(c.args) == 1 and not c.keywords:
            c = c.args[0]           # bool(<test>) is the test
        if pol and isinstance(c, ast.BoolOp) and isinstance(c.op, ast.And):
            for v in c.values:
                flat(v, True)
        elif not pol and isinstance(c, ast.BoolOp) and isinstance(c.op, ast.Or):
            for v in c.values:
                flat(v, False)
        elif isinstance(c, ast.UnaryOp) and isinstance(c.op, ast.Not):
            flat(c.operand, not pol)
        else:
            atoms.append((c, pol))
    for c, pol in one["path"]:
        flat(c, pol)
    mentions = lambda c: bool({x.id for x in ast.walk(c) if isinstance(x, ast.Name)} & tolnames)
    tol_atoms = [(c, pol) for c, pol in atoms if mentions(c)]
    if not tol_atoms:
        return None
    # every name inside the tolerance tests must be a table, a tolerance or an index: otherwise the lowering is incomplete
    known = set(pos + kwo)
    for c, pol in tol_atoms:
        for sub in ast.walk(c):
            if isinstance(sub, ast.Subscript) and isinstance(sub.value, ast.Name) and sub.value.id not in known:
                return None
    good = [c for c, pol in tol_atoms if pol and isinstance(c, ast.Compare)]
    okconj = len(tol_atoms) == 3 and len(good) == 3
    shown = " and ".join(("" if pol else "not ") + astq.src(c, 60) for c, pol in tol_atoms)
    return {"parts": [c for c, pol in tol_atoms], "node": one["node"], "okconj": okconj, "shown": shown, "path": one["path"], "stores": stores}


def _walk_values(e):
    """sub-expressions of e that contribute VALUES (does not descend into subscript index expressions)"""
    yield e
    if isinstance(e, ast.Subscript):
        yield from _walk_values(e.value)
        return
    for c in ast.iter_child_nodes(e):
        if isinstance(c, ast.expr):
            yield from _walk_values(c)


def _is_loop_row(e):
    return isinstance(e, ast.Name)


WRITER_VALUES = {0, 1}
ENTRY_CLASSES = ["algorithms.ssi.SSIdat", "algorithms.ssi.SSIcov", "algorithms.ssi.SSIdat_MS", "algorithms.ssi.SSIcov_MS",
                 "algorithms.plscf.pLSCF", "algorithms.plscf.pLSCF_MS"]


def labels_readers(prog, run):
    """R-labels: in functions reachable from the algorithm classes, comparisons `Lab == k` use k in {0,1}"""
    roots = []
    for cq in ENTRY_CLASSES:
        ci = prog.cls(cq)
        for c in prog.mro(ci):
            for m in c.methods.values():
                roots.append(m.qual)
    roots.append("pyoma2.support.sel_from_plot.SelFromPlot.__init__")
    for m in prog.cls("support.sel_from_plot.SelFromPlot").methods.values():
        roots.append(m.qual)
    reach = prog.reachable(roots)
    n = 0
    for q in sorted(reach):
        fi = prog.functions[q]
        f = rel(prog.mods[fi.mod].path)
        pos, kwo, _, _ = astq.params_of(fi.node)
        for c in ast.walk(fi.node):
            if isinstance(c, ast.Compare) and len(c.ops) == 1 and isinstance(c.ops[0], (ast.Eq, ast.NotEq)):
                l, r = c.left, c.comparators[0]
                for a, b in ((l, r), (r, l)):
                    if isinstance(a, ast.Name) and a.id in ("Lab",) + tuple(p for p in pos if p.lower() == "lab") and isinstance(b, ast.Constant) and isinstance(b.value, int):
                        n += 1
                        ok = b.value in WRITER_VALUES
                        run.ob("R-labels", fi.qual, f"reads label {b.value}", ok,
                               f"`{astq.src(c)}`" + ("" if ok else f": SC_apply only ever writes {sorted(WRITER_VALUES)}, this selection is always empty"),
                               witness=f"reader constant {b.value}", file=f, node=c)
    if n == 0:
        run.ob("R-labels", "pyoma2", "readers", None, "no reader of the label table found in the reachable functions")


M = "functions.gen"
F = "SC_apply"
MUTANTS = [
    ("C10-m01 frequency compared two orders back", M, F, "f_n1 = Fn[:, o - 1].reshape(-1, 1)", "f_n1 = Fn[:, o - 2].reshape(-1, 1)"),
    ("C10-m02 shape compared with same order", M, F, "phi_n1 = Phi[:, o - 1, :]", "phi_n1 = Phi[:, o, :]"),
    ("C10-m03 damping index recomputed", M, F, "xi_n1[idx]", "xi_n1[np.nanargmin(np.abs(xi_n1 - xi_n[i]))]"),
    ("C10-m04 or instead of and", M, F, "cond1 < err_fn and cond2 < err_xi and (cond3 < err_phi)", "cond1 < err_fn or cond2 < err_xi or cond3 < err_phi"),
    ("C10-m05 tolerances swapped", M, F, "cond1 < err_fn and cond2 < err_xi and (cond3 < err_phi)", "cond1 < err_xi and cond2 < err_fn and (cond3 < err_phi)"),
    ("C10-m06 last order excluded", M, F, "range(ordmin, ordmax + 1, step)", "range(ordmin, ordmax, step)"),
    ("C10-m07 non-strict", M, F, "cond1 < err_fn and cond2 < err_xi and (cond3 < err_phi)", "cond1 <= err_fn and cond2 < err_xi and (cond3 < err_phi)"),
    ("C10-m08 first column not skipped", M, F, "if o == 0:\n    continue", "pass"),
    ("C10-m09 match by damping", M, F, "idx = np.nanargmin(np.abs(f_n1 - f_n[i]))", "idx = np.nanargmin(np.abs(xi_n1 - xi_n[i]))"),
    ("C10-m10 absolute frequency difference", M, F, "cond1 = np.abs(f_n[i] - f_n1[idx]) / f_n[i]", "cond1 = np.abs(f_n[i] - f_n1[idx])"),
    ("C10-m11 MAC against own order", M, F, "MAC(phi_n[i, :], phi_n1[idx, :])", "MAC(phi_n[i, :], phi_n[idx, :])"),
    ("C10-m12 label transposed", M, F, "Lab[i, o] = 1", "Lab[o, i] = 1"),
    ("C10-m13 label 2", M, F, "Lab[i, o] = 1", "Lab[i, o] = 2"),
    ("C10-m14 argmin not nan-aware", M, F, "idx = np.nanargmin(np.abs(f_n1 - f_n[i]))", "idx = np.argmin(np.abs(f_n1 - f_n[i]))"),
    ("C10-m15 writes into its argument", M, F, "Lab[i, o] = 0", "Lab[i, o] = 0\nFn[i, o] = Fn[i, o]"),
    ("C10-m16 reader expects label 2", "functions.plot", "stab_plot", "Lab == 1", "Lab == 2"),
    ("C10-m17 MAC dropped from the shape test", M, F, "cond3 = 1 - MAC(phi_n[i, :], phi_n1[idx, :])", "cond3 = MAC(phi_n[i, :], phi_n1[idx, :])"),
]
REWRITES = [
    ("rename:C10-r01", M, F, "f_n1", "prev_freq"),
    ("rename:C10-r02", M, F, "idx", "match"),
    ("C10-r03 builtin abs", M, F, "np.abs(f_n1 - f_n[i])", "abs(f_n1 - f_n[i])"),
    ("C10-r04 floor division", M, F, "o = int(oo / step)", "o = oo // step"),
    ("C10-r05 temp for matched value", M, F, "cond1 = np.abs(f_n[i] - f_n1[idx]) / f_n[i]", "f_match = f_n1[idx]\ncond1 = np.abs(f_n[i] - f_match) / f_n[i]"),
    ("C10-r06 no reshape", M, F, "xi_n = Xi[:, o].reshape(-1, 1)", "xi_n = Xi[:, o]"),
    ("C10-r07 flipped comparison", M, F, "cond1 < err_fn and cond2 < err_xi and (cond3 < err_phi)", "err_fn > cond1 and cond2 < err_xi and (cond3 < err_phi)"),
]
