"""C14 - preprocessing composes, metadata stays truthful, rollback restores the start.

Decided (structural): R-inv - representation invariant I of SingleSetup (dt*fs = 1, T = Ndat*dt, Ndat/Nch = extents of the stored array)
and of MultiSetup_PreGER (dt*fs = 1, Ts[i] = Ndats[i]*dt, Ndats[i] = extent of datasets[i], data and datasets carry the same processing
history) is established by __init__ and preserved by every mutator (decimate, detrend, filter, rollback) from an ARBITRARY I-state,
so it holds after every call sequence; post-conditions: decimate => fs/q, sample count/q; detrend/filter => sampling attributes
untouched; rollback => initial values, and the live data is not the stored initial copy.  The mutators are interpreted in the
degree domain with symbols s (time unit), q (decimation factor), n, c (extents), p (one factor per processing step), k (one factor per
deepcopy): equal degrees are a necessary condition of equal values.  R-kwargs - a keyword forwarded explicitly is popped from
**kwargs; axis defaults to 0 before it reaches scipy.  R-no-inplace - no store / augmented assignment / in-place call on a value that
may alias the user's arrays, the current data or the initial copy; the initial copies are only ever assigned deep copies;
add_algorithms binds the current data and fs.  Not decided: equality with the scipy operations (one-line wrappers).
"""
import ast

from ..absint import (Interp, CTX, Cst, Lst, Dct, D, Obj, Tup, Deg, Arr, Any_, Top, Unk, SCAL, num, mul, inv, elem, withrank, mono)
from .. import hd, astq
from ..program import rel, FuncInfo, AnalysisError

SINGLE = "setup.single.SingleSetup"
PREGER = "setup.multi.MultiSetup_PreGER"
BASE = "setup.base.BaseSetup"


# ----------------------------------------------------------------------------- property-specific models of the wrapped routines
def _axis(kw, default):
    a = kw.get("axis")
    if a is None:
        return default
    if isinstance(a, Cst) and isinstance(a.v, int):
        return a.v
    return None


EVSEEN = set()
AXES = []      # (scipy routine, axis value that reached it, location) for every abstract call made during the mutator runs


KWSEEN = []    # (scipy routine, {keyword: value that reached it}, keywords the caller of the mutator gave, location)
USER_KW = [()]
# defaults of the wrapped scipy routines (trusted base): a keyword the user did not give must reach scipy with this value or not at all
SCIPY_DEFAULTS = {"scipy.signal.decimate": {"n": None, "ftype": "iir", "zero_phase": True},
                  "scipy.signal.detrend": {"type": "linear", "bp": 0, "overwrite_data": False},
                  "scipy.signal.sosfiltfilt": {"padtype": "odd", "padlen": None}}


def _record_axis(name, kw, posarg=None):
    AXES.append((name, kw.get("axis", posarg), CTX.where()))
    KWSEEN.append((name, dict(kw), tuple(USER_KW[0]), CTX.where()))


def m_decimate(args, kw, node):
    _record_axis("scipy.signal.decimate", kw, args[4] if len(args) > 4 else None)
    x = num(args[0])
    q = num(args[1]) if len(args) > 1 else num(kw.get("q"))
    out = mul(x, D(p=1))
    if isinstance(x, Arr) and isinstance(out, Deg):
        ax = _axis(kw, -1)  # scipy.signal.decimate default axis is -1
        if ax is None:
            return Deg(out.sup, x.rank)
        dims = list(x.dims)
        dims[ax] = mul(dims[ax], inv(q))
        return Arr(out.sup, dims)
    return out


def m_same_shape(pos, name=None, axis_pos=None):
    def f(args, kw, node):
        if name:
            _record_axis(name, kw, args[axis_pos] if axis_pos is not None and len(args) > axis_pos else None)
        x = num(args[pos])
        out = mul(x, D(p=1))
        if isinstance(x, Arr) and isinstance(out, Deg):
            return Arr(out.sup, x.dims)
        return out
    return f


def m_deepcopy(args, kw, node):
    def cp(v):
        if isinstance(v, Arr):
            return Arr(mul(v, D(k=1)).sup, v.dims)
        if isinstance(v, Deg) and v.sup != frozenset([()]):
            return mul(v, D(k=1))
        if isinstance(v, Lst):
            return Lst([cp(i) for i in v.items], cp(v.tail) if v.tail is not None else None)
        if isinstance(v, Tup):
            return Tup([cp(i) for i in v.items])
        if isinstance(v, Dct):
            return Dct({a: cp(b) for a, b in v.d.items()})
        return v
    return cp(args[0])


MODELS = {"scipy.signal.decimate": m_decimate, "scipy.signal.detrend": m_same_shape(0, "scipy.signal.detrend", 1),
          "scipy.signal.sosfiltfilt": m_same_shape(1, "scipy.signal.sosfiltfilt", 2),
          "copy.deepcopy": m_deepcopy}


def sup(v):
    v = num(v)
    return v.sup if isinstance(v, Deg) else None


def fmt(v):
    v = num(v) if not isinstance(v, (Lst, Dct, Obj)) else v
    return v.fmt() if isinstance(v, Deg) else repr(v)[:60]


def same(a, b):
    return sup(a) is not None and sup(a) == sup(b)


class Ck:
    def __init__(self, run, prog, fn, cfg):
        self.run, self.prog, self.fn, self.cfg = run, prog, fn, cfg
        self.file, _ = hd.loc_of(prog, fn)

    def eq(self, rule, role, a, b, what):
        sa, sb = sup(a), sup(b)
        if sa is None or sb is None:
            bad = a if sa is None else b
            if isinstance(num(bad) if not isinstance(bad, (Lst, Dct, Obj)) else bad, Top):
                self.run.ob(rule, self.fn, role, False, f"{what}: non-homogeneous value {bad!r}"[:200], witness="TOP", file=self.file, config=self.cfg)
            else:
                self.run.ob(rule, self.fn, role, None, f"{what}: could not evaluate ({fmt(a)} vs {fmt(b)})", file=self.file, config=self.cfg)
            return
        ok = sa == sb
        self.run.ob(rule, self.fn, role, ok, f"{what}: {fmt(a)} vs {fmt(b)}" + ("" if ok else f" ({self.cfg})"), witness=f"{fmt(a)} vs {fmt(b)}", file=self.file, config=self.cfg)

    def ne(self, rule, role, a, b, what):
        sa, sb = sup(a), sup(b)
        if sa is None or sb is None:
            self.run.ob(rule, self.fn, role, None, f"{what}: could not evaluate", file=self.file, config=self.cfg)
            return
        ok = sa != sb
        self.run.ob(rule, self.fn, role, ok, f"{what}: {fmt(a)} vs {fmt(b)}", witness=f"{fmt(a)} == {fmt(b)}", file=self.file, config=self.cfg)


def dims_of(v, k):
    v = num(v)
    if isinstance(v, Arr):
        return v.dims[k]
    return None


# ----------------------------------------------------------------------------- SingleSetup
def single_state(I, fs=None, dt=None, nd=None, data_sup=None):
    """an arbitrary state satisfying the invariant (after some history: decimated by r, processed m times)"""
    fs = fs or D(0, s=-1, r=-1)
    dt = dt or D(0, s=1, r=1)
    nd = nd or D(0, n=1, r=-1)
    data = Arr(D(g=1, p=1).sup, [nd, D(0, c=1)])
    o = I.new_obj(SINGLE, {"data": data, "fs": fs, "dt": dt, "Ndat": nd, "Nch": D(0, c=1), "T": mul(nd, dt),
                           "_initial_data": Arr(D(g=1, k=1).sup, [D(0, n=1), D(0, c=1)]), "_initial_fs": D(0, s=-1), "algorithms": Dct({})})
    return o


def inv_single(ck, o, rule="R-inv"):
    a = o.attrs
    ck.eq(rule, "dt*fs = 1", mul(a.get("dt"), a.get("fs")), SCAL, "dt*fs")
    ck.eq(rule, "T = Ndat*dt", a.get("T"), mul(a.get("Ndat"), a.get("dt")), "T vs Ndat*dt")
    d0 = dims_of(a.get("data"), 0)
    d1 = dims_of(a.get("data"), 1)
    if d0 is None or d1 is None:
        ck.run.ob(rule, ck.fn, "Ndat = data.shape[0]", None, f"extents of the stored array unknown ({a.get('data')!r})"[:160], file=ck.file, config=ck.cfg)
    else:
        ck.eq(rule, "Ndat = data.shape[0]", a.get("Ndat"), d0, "Ndat vs extent of the stored array")
        ck.eq(rule, "Nch = data.shape[1]", a.get("Nch"), d1, "Nch vs extent of the stored array")


def run_single(prog, run, I):
    q = D(0, q=1)
    # __init__
    CTX.events.clear()
    user = Arr(D(g=1).sup, [D(0, n=1), D(0, c=1)])
    o = I.construct(SINGLE, [user, D(0, s=-1)])
    fnq = "pyoma2." + SINGLE + ".__init__"
    ck = Ck(run, prog, fnq, "SingleSetup(data, fs)")
    inv_single(ck, o)
    ck.ne("R-no-alias", "initial copy is not the user's array", o.attrs.get("_initial_data"), user, "_initial_data vs the array passed in")
    ck.eq("R-post", "fs as given", o.attrs.get("fs"), D(0, s=-1), "fs")
    # mutators from an arbitrary I-state
    for mname, args, kw in (("decimate_data", [q], {}), ("decimate_data", [q], {"ftype": Cst("fir"), "n": Cst(8), "zero_phase": Cst(False)}),
                            ("detrend_data", [], {}), ("detrend_data", [], {"type": Cst("constant")}),
                            ("filter_data", [D(0, s=-1)], {"order": Cst(4), "btype": Cst("lowpass")}), ("rollback", [], {})):
        o = single_state(I)
        pre = dict(o.attrs)
        m = I.method(SINGLE, mname, o)
        CTX.events.clear()
        USER_KW[0] = tuple(kw)
        I.call(m, args, kw)
        # extents are integer counts in this domain: only the rounding of a dimensional quantity (fs // q) is an event worth reporting
        CTX.events[:] = [e_ for e_ in CTX.events if e_[0] == "nonhom" and ("floor division" in e_[2] or "remainder" in e_[2])]
        hd.events_to_obligations(run, prog, "R-post", f"{mname}({', '.join(kw)})", seen=EVSEEN)
        cfg = f"{mname}({', '.join(kw)})" if kw else f"{mname}()"
        ck = Ck(run, prog, m.qual, cfg)
        inv_single(ck, o)
        a = o.attrs
        if mname == "decimate_data":
            ck.eq("R-post", "fs' = fs/q", a.get("fs"), mul(pre["fs"], inv(q)), "fs after decimation")
            ck.eq("R-post", "Ndat' = Ndat/q", a.get("Ndat"), mul(pre["Ndat"], inv(q)), "sample count after decimation")
            ck.eq("R-post", "data processed once more", a.get("data"), mul(pre["data"], D(p=1)), "data history")
        elif mname in ("detrend_data", "filter_data"):
            for k in ("fs", "dt", "Ndat", "T"):
                ck.eq("R-post", f"{k} unchanged", a.get(k), pre[k], k)
            ck.eq("R-post", "data processed once more", a.get("data"), mul(pre["data"], D(p=1)), "data history")
        else:
            ck.eq("R-post", "fs restored", a.get("fs"), pre["_initial_fs"], "fs after rollback")
            ck.eq("R-post", "dt restored", a.get("dt"), inv(pre["_initial_fs"]), "dt after rollback")
            ck.eq("R-post", "Ndat restored", a.get("Ndat"), D(0, n=1), "Ndat after rollback")
            ck.eq("R-post", "data restored (content of the initial copy)", a.get("data"), pre["_initial_data"], "data after rollback")
            ck.ne("R-no-alias", "live data is not the stored initial copy", a.get("data"), a.get("_initial_data"), "data vs _initial_data after rollback")
        for e in hd.unknown_events(3):
            run.notes.append(e)
    # add_algorithms binds the current data / fs
    o = single_state(I)
    alg = I.new_obj("algorithms.fdd.FDD", {"name": Cst("FDD"), "run_params": Cst(None), "result": Cst(None)})
    m = I.method(SINGLE, "add_algorithms", o)
    I.call(m, [alg])
    ck = Ck(run, prog, m.qual, "add_algorithms(alg)")
    ck.eq("R-post", "algorithm bound to the current data", alg.attrs.get("data"), o.attrs["data"], "alg.data vs setup.data")
    ck.eq("R-post", "algorithm bound to the current fs", alg.attrs.get("fs"), o.attrs["fs"], "alg.fs vs setup.fs")
    ck.eq("R-post", "algorithm dt = 1/fs", mul(alg.attrs.get("dt"), alg.attrs.get("fs")), SCAL, "alg.dt*alg.fs")


# ----------------------------------------------------------------------------- MultiSetup_PreGER
def ds_list(sym_hist):
    a0 = Arr(sym_hist.sup, [D(0, n=1, r=-1), D(0, c=1)])
    return Lst([a0], Arr(sym_hist.sup, [D(0, n=1, r=-1), D(0, c=1)]))


def preger_state(I):
    fs, dt = D(0, s=-1, r=-1), D(0, s=1, r=1)
    hist = D(g=1, p=1)
    nd = D(0, n=1, r=-1)
    refl = Lst([Lst([Cst(0)])], Lst([Cst(0)]))
    su = Dct({"ref": Deg(hist.sup, 2), "mov": Deg(hist.sup, 2)})
    o = I.new_obj(PREGER, {"fs": fs, "dt": dt, "ref_ind": refl, "datasets": ds_list(hist), "data": Lst([su], Dct(dict(su.d))),
                           "Ndats": Lst([nd], nd), "Ts": Lst([mul(nd, dt)], mul(nd, dt)), "Nchs": Lst([D(0, c=1)], D(0, c=1)), "Nsetup": SCAL,
                           "_initial_fs": D(0, s=-1), "_initial_ref_ind": refl,
                           "_initial_datasets": Lst([Arr(D(g=1, k=1).sup, [D(0, n=1), D(0, c=1)])], Arr(D(g=1, k=1).sup, [D(0, n=1), D(0, c=1)])),
                           "algorithms": Dct({})})
    return o


def inv_preger(ck, o, rule="R-inv"):
    a = o.attrs
    ck.eq(rule, "dt*fs = 1", mul(a.get("dt"), a.get("fs")), SCAL, "dt*fs")
    nd, ts, ds, data = a.get("Ndats"), a.get("Ts"), a.get("datasets"), a.get("data")
    if not all(isinstance(x, Lst) for x in (nd, ts, ds, data)):
        ck.run.ob(rule, ck.fn, "list attributes", None, f"Ndats/Ts/datasets/data are not all lists ({type(nd).__name__}, {type(ts).__name__}, {type(ds).__name__}, {type(data).__name__})", file=ck.file, config=ck.cfg)
        return
    ck.eq(rule, "Ts[i] = Ndats[i]*dt", elem(ts), mul(elem(nd), a.get("dt")), "Ts vs Ndats*dt")
    e = elem(ds)
    d0 = dims_of(e, 0)
    if d0 is None:
        ck.run.ob(rule, ck.fn, "Ndats[i] = datasets[i].shape[0]", None, f"extent of the stored datasets unknown ({e!r})"[:160], file=ck.file, config=ck.cfg)
    else:
        ck.eq(rule, "Ndats[i] = datasets[i].shape[0]", elem(nd), d0, "Ndats vs extent of the stored datasets")
    de = elem(data)
    if isinstance(de, Dct) and "ref" in de.d and "mov" in de.d:
        ck.eq(rule, "data = split(stored datasets): reference part", de.d["ref"], e, "history of data['ref'] vs datasets")
        ck.eq(rule, "data = split(stored datasets): roving part", de.d["mov"], e, "history of data['mov'] vs datasets")
    else:
        ck.run.ob(rule, ck.fn, "data = split(stored datasets)", None, f"data element is not a ref/mov dict ({de!r})"[:160], file=ck.file, config=ck.cfg)


def run_preger(prog, run, I):
    q = D(0, q=1)
    user = Lst([Arr(D(g=1).sup, [D(0, n=1), D(0, c=1)])], Arr(D(g=1).sup, [D(0, n=1), D(0, c=1)]))
    refl = Lst([Lst([Cst(0)])], Lst([Cst(0)]))
    CTX.events.clear()
    o = I.construct(PREGER, [D(0, s=-1), refl, user])
    ck = Ck(run, prog, "pyoma2." + PREGER + ".__init__", "MultiSetup_PreGER(fs, ref_ind, datasets)")
    inv_preger(ck, o)
    ck.ne("R-no-alias", "initial copy is not the user's list", elem(o.attrs.get("_initial_datasets")), elem(user), "_initial_datasets vs the datasets passed in")
    for mname, args, kw in (("decimate_data", [q], {}), ("decimate_data", [q], {"ftype": Cst("fir"), "n": Cst(8), "zero_phase": Cst(False)}),
                            ("detrend_data", [], {}), ("filter_data", [D(0, s=-1)], {"order": Cst(4)}), ("rollback", [], {})):
        o = preger_state(I)
        pre = dict(o.attrs)
        m = I.method(PREGER, mname, o)
        CTX.events.clear()
        USER_KW[0] = tuple(kw)
        I.call(m, args, kw)
        # extents are integer counts in this domain: only the rounding of a dimensional quantity (fs // q) is an event worth reporting
        CTX.events[:] = [e_ for e_ in CTX.events if e_[0] == "nonhom" and ("floor division" in e_[2] or "remainder" in e_[2])]
        hd.events_to_obligations(run, prog, "R-post", f"{mname}({', '.join(kw)})", seen=EVSEEN)
        cfg = f"{mname}({', '.join(kw)})" if kw else f"{mname}()"
        ck = Ck(run, prog, m.qual, cfg)
        inv_preger(ck, o)
        a = o.attrs
        if mname == "decimate_data":
            ck.eq("R-post", "fs' = fs/q", a.get("fs"), mul(pre["fs"], inv(q)), "fs after decimation")
            ck.eq("R-post", "Ndats' = Ndats/q", elem(a.get("Ndats")) if isinstance(a.get("Ndats"), Lst) else a.get("Ndats"), mul(elem(pre["Ndats"]), inv(q)), "sample counts after decimation")
            ck.eq("R-post", "datasets processed once more", elem(a.get("datasets")), mul(elem(pre["datasets"]), D(p=1)), "datasets history")
        elif mname in ("detrend_data", "filter_data"):
            for k in ("fs", "dt"):
                ck.eq("R-post", f"{k} unchanged", a.get(k), pre[k], k)
            ck.eq("R-post", "Ndats unchanged", elem(a.get("Ndats")), elem(pre["Ndats"]), "Ndats")
            ck.eq("R-post", "datasets processed once more", elem(a.get("datasets")), mul(elem(pre["datasets"]), D(p=1)), "datasets history")
        else:
            ck.eq("R-post", "fs restored", a.get("fs"), pre["_initial_fs"], "fs after rollback")
            ck.eq("R-post", "dt restored", a.get("dt"), inv(pre["_initial_fs"]), "dt after rollback")
            ck.eq("R-post", "Ndats restored", elem(a.get("Ndats")), D(0, n=1), "Ndats after rollback")
            # (content: how many times the arrays were copied on the way - the formal factor k - plays no part; distinctness is R-no-alias)
            ck.eq("R-post", "datasets restored (content of the initial copy)", _no_copies(elem(a.get("datasets"))), _no_copies(elem(pre["_initial_datasets"])), "datasets after rollback")
            ck.ne("R-no-alias", "live datasets are not the stored initial copy", elem(a.get("datasets")), elem(a.get("_initial_datasets")), "datasets vs _initial_datasets after rollback")


# ----------------------------------------------------------------------------- structural rules
MUTATOR_CLASSES = [SINGLE, PREGER, BASE]


def kwargs_rule(prog, run):
    """a keyword passed explicitly next to **kwargs must have been popped from kwargs, not merely read"""
    n = 0
    for cq in MUTATOR_CLASSES:
        ci = prog.cls(cq)
        for m in ci.methods.values():
            kwname = m.node.args.kwarg.arg if m.node.args.kwarg else None
            if not kwname:
                continue
            f = rel(prog.mods[m.mod].path)
            read = {}
            for c in ast.walk(m.node):
                if isinstance(c, ast.Call) and isinstance(c.func, ast.Attribute) and isinstance(c.func.value, ast.Name) and c.func.value.id == kwname \
                        and c.func.attr in ("get", "pop") and c.args and isinstance(c.args[0], ast.Constant):
                    read.setdefault(c.args[0].value, set()).add(c.func.attr)
                if isinstance(c, ast.Subscript) and isinstance(c.value, ast.Name) and c.value.id == kwname and isinstance(c.slice, ast.Constant):
                    read.setdefault(c.slice.value, set()).add("get")
            pm = astq.parent_map(m.node)
            for c in ast.walk(m.node):
                if isinstance(c, ast.Call) and isinstance(c.func, ast.Attribute) and c.func.attr in ("pop", "popitem", "clear") and isinstance(c.func.value, ast.Name) and c.func.value.id == kwname:
                    loop = astq.enclosing(pm, c, (ast.For, ast.While, ast.ListComp, ast.GeneratorExp, ast.DictComp, ast.SetComp))
                    n += 1
                    key = astq.src(c.args[0]) if c.args else ""
                    run.ob("R-kwargs", m.qual, f"keyword {key} is taken from **{kwname} once, before any per-dataset loop", loop is None,
                           f"`{astq.src(c, 50)}`" + ("" if loop is None else " runs inside a loop: the first iteration consumes the keyword, every later dataset silently gets the default"),
                           witness=f"pop in loop {key}", file=f, node=c)
            # a user-supplied option must reach scipy as given: `value or default` / `value if value else default` replaces every FALSY
            # value (zero_phase=False, axis=0, n=0) by the default
            def from_kwargs(e):
                x = e
                if isinstance(e, ast.Name):
                    try:
                        x = astq.expr_at(m, e, e)
                    except Exception:
                        x = e
                return any(isinstance(z, ast.Call) and isinstance(z.func, ast.Attribute) and z.func.attr in ("pop", "get") and isinstance(z.func.value, ast.Name) and z.func.value.id == kwname
                           for z in ast.walk(x)) or any(isinstance(z, ast.Subscript) and isinstance(z.value, ast.Name) and z.value.id == kwname for z in ast.walk(x))
            for c in ast.walk(m.node):
                lossy = None
                if isinstance(c, ast.BoolOp) and isinstance(c.op, ast.Or) and len(c.values) >= 2 and from_kwargs(c.values[0]):
                    lossy = c
                elif isinstance(c, ast.IfExp) and from_kwargs(c.test) and not isinstance(c.test, ast.Compare):
                    lossy = c
                if lossy is not None:
                    n += 1
                    run.ob("R-kwargs", m.qual, "user options are not replaced by a truth-test default", False,
                           f"`{astq.src(lossy, 60)}`: a falsy value given by the caller (False, 0) is silently replaced by the default",
                           witness=astq.src(lossy, 60), file=f, node=lossy)
            for c in ast.walk(m.node):
                if isinstance(c, ast.Call) and any(k.arg is None and isinstance(k.value, ast.Name) and k.value.id == kwname for k in c.keywords):
                    for k in c.keywords:
                        if k.arg is not None and k.arg in read:
                            n += 1
                            ok = "pop" in read[k.arg] and "get" not in read[k.arg]
                            run.ob("R-kwargs", m.qual, f"keyword '{k.arg}' forwarded explicitly and through **{kwname}", ok,
                                   f"`{k.arg}` is {'popped' if ok else 'read with .get()/[]'} from {kwname} and passed as `{k.arg}=...` together with **{kwname}"
                                   + ("" if ok else f": a caller passing {k.arg}= gets TypeError (multiple values for keyword argument)"),
                                   witness=f"{k.arg}:{sorted(read[k.arg])}", file=f, node=c)
    return n


def axis_rule(prog, run):
    """axis reaches scipy as 0 on every abstract run of a mutator that the caller did not give an axis (scipy's own defaults are the
    last axis = the channel axis).  The values are observed at the models of the three scipy routines (AXES), not read off the syntax."""
    seen = {}
    for name, ax, where in AXES:
        seen.setdefault((name, where), []).append(ax)
    if not seen:
        run.ob("R-kwargs", "pyoma2." + BASE, "axis reaching scipy", None, "no call of scipy.signal.decimate / detrend / sosfiltfilt was reached by the abstract mutator runs")
    for (name, where), vals in sorted(seen.items(), key=lambda kv: (kv[0][0], str(kv[0][1]))):
        fn, line = where if isinstance(where, tuple) else (str(where), 0)
        short = name.split(".")[-1]
        oks = []
        for v in vals:
            if isinstance(v, Cst):
                oks.append(v.v == 0)
            elif v is None:
                oks.append(False)          # not passed: scipy then works along the last (channel) axis
            else:
                oks.append(None)
        ok = False if any(o is False for o in oks) else (None if any(o is None for o in oks) else True)
        shown = sorted({("not passed (scipy default: last axis = channels)" if v is None else repr(v)) for v in vals})
        f, _ = hd.loc_of(prog, fn) if hasattr(hd, "loc_of") else (None, 0)
        run.ob("R-kwargs", fn, f"axis defaults to 0 ({short})", ok, f"axis reaching {name} at line {line}: {shown}", witness=";".join(shown), file=f, config=f"{short}@{fn.split('.')[-1]}")
    # keywords the user did NOT give: they must reach scipy with scipy's own default (or not at all) - otherwise the documented
    # "remaining keywords are scipy's" is false for exactly the calls that rely on the defaults
    done = set()
    for name, kw, user, where in KWSEEN:
        fn, line = where if isinstance(where, tuple) else (str(where), 0)
        for k_, dflt in SCIPY_DEFAULTS.get(name, {}).items():
            if k_ in user or k_ not in kw:
                continue
            v = kw[k_]
            key = (name, k_, fn, repr(v))
            if key in done:
                continue
            done.add(key)
            ok = (isinstance(v, Cst) and v.v == dflt) if isinstance(v, Cst) else None
            f, _ = hd.loc_of(prog, fn)
            run.ob("R-kwargs", fn, f"keyword '{k_}' not given by the user reaches {name.split('.')[-1]} with scipy's default", ok,
                   f"{k_} = {v!r} reaches {name} (scipy default {dflt!r}) when the user gave only {list(user)}", witness=f"{k_}={v!r}", file=f, config=f"{name.split('.')[-1]}.{k_}@{fn.split('.')[-1]}")


VIEW_ATTRS = {"T", "real", "imag", "flat"}
VIEW_CALLS = {"reshape", "ravel", "view", "squeeze", "transpose", "swapaxes"}
VIEW_FUNCS = {"numpy.asarray", "numpy.moveaxis", "numpy.reshape", "numpy.ravel", "numpy.transpose", "numpy.atleast_2d", "numpy.squeeze", "numpy.asanyarray"}
INPLACE_METHODS = {"sort", "fill", "resize", "itemset", "put", "partition", "byteswap", "setfield", "append", "remove", "extend", "insert", "pop", "clear", "reverse", "update"}
INPLACE_FUNCS = {"numpy.copyto", "numpy.put", "numpy.place", "numpy.putmask", "numpy.fill_diagonal"}


def no_inplace(prog, run):
    funcs = []
    for cq in MUTATOR_CLASSES:
        ci = prog.cls(cq)
        for name in ("__init__", "_initialize_data", "rollback", "decimate_data", "detrend_data", "filter_data", "_decimate_data", "_detrend_data", "_filter_data", "add_algorithms"):
            if name in ci.methods:
                funcs.append(ci.methods[name])
    funcs += [prog.func("functions.gen.filter_data"), prog.func("functions.gen.pre_multisetup")]
    for fi in funcs:
        f = rel(prog.mods[fi.mod].path)
        pos, kwo, _, _ = astq.params_of(fi.node)
        params = set(pos + kwo) - {"self", "cls"}
        # may-alias set: names that can refer to (a view of) a parameter or of self.<data attr>
        alias = set(params)

        def is_alias_expr(e):
            if isinstance(e, ast.Name):
                return e.id in alias
            if isinstance(e, ast.Attribute):
                if isinstance(e.value, ast.Name) and e.value.id == "self":
                    return e.attr in ("data", "datasets", "_initial_data", "_initial_datasets", "_initial_ref_ind", "ref_ind")
                return e.attr in VIEW_ATTRS and is_alias_expr(e.value)
            if isinstance(e, ast.Subscript):
                el = astq.index_elts(e)
                basic = all(isinstance(i, (ast.Slice, ast.Constant)) or (isinstance(i, ast.Name)) for i in el)
                return basic and is_alias_expr(e.value)
            if isinstance(e, ast.Call):
                nm = astq.callee_name(prog, fi, e)
                if nm in VIEW_FUNCS and e.args:
                    return is_alias_expr(e.args[0])
                if isinstance(e.func, ast.Attribute) and e.func.attr in VIEW_CALLS:
                    return is_alias_expr(e.func.value)
            return False
        changed = True
        while changed:
            changed = False
            for n in ast.walk(fi.node):
                if isinstance(n, ast.Assign) and len(n.targets) == 1 and isinstance(n.targets[0], ast.Name) and n.targets[0].id not in alias and is_alias_expr(n.value):
                    alias.add(n.targets[0].id)
                    changed = True
                if isinstance(n, ast.For) and isinstance(n.target, ast.Name) and n.target.id not in alias and is_alias_expr(n.iter):
                    alias.add(n.target.id)
                    changed = True
        bad = []
        for n in ast.walk(fi.node):
            if isinstance(n, ast.Assign):
                for t in n.targets:
                    if isinstance(t, ast.Subscript) and is_alias_expr(t.value):
                        bad.append((n, f"store into `{astq.src(t, 40)}`"))
            elif isinstance(n, ast.AugAssign):
                t = n.target
                if (isinstance(t, ast.Subscript) and is_alias_expr(t.value)) or (isinstance(t, ast.Name) and t.id in alias) \
                        or (isinstance(t, ast.Attribute) and is_alias_expr(t)):
                    bad.append((n, f"augmented assignment `{astq.src(n, 40)}` on a value that may be the caller's / the stored array"))
            elif isinstance(n, ast.Call):
                nm = astq.callee_name(prog, fi, n)
                if isinstance(n.func, ast.Attribute) and n.func.attr in INPLACE_METHODS and is_alias_expr(n.func.value):
                    bad.append((n, f"in-place method `{astq.src(n, 40)}`"))
                if nm in INPLACE_FUNCS and n.args and is_alias_expr(n.args[0]):
                    bad.append((n, f"in-place call `{astq.src(n, 40)}`"))
                for k in n.keywords:
                    if k.arg == "out" and is_alias_expr(k.value):
                        bad.append((n, f"`out=` writes into `{astq.src(k.value)}`"))
                    if k.arg in ("overwrite_data", "overwrite_x", "overwrite_a", "copy") and isinstance(k.value, ast.Constant) and \
                            ((k.arg != "copy" and k.value.value is True) or (k.arg == "copy" and k.value.value is False and nm.startswith("numpy.array"))):
                        bad.append((n, f"`{k.arg}={k.value.value}` lets the library modify / share the input array"))
            elif isinstance(n, ast.Delete):
                for t in n.targets:
                    if isinstance(t, ast.Subscript) and is_alias_expr(t.value):
                        bad.append((n, f"`del {astq.src(t, 40)}`"))
        if bad:
            for n, why in bad:
                run.ob("R-no-inplace", fi.qual, "no in-place effect on caller-visible arrays", False, why, witness=why[:80], file=f, node=n)
        else:
            run.ob("R-no-inplace", fi.qual, "no in-place effect on caller-visible arrays", True, f"{len(alias)} may-alias names, no store/in-place call on them", file=f, node=fi.node)
        # _initial_* only ever receive deep copies (or the scalar fs)
        for n in ast.walk(fi.node):
            if isinstance(n, ast.Assign):
                for t in n.targets:
                    if isinstance(t, ast.Attribute) and isinstance(t.value, ast.Name) and t.value.id == "self" and t.attr.startswith("_initial_") and t.attr != "_initial_fs":
                        v = n.value
                        ok = isinstance(v, ast.Call) and astq.callee_name(prog, fi, v) == "copy.deepcopy"
                        run.ob("R-no-inplace", fi.qual, f"self.{t.attr} receives a deep copy", ok, f"`{astq.src(n, 60)}`", witness=astq.src(v, 50), file=f, node=n)


SAMPLING_ATTRS = {"fs", "dt", "Ndat", "Nch", "T", "Ndats", "Ts", "Nchs", "_initial_fs", "_initial_data", "_initial_datasets", "ref_ind"}


def frame_rule(prog, run):
    """detrend_data / filter_data assign nothing but data (and datasets)"""
    for cq in (SINGLE, PREGER):
        ci = prog.cls(cq)
        for name in ("detrend_data", "filter_data"):
            m = ci.methods.get(name)
            if m is None:
                raise AnalysisError(f"anchor lost: {cq}.{name}")
            f = rel(prog.mods[m.mod].path)
            bad = []
            for n in ast.walk(m.node):
                tg = n.targets if isinstance(n, ast.Assign) else ([n.target] if isinstance(n, (ast.AugAssign, ast.AnnAssign)) else [])
                for t in tg:
                    for tt in (t.elts if isinstance(t, (ast.Tuple, ast.List)) else [t]):
                        if isinstance(tt, ast.Attribute) and isinstance(tt.value, ast.Name) and tt.value.id == "self" and tt.attr in SAMPLING_ATTRS:
                            bad.append(astq.src(n, 50))
            run.ob("R-post", m.qual, "assigns no sampling attribute (frame condition)", not bad,
                   "only data/datasets are assigned" if not bad else f"{name} also assigns {bad}", witness=";".join(bad)[:90], file=f, node=m.node)


def _no_copies(v):
    """v without the formal copy factor k"""
    if isinstance(v, Deg):
        return Deg(frozenset(tuple((s_, e_) for s_, e_ in m if s_ != "k") for m in v.sup), v.rank)
    return v


def check(prog, run):
    run.rule("R-kept", "a setup method that keeps a computed value on the instance (designed filters ..) hands it out again only while what it was computed from is the "
             "same: the sampling attributes it reads are part of the look-up key, or every method that replaces them discards what was kept", 0)
    from ..effects import memo_rule
    memo_rule(prog.raw, run, "R-kept", ["pyoma2.setup"], "a later preprocessing step is carried out with a value computed for the previous sampling frequency / data")
    astq.shortcut_obligations(prog, run, ["functions.gen.pre_multisetup"])
    run.rule("R-inv", "the representation invariant holds after __init__ and is preserved by decimate/detrend/filter/rollback from an arbitrary invariant state (both setup classes)", 40)
    run.rule("R-post", "post-conditions: decimate => fs/q and count/q; detrend/filter => sampling attributes unchanged, data processed once more; rollback => initial values; add_algorithms binds current data/fs", 30)
    run.rule("R-no-alias", "initial copies are distinct objects from the user's arrays and, after rollback, from the live data", 4)
    run.rule("R-kwargs", "explicitly forwarded keywords are popped from **kwargs; axis defaults to 0 before reaching scipy", 3)
    run.rule("R-no-inplace", "no in-place effect on values that may alias the user's arrays / current data / initial copies; _initial_* only receive deep copies", 12)
    run.assume("degree domain: equal degrees in (s, q, n, c, p, k) are a necessary condition of the equalities of the invariant; scipy wrappers are "
               "modelled as: decimate divides the extent of its axis by q, detrend/sosfiltfilt keep the shape, each multiplies a formal history factor p; "
               "deepcopy multiplies a formal factor k")
    I = Interp(prog)
    CTX.overrides = dict(MODELS)
    del AXES[:]
    del KWSEEN[:]
    EVSEEN.clear()
    try:
        run_single(prog, run, I)
        run_preger(prog, run, I)
    finally:
        CTX.overrides = {}
    run.trusted |= set(CTX.used)
    run.rule("R-stateless", "the preprocessing methods of both setup classes change no module-level or class-level table in place (option defaults shared by all "
             "instances): what one call is asked to do does not leak into the next call or into another setup", 10)
    from ..effects import shared_state_rule
    roots_ = []
    for cq in MUTATOR_CLASSES:
        ci = prog.cls(cq)
        for name in ("__init__", "_initialize_data", "rollback", "decimate_data", "detrend_data", "filter_data", "_decimate_data", "_detrend_data", "_filter_data", "add_algorithms"):
            m = prog.find_method(ci, name)
            if m is not None:
                roots_.append(m.qual)
    reach_ = sorted(q for q in prog.reachable(roots_) if q in prog.functions and not q.startswith("pyoma2.functions.plot") and ".setter" not in q)
    shared_state_rule(prog, run, "R-stateless", reach_, "a later call (on this or on another setup) is carried out with the options of an earlier one")
    run.rule("R-per-dataset", "every dataset is processed with the options of the call: no iteration over the datasets takes options OUT of a dictionary that is one object for "
             "all iterations (pop with a fixed key / popitem / clear, itself or in a helper it is handed to)", 0)
    from ..effects import consumed_in_loop_rule
    consumed_in_loop_rule(prog.raw, run, "R-per-dataset", [q for q in reach_ if q in prog.raw.functions])
    frame_rule(prog, run)
    kwargs_rule(prog, run)
    axis_rule(prog, run)
    no_inplace(prog, run)
    # "with the reference/roving split re-applied": the split keeps the listed reference order / ascending roving order, is given the
    # reference lists as stored, and is applied to the dataset list that is current when the operation returns (rules shared with C03/C04/C08)
    from .. import seqsig
    run.rule("R-split", "the reference/roving split re-applied after every operation: references in listed order, roving channels ascending, on the dataset list the "
             "operation leaves in `datasets`, with the reference lists as given", 8)
    seqsig.order_obligations(prog, run, "R-split", which=("pre", "reflists", "split_current"))


B, SI, MU = "setup.base", "setup.single", "setup.multi"
MUTANTS = [
    ("C14-m01 stale dt in the shared helper", B, "BaseSetup._decimate_data", "dt = 1 / fs", "dt = 1 / (fs * q)"),
    ("C14-m02 filtered datasets not stored", MU, "MultiSetup_PreGER.filter_data", "self.datasets = newdatasets", "pass"),
    ("C14-m03 initial copy aliases the user's array", SI, "SingleSetup._initialize_data", "self._initial_data = copy.deepcopy(data)", "self._initial_data = data"),
    ("C14-m04 in-place store into the current data", SI, "SingleSetup.detrend_data", "self.data = detrended_data", "self.data[:] = detrended_data"),
    ("C14-m05 sample count of the old array", B, "BaseSetup._decimate_data", "Ndat = newdata.shape[0]", "Ndat = data.shape[0]"),
    ("C14-m06 decimation along the channel axis by default", SI, "SingleSetup.decimate_data", "kwargs.pop('axis', 0)", "kwargs.pop('axis', -1)"),
    ("C14-m07 filter changes fs", SI, "SingleSetup.filter_data", "self.data = filt_data", "self.data = filt_data\nself.fs = self.fs / 2"),
    ("C14-m08 algorithms bound to the initial data", B, "BaseSetup.add_algorithms", "alg._set_data(data=self.data, fs=self.fs)", "alg._set_data(data=self._initial_data, fs=self.fs)"),
    ("C14-m09 rollback does not restore fs", MU, "MultiSetup_PreGER.rollback", "self.fs = self._initial_fs", "pass"),
    ("C14-m10 split of the stale datasets", MU, "MultiSetup_PreGER.decimate_data", "pre_multisetup(newdatasets, self.ref_ind)", "pre_multisetup(self.datasets, self.ref_ind)"),
    ("C14-m11 detrend overwrites its input", B, "BaseSetup._detrend_data", "detrend(data, axis=axis, **kwargs)", "detrend(data, axis=axis, overwrite_data=True, **kwargs)"),
    ("C14-m12 rollback without re-copy", SI, "SingleSetup.rollback", "self._initialize_data(data=self._initial_data, fs=self._initial_fs)", "self.dt = 1 / self.fs\nself.Ndat = self.data.shape[0]\nself.Nch = self.data.shape[1]\nself.T = self.dt * self.Ndat"),
    ("C14-m13 kwargs read but not popped (single)", SI, "SingleSetup.decimate_data", "kwargs.pop('axis', 0)", "kwargs.get('axis', 0)"),
    ("C14-m14 dt from the old fs (multi)", MU, "MultiSetup_PreGER.decimate_data", "dt = 1 / fs", "dt = 1 / self.fs"),
    ("C14-m15 detrend forgets datasets", MU, "MultiSetup_PreGER.detrend_data", "self.datasets = newdatasets", "pass"),
    ("C14-m16 Ts from initial sampling interval", MU, "MultiSetup_PreGER._initialize_data", "T = self.dt * Ndat", "T = Ndat"),
    ("C14-m18 keyword popped inside the per-dataset loop", MU, "MultiSetup_PreGER.decimate_data", "super()._decimate_data(data=data, fs=self.fs, q=q, n=n, ftype=ftype, axis=axis, zero_phase=zero_phase, **kwargs)",
     "super()._decimate_data(data=data, fs=self.fs, q=q, n=kwargs.pop('nn', n), ftype=ftype, axis=axis, zero_phase=zero_phase, **kwargs)"),
    ("C14-m17 augmented assignment on the user's data", SI, "SingleSetup.__init__", "self.fs = fs", "self.fs = fs\ndata -= data.mean(axis=0)"),
]
REWRITES = [
    ("rename:C14-r01", SI, "SingleSetup.decimate_data", "decimated_data", "dec"),
    ("C14-r02 explicit base call", SI, "SingleSetup.detrend_data", "super()._detrend_data(data=self.data, **kwargs)", "BaseSetup._detrend_data(data=self.data, **kwargs)"),
    ("C14-r03 float literal", B, "BaseSetup._decimate_data", "dt = 1 / fs", "dt = 1.0 / fs"),
    ("rename:C14-r04", MU, "MultiSetup_PreGER.filter_data", "newdatasets", "filtered"),
    ("C14-r05 comprehension instead of loop", MU, "MultiSetup_PreGER.detrend_data", "for data in self.datasets:\n    newdata = super()._detrend_data(data=data, **kwargs)\n    newdatasets.append(newdata)", "newdatasets = [self._detrend_data(data=d, **kwargs) for d in self.datasets]"),
    ("C14-r06 dt via fs attribute after update", MU, "MultiSetup_PreGER.decimate_data", "self.dt = dt", "self.dt = 1 / self.fs"),
]
