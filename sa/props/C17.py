"""C17 - frequency variance = first-order propagation of the Hankel covariance (structure only).

Decided (structural): R-vec-order - the covariance factor T is built from COLUMN-stacked (order='F') vectorisations of the Hankel
estimates, which is the vectorisation the propagation step expects: its Kronecker forms kron(I, u^T) (u a left singular vector) and
kron(v^T, I) (v a right singular vector) act on vec_F(H); R-orientation - the propagation takes left singular vectors as COLUMNS of
svd()[0] and right singular vectors as ROWS of svd()[2] (transposed to columns); R-block-scale - each block estimate H_k is scaled
like the full estimate H (weight x number of averaged products agree), so that H_k - H is a deviation, not about -H;
R-T-scale - columns of T carry 1/sqrt(nb (nb-1)) (sample covariance of the mean); R-var-slot - the reported frequency variance is
element (0,0) of U U^T for that pole and is stored at (pole, order).
Not decided: equality with a directional derivative (numerical; the three repairs were checked once by finite differences in triage).
"""
import ast

from .. import astq, symidx
from ..program import rel, AnalysisError
from ..poly import P, P_div, atom_of
from . import C12


class Und(Exception):
    pass


def is_T(e):
    return isinstance(e, ast.Attribute) and e.attr == "T"


def product_operands(prog, pf, e):
    """A @ B.T / np.dot(A, B.T) -> (A, B) ; raises Und otherwise"""
    x = astq.expand(pf, e) if isinstance(e, ast.Name) else e
    if isinstance(x, ast.BinOp) and isinstance(x.op, ast.MatMult):
        l, r = x.left, x.right
    elif isinstance(x, ast.Call) and astq.callee_name(prog, pf, x) in ("numpy.dot", "numpy.matmul") and len(x.args) == 2:
        l, r = x.args
    else:
        raise Und(f"`{astq.src(e)}` is not a matrix product")
    if not is_T(r):
        raise Und(f"second factor `{astq.src(r, 50)}` is not transposed")
    return l, r.value

HANK = "functions.ssi.build_hank"
FAST = "functions.ssi.SSI_fast"
POLES = "functions.ssi.SSI_poles"
SVDN = ("numpy.linalg.svd", "scipy.linalg.svd")


def order_of(call):
    o = astq.kwarg(call, "order")
    if o is None and call.func.attr in ("flatten", "ravel") and call.args:
        o = call.args[0]
    if o is None:
        return "C"
    return o.value.upper() if isinstance(o, ast.Constant) and isinstance(o.value, str) else "?"


def svd_part(prog, fi, e):
    """e == svd(X)[k] -> k"""
    if isinstance(e, ast.Subscript) and isinstance(e.slice, ast.Constant) and isinstance(e.value, ast.Call) and astq.callee_name(prog, fi, e.value) in SVDN:
        return e.slice.value
    return None


def orientation(prog, fi, e):
    """classify an expression that selects singular vectors: returns (svd part, 'cols'|'rows', n vectors kept as expr) after transposition bookkeeping"""
    transposed = False
    cur = e
    # peel .T and slicing in either order
    sl = None
    for _ in range(4):
        if isinstance(cur, ast.Attribute) and cur.attr == "T":
            transposed = not transposed
            cur = cur.value
        elif isinstance(cur, ast.Subscript) and svd_part(prog, fi, cur) is None:
            el = astq.index_elts(cur)
            if len(el) != 2:
                return None
            sl = (el, transposed)
            cur = cur.value
        else:
            break
    k = svd_part(prog, fi, cur)
    if k is None or sl is None:
        return None
    el, t_at_slice = sl
    # which axis is truncated (the other is a full slice)
    if astq.is_full_slice(el[0]) and isinstance(el[1], ast.Slice) and el[1].upper is not None:
        axis = 1
    elif astq.is_full_slice(el[1]) and isinstance(el[0], ast.Slice) and el[0].upper is not None:
        axis = 0
    else:
        return None
    # axis refers to the matrix as it was when sliced: if a .T was applied BEFORE slicing (inner), flip
    inner_T = transposed != t_at_slice  # transpositions applied below the slice
    if inner_T:
        axis = 1 - axis
    # in svd()[0] vectors are columns (axis 1 indexes vectors); in svd()[2] vectors are rows (axis 0 indexes vectors)
    vec_axis = 1 if k == 0 else 0
    selects_vectors = (axis == vec_axis)
    # final layout: vectors in columns if (k==0) xor total transposition
    cols = (k == 0) != transposed
    return k, selects_vectors, "cols" if cols else "rows"


def check(prog, run):
    run.rule("R-orient", "no factor / sensitivity block is transposed on the strength of ONE of its extents (a square array that is already the right way round would be turned)", 0)
    raw_ = prog.raw
    astq.orientation_guess_rule(raw_, run, "R-orient", sorted(q_ for q_ in raw_.reachable([raw_.func(x_).qual for x_ in ("functions.ssi.build_hank", "functions.ssi.SSI_fast", "functions.ssi.SSI_poles")]) if q_ in raw_.functions))
    run.rule("R-stateless", "the propagation changes no module-level table and no memoised value in place (selection / commutation matrices kept by a cache): the variances "
             "of one call do not depend on the calls made before it", 3)
    from ..effects import shared_state_rule
    reach_ = sorted(q_ for q_ in prog.reachable([prog.func(x_).qual for x_ in ("functions.ssi.build_hank", "functions.ssi.SSI_fast", "functions.ssi.SSI_poles")])
                    if q_ in prog.functions and not q_.startswith("pyoma2.functions.plot"))
    shared_state_rule(prog, run, "R-stateless", reach_, "the variances returned depend on the calls made before (the cached matrix was changed by an earlier call)")
    run.rule("R-one-object", "no in-place operation on an array (or on a basic-slice view of it) that is read again under its other name afterwards: the singular "
             "vectors used by the propagation are the ones the decomposition returned", 0)
    from ..effects import alias_inplace_rule
    alias_inplace_rule(prog.raw, run, "R-one-object", [q_ for q_ in reach_ if q_ in prog.raw.functions])
    from . import C01
    C01.eigvec_rule(prog, run)          # the sensitivities use (left, right) eigenvectors by position
    run.rule("R-vec-order", "vectorisation order of the factor columns (producer) = order expected by the Kronecker forms of the propagation (consumer)", 3)
    run.rule("R-orientation", "left singular vectors = columns of svd()[0], right singular vectors = rows of svd()[2]; truncation selects vectors, not components", 2)
    run.rule("R-block-scale", "block estimate: weight x products equals that of the full estimate", 1)
    run.rule("R-T-scale", "columns of T are divided by sqrt(nb (nb - 1))", 1)
    run.rule("R-gram", "the Gramian inverse used in the sensitivity of order n is the inverse of the order-n Gramian (no block of a larger inverse)", 1)
    run.rule("R-var-slot", "Fn_cov[pole, order] = |(U U^T)[0, 0]| of that pole", 2)
    producer_order = producer(prog, run)
    consumers(prog, run, producer_order)
    var_slot(prog, run)
    gram(prog, run)
    select_rule(prog, run)
    # the class-level observable: SSIcov(calc_unc=True).result.Fn_poles_cov receives the FREQUENCY variances of the pole routine
    from . import C09
    C09.slot_provenance(prog, run, "R-var-slot", classes=[("algorithms.ssi.SSIcov", "cov_mm", True)])


def select_rule(prog, run):
    """R-select: the sensitivity blocks Q1..Q3 have one row per entry of a vectorised ordmax x ordmax matrix (row c*ordmax + r, written
    block by block in SSI_fast); the part that belongs to model order n is the vectorisation of the leading n x n block: rows
    c*ordmax + r with c, r < n - the Kronecker selection kron([I_n 0], [I_n 0]) (or the same through a reshape).  The leading n^2 rows
    are a different set unless n == ordmax."""
    from .. import symidx
    run.rule("R-select", "order-n part of Q1..Q3 = kron([I_n 0], [I_n 0]) . Qk (rows c*ordmax + r, c, r < n), not a leading-rows slice", 1)
    fi = prog.func(POLES)
    f = rel(prog.mods[fi.mod].path)
    pf = astq.PrunedFn(fi, {"calc_unc": True})
    pos = astq.params_of(fi.node)[0] + astq.params_of(fi.node)[1]
    qs = [p_ for p_ in pos if p_ in ("Q1", "Q2", "Q3")]
    pm = astq.parent_map(pf.node)

    def is_sel(e):
        """[I_n 0] with n rows and ordmax columns"""
        t = astq.src(e, 200).replace(" ", "")
        if isinstance(e, ast.Call) and astq.callee_name(prog, pf, e) == "numpy.eye" and len(e.args) >= 2:
            return "ordmax" in astq.src(e.args[1])
        if isinstance(e, ast.Call) and astq.callee_name(prog, pf, e) in ("numpy.hstack", "numpy.concatenate", "numpy.block") and e.args and isinstance(e.args[0], (ast.List, ast.Tuple)):
            el = e.args[0].elts
            if isinstance(e.args[0].elts[0], (ast.List, ast.Tuple)):
                el = e.args[0].elts[0].elts
            return len(el) == 2 and isinstance(el[0], ast.Call) and astq.callee_name(prog, pf, el[0]) in ("numpy.eye", "numpy.identity") \
                and isinstance(el[1], ast.Call) and astq.callee_name(prog, pf, el[1]) == "numpy.zeros" and "ordmax" in astq.src(el[1])
        return False
    seen = set()
    for n in ast.walk(pf.node):
        if not (isinstance(n, ast.Name) and n.id in qs and isinstance(n.ctx, ast.Load)):
            continue
        par = pm.get(n)
        # the generator / comprehension over (Q1, Q2, Q3): judge the element expression with the loop variable standing for each table
        var = n.id
        if isinstance(par, (ast.Tuple, ast.List)) and isinstance(pm.get(par), ast.comprehension) and isinstance(pm[par].target, ast.Name):
            comp = pm.get(pm[par])
            var = pm[par].target.id
            uses = [x for x in ast.walk(comp.elt)] if hasattr(comp, "elt") else []
            cands = [(x, comp.elt) for x in uses if isinstance(x, ast.Name) and x.id == var]
        else:
            cands = [(n, None)]
        for use, root in cands:
            up = pm.get(use) if root is None else None
            if root is not None:
                up = None
                stack = [root]
                pmap = astq.parent_map(root)
                up = pmap.get(use)
            ok, why = None, None
            if isinstance(up, ast.Subscript) and up.value is use:
                el = astq.index_elts(up)
                if isinstance(el[0], ast.Slice) and not astq.is_full_slice(el[0]):
                    ok, why = False, f"`{astq.src(up, 50)}` takes the leading rows of the vectorised ordmax x ordmax blocks: for n < ordmax these are not the entries (r, c) with r, c < n"
                elif astq.is_full_slice(el[0]):
                    continue
            elif isinstance(up, ast.Call) and isinstance(up.func, ast.Attribute) and up.func.attr == "reshape" and up.func.value is use:
                t = astq.src(up, 80).replace(" ", "")
                ok, why = (True if t.count("ordmax") >= 2 else None), f"`{astq.src(up, 60)}` un-vectorises the blocks"
            elif isinstance(up, (ast.Call, ast.BinOp)):
                other = None
                if isinstance(up, ast.BinOp) and isinstance(up.op, ast.MatMult) and up.right is use:
                    other = up.left
                elif isinstance(up, ast.Call) and astq.callee_name(prog, pf, up) in ("numpy.dot", "numpy.matmul") and len(up.args) == 2 and up.args[1] is use:
                    other = up.args[0]
                if other is not None:
                    x = astq.expr_at(pf, n, other)
                    if isinstance(x, ast.Call) and astq.callee_name(prog, pf, x) == "numpy.kron" and len(x.args) == 2:
                        a_, b_ = is_sel(x.args[0]), is_sel(x.args[1])
                        ok = True if (a_ and b_) else None
                        why = f"selection `{astq.src(x, 70)}`"
                    else:
                        why = f"`{astq.src(x, 60)}` . {var}: selection matrix not recognised"
                else:
                    continue
            else:
                continue
            key = (n.id if root is None else "/".join(qs), astq.dump(up))
            if key in seen:
                continue
            seen.add(key)
            run.ob("R-select", fi.qual, f"order-n part of {key[0]}", ok, why, witness=(why or "")[:80], file=f, node=n)
    if not seen:
        run.ob("R-select", fi.qual, "order-n part of Q1..Q3", None, "no use of the sensitivity blocks found in the uncertainty branch", file=f)


def gram(prog, run):
    fi = prog.func(POLES)
    f = rel(prog.mods[fi.mod].path)
    pf = astq.PrunedFn(fi, {"calc_unc": True})
    sites = astq.sliced_inverse_sites(prog, pf)
    for sub, inv in sites:
        run.ob("R-gram", fi.qual, "no block of an inverse used as the inverse of a block", False,
               f"`{astq.src(sub, 50)}` slices `{astq.src(inv, 50)}`: the leading block of the order-ordmax inverse is not the inverse of the order-n Gramian",
               witness=astq.src(sub, 50), file=f, node=sub)
    pm = astq.parent_map(pf.node)
    n = 0
    for c in ast.walk(pf.node):
        if isinstance(c, ast.Call) and astq.callee_name(prog, pf, c) in astq.INV_FUNCS and c.args:
            loop = astq.enclosing(pm, c, (ast.For,))
            x = astq.expr_at(pf, c, c.args[0])
            # the order loop is the outermost one; the inverse must be inside it and depend on its variable
            outer = loop
            while outer is not None and astq.enclosing(pm, outer, (ast.For,)) is not None:
                outer = astq.enclosing(pm, outer, (ast.For,))
            n += 1
            if outer is None:
                run.ob("R-gram", fi.qual, "Gramian inverse computed per order", False, f"`{astq.src(c, 60)}` is computed once, outside the loop over model orders", witness=astq.src(c, 50), file=f, node=c)
                continue
            var = outer.target.id if isinstance(outer.target, ast.Name) else None
            dep = any(isinstance(z, ast.Name) and z.id == var for z in ast.walk(x))
            run.ob("R-gram", fi.qual, "Gramian inverse computed per order", dep, f"`{astq.src(c, 60)}` " + ("depends on" if dep else "does not depend on") + f" the order variable `{var}`",
                   witness=astq.src(c, 50), file=f, node=c, config=f"inv#{n}")
    if n == 0 and not sites:
        run.ob("R-gram", fi.qual, "Gramian inverse", None, "no inverse found in the uncertainty branch of SSI_poles", file=f)


def producer(prog, run):
    fi = prog.func(HANK)
    f = rel(prog.mods[fi.mod].path)
    pos, _, _, _ = astq.params_of(fi.node)
    pf = astq.PrunedFn(fi, {pos[3]: "cov_mm", "calc_unc": True})
    # the store T[:, k] = ...
    rets = [n for n in ast.walk(pf.node) if isinstance(n, ast.Return) and isinstance(n.value, ast.Tuple) and len(n.value.elts) == 2]
    if not rets or not isinstance(rets[-1].value.elts[1], ast.Name):
        run.ob("R-vec-order", fi.qual, "factor", None, "returned covariance factor not found", file=f)
        return None
    # the quantities the rules below are written in, found by what they are: the returned matrix, the samples per block (`<N> // nb`)
    # and the number of columns that quotient is taken of
    ren = {}
    if isinstance(rets[-1].value.elts[0], ast.Name):
        ren[rets[-1].value.elts[0].id] = "Hank"
    for a_ in ast.walk(pf.node):
        if isinstance(a_, ast.Assign) and len(a_.targets) == 1 and isinstance(a_.targets[0], ast.Name) and isinstance(a_.value, ast.BinOp) \
                and isinstance(a_.value.op, ast.FloorDiv) and isinstance(a_.value.right, ast.Name) and a_.value.right.id == (pos[5] if len(pos) > 5 else "nb") \
                and isinstance(a_.value.left, ast.Name):
            ren[a_.targets[0].id] = "Nb"
            ren[a_.value.left.id] = "N"
    if len(pos) > 5:
        ren[pos[5]] = "nb"
    astq.rename_locals(pf, ren)
    rets = [n for n in ast.walk(pf.node) if isinstance(n, ast.Return) and isinstance(n.value, ast.Tuple) and len(n.value.elts) == 2]
    tname = rets[-1].value.elts[1].id
    store = None
    for n in ast.walk(pf.node):
        if isinstance(n, ast.Assign) and isinstance(n.targets[0], ast.Subscript) and isinstance(n.targets[0].value, ast.Name) and n.targets[0].value.id == tname:
            store = n
    if store is None:
        run.ob("R-vec-order", fi.qual, "factor columns", None, "store into the factor not found", file=f)
        return None
    x = astq.expr_at(pf, store, store.value)
    resh = [c for c in ast.walk(x) if isinstance(c, ast.Call) and isinstance(c.func, ast.Attribute) and c.func.attr in ("reshape", "flatten", "ravel")]
    # only vectorisations of rank-2 values matter: reshape(-1, 1) / flatten of a matrix; flatten of an (n,1) column is order independent
    orders = []
    def _to_vector(c):
        """reshape(-1, 1) / reshape(-1) / reshape(1, -1) / reshape((-1, 1)): everything into one column or row - a vectorisation; a reshape to
        another shape (gathers, strips of blocks) re-arranges data that is not vec(H)"""
        a_ = list(c.args)
        if len(a_) == 1 and isinstance(a_[0], (ast.Tuple, ast.List)):
            a_ = list(a_[0].elts)
        vals = [x.value if isinstance(x, ast.Constant) else (-x.operand.value if isinstance(x, ast.UnaryOp) and isinstance(x.op, ast.USub) and isinstance(x.operand, ast.Constant) else None) for x in a_]
        return bool(vals) and vals.count(-1) == 1 and all(v in (-1, 1) for v in vals)
    for c in resh:
        if c.func.attr == "reshape":
            if not _to_vector(c):
                continue
            orders.append((order_of(c), c))
        else:
            inner = c.func.value
            if not any(isinstance(i, ast.Call) and isinstance(i.func, ast.Attribute) and i.func.attr == "reshape" for i in ast.walk(inner)):
                orders.append((order_of(c), c))
    kinds = sorted({o for o, c in orders})
    ok = len(kinds) == 1 and kinds[0] in ("F", "C")
    run.ob("R-vec-order", fi.qual, "full and block estimates are vectorised in the same order", ok, f"{len(orders)} vectorisations, order(s) {kinds}", witness=str(kinds), file=f, node=store)
    # deviation = block - full
    dev = None
    for b in ast.walk(x):
        if isinstance(b, ast.BinOp) and isinstance(b.op, ast.Sub):
            dev = b
            break
    # T scale
    se = symidx.SymEval(prog, pf, stop={"Nb"})
    okT = False
    why = astq.src(x, 100)
    if isinstance(x, ast.BinOp) and isinstance(x.op, ast.Div):
        d = se.ev(x.right)
        nb = P.s("nb")
        want = nb * (nb - 1)
        a = atom_of(d, __import__("fractions").Fraction(1, 2)) if d is not None else None
        okT = a is not None and a == want
        why = f"divisor {d!r}"
    run.ob("R-T-scale", fi.qual, "deviation / sqrt(nb (nb-1))", okT, why, witness=why[:80], file=f, node=store)
    # block scale
    try:
        H = astq.expr_at(pf, store, ast.Name(id="Hank", ctx=ast.Load()))
        # full estimate: first returned element
        se2 = symidx.SymEval(prog, pf, stop={"Nb", "N"})
        # the full estimate, as assembled from windows of the two records (sa/hankdom.py, shared with C12)
        from .. import hankdom
        pos_ = astq.params_of(fi.node)[0]
        hs, _it = C12.analyse(prog, fi, "cov_mm", pos_[0], pos_[1], pos_[2], pos_[3])
        Hf = hs[0][0] if len(hs) == 1 else None
        if not (isinstance(Hf, hankdom.Gram) and isinstance(Hf.a, hankdom.Stk) and isinstance(Hf.b, hankdom.Stk)):
            raise Und(f"full estimate `{repr(Hf)[:80]}` is not a product of two window stacks")
        # express the window length / weights in the function's own symbols (N = Ndat - 2 br - 1 in hankdom's terms)
        w_full = Hf.a.win.w * Hf.b.win.w
        L_full_h = Hf.a.win.hi - Hf.a.win.lo
        from ..poly import atom
        N_h = P.s("Ndat") - 2 * P.s(pos_[2]) - 1
        if L_full_h != N_h - 1 and L_full_h != N_h:
            raise Und(f"window length {L_full_h!r} is not N or N-1")
        L_full = P.s("N") - (N_h - L_full_h)
        if w_full * N_h != P.c(1) and not (__import__("sa.poly", fromlist=["atom_of"]).atom_of(w_full, -1) == N_h):
            raise Und(f"weight product {w_full!r} is not 1/N")
        w_full = P({(("N", -1),): 1})
        # block estimate: the minuend of the deviation, stripped of vectorisation (N and Nb kept symbolic)
        xk = astq.expr_at(pf, store, store.value, keep=("N", "Nb"))
        devk = None
        for b_ in ast.walk(xk):
            if isinstance(b_, ast.BinOp) and isinstance(b_.op, ast.Sub):
                devk = b_
                break
        blk = devk.left if devk is not None else None
        while isinstance(blk, ast.Call) and isinstance(blk.func, ast.Attribute) and blk.func.attr in ("reshape", "flatten", "ravel"):
            blk = blk.func.value
        coef = P.c(1)
        core = blk
        # peel scalar factors around the product
        for _ in range(6):
            if isinstance(core, ast.BinOp) and isinstance(core.op, (ast.Mult, ast.Div)):
                l, r = core.left, core.right
                lv, rv = se2.ev(l), se2.ev(r)
                if isinstance(core.op, ast.Div) and rv is not None:
                    coef = P_div(coef, rv)
                    core = l
                    continue
                if isinstance(core.op, ast.Mult) and rv is not None and lv is None:
                    coef = coef * rv
                    core = l
                    continue
                if isinstance(core.op, ast.Mult) and lv is not None and rv is None:
                    coef = coef * lv
                    core = r
                    continue
            break
        A2, B2 = product_operands(prog, pf, core)

        def win(e):
            if not isinstance(e, ast.Subscript):
                raise Und("block operand is not a column window")
            el = astq.index_elts(e)
            b = symidx.slice_bounds(se2, el[1]) if len(el) == 2 and isinstance(el[1], ast.Slice) else None
            if b is None:
                raise Und("block window bounds not polynomial")
            return b[1] - b[0], e.value
        L1, base1 = win(A2)
        L2, base2 = win(B2)
        # the windows are cut from the already weighted stacks: total weight = w_full * coef
        lhs = w_full * coef * L1
        rhs_candidates = [w_full * (L_full + d) for d in (0, 1)]
        ok = L1 == L2 and any(lhs == r for r in rhs_candidates)
        run.ob("R-block-scale", fi.qual, "weight x products of a block estimate = that of the full estimate", ok,
               f"block: {L1!r} products x extra factor {coef!r} on stacks already weighted by {w_full!r}; full: {L_full!r} products"
               + ("" if ok else " - the block estimates are not scaled like H, the deviations H_k - H are dominated by -H"),
               witness=f"{coef!r} x {L1!r} vs {L_full!r}", file=f, node=store)
    except (Und, AttributeError) as e:
        run.ob("R-block-scale", fi.qual, "block estimate", None, f"structure not recognised: {e}", file=f, node=store)
    return kinds[0] if ok_order(kinds) else None


def ok_order(kinds):
    return len(kinds) == 1 and kinds[0] in ("F", "C")


def consumers(prog, run, producer_order):
    fi = prog.func(FAST)
    f = rel(prog.mods[fi.mod].path)
    pf = astq.PrunedFn(fi, {"calc_unc": True})
    pos, _, _, _ = astq.params_of(fi.node)
    tname = "T" if "T" in pos + astq.params_of(fi.node)[1] else None
    used = []
    # products <something> . T: the left factor, written there or held in a name, is a Kronecker form
    krons = []
    for c in ast.walk(pf.node):
        left = None
        if isinstance(c, ast.Call) and astq.callee_name(prog, pf, c) in ("numpy.dot", "numpy.matmul") and len(c.args) == 2 and isinstance(c.args[1], ast.Name) and c.args[1].id == tname:
            left = c.args[0]
        elif isinstance(c, ast.BinOp) and isinstance(c.op, ast.MatMult) and isinstance(c.right, ast.Name) and c.right.id == tname:
            left = c.left
        if left is None:
            continue
        lx = astq.expr_at(pf, c, left) if isinstance(left, ast.Name) else left
        if isinstance(lx, ast.Call) and astq.callee_name(prog, pf, lx) == "numpy.kron" and len(lx.args) == 2:
            krons.append((lx, c))
    for k, site in krons:
        a0 = astq.expr_at(pf, site, k.args[0])
        a1 = astq.expr_at(pf, site, k.args[1])
        def is_eye(e):
            return isinstance(e, ast.Call) and astq.callee_name(prog, pf, e) in ("numpy.eye", "numpy.identity")
        vec, side = (a1, "eye-first") if is_eye(a0) else ((a0, "eye-second") if is_eye(a1) else (None, None))
        if vec is None:
            run.ob("R-vec-order", fi.qual, "Kronecker form", None, f"`{astq.src(k, 70)}`: no identity factor", file=f, node=k)
            continue
        parts = [svd_part(prog, pf, s) for s in ast.walk(vec) if isinstance(s, ast.Subscript)]
        parts = [p for p in parts if p is not None]
        if not parts:
            run.ob("R-vec-order", fi.qual, "Kronecker form", None, f"`{astq.src(vec, 60)}` not traced to an svd factor", file=f, node=k)
            continue
        which = "U" if parts[0] == 0 else "V"
        # kron(I, u^T) and kron(v^T, I) act on the column-stacked vec; the mirrored forms on the row-stacked one
        expects = "F" if (which == "U" and side == "eye-first") or (which == "V" and side == "eye-second") else "C"
        used.append(expects)
        ok = None if producer_order is None else expects == producer_order
        run.ob("R-vec-order", fi.qual, f"kron form with a {'left' if which == 'U' else 'right'} singular vector ({side})", ok,
               f"`{astq.src(k, 70)}` acts on vec_{expects}(H); the factor is built from vec_{producer_order}(H)", witness=f"expects {expects}, producer {producer_order}", file=f, node=k)
    if not used:
        run.ob("R-vec-order", fi.qual, "Kronecker forms applied to T", None, "no kron(...) . T product found in the uncertainty block", file=f)
    # orientation of the singular-vector selections used in the uncertainty block
    for name in ("Uom", "Vom"):
        pass
    sels = {}
    for n in ast.walk(pf.node):
        if isinstance(n, ast.Assign) and len(n.targets) == 1 and isinstance(n.targets[0], ast.Name):
            x = astq.expr_at(pf, n, n.value)
            o = orientation(prog, pf, x)
            if o is not None and n.targets[0].id not in sels:
                sels[n.targets[0].id] = (o, n, x)
    got = {0: None, 2: None}
    for nm, (o, n, x) in sels.items():
        k, selects_vectors, layout = o
        if k in got and got[k] is None:
            # keep the selections that are later indexed as [:, ii] (vector ii): require columns layout
            usedcols = any(isinstance(s, ast.Subscript) and isinstance(s.value, ast.Name) and s.value.id == nm and len(astq.index_elts(s)) == 2
                           and astq.is_full_slice(astq.index_elts(s)[0]) for s in ast.walk(pf.node))
            if not usedcols:
                continue
            got[k] = nm
            ok = selects_vectors and layout == "cols"
            run.ob("R-orientation", fi.qual, f"{'left' if k == 0 else 'right'} singular vectors as columns of `{nm}`", ok,
                   f"`{nm} = {astq.src(x, 60)}`: truncation keeps {'vectors' if selects_vectors else 'COMPONENTS'}, vectors end up in {layout}",
                   witness=f"{astq.src(n.value, 50)}", file=f, node=n)
    for k in (0, 2):
        if got[k] is None:
            run.ob("R-orientation", fi.qual, f"{'left' if k == 0 else 'right'} singular vectors", None, "selection of singular vectors used column-wise not found", file=f)


def var_slot(prog, run):
    fi = prog.func(POLES)
    f = rel(prog.mods[fi.mod].path)
    pf = astq.IndexedFn(astq.PrunedFn(fi, {"calc_unc": True}))
    rets = [n for n in ast.walk(pf.node) if isinstance(n, ast.Return) and isinstance(n.value, ast.Tuple) and len(n.value.elts) >= 5]
    rets = [n for n in rets if isinstance(n.value.elts[4], ast.Name)] or rets      # the return of the branch that computed the variances
    if not rets or not isinstance(rets[-1].value.elts[4], ast.Name):
        run.ob("R-var-slot", fi.qual, "returned variance table", None, "not found", file=f)
        return
    vname = astq.alias_root(pf.node, rets[-1].value.elts[4].id)
    st = [n for n in ast.walk(pf.node) if isinstance(n, ast.Assign) and isinstance(n.targets[0], ast.Subscript) and isinstance(n.targets[0].value, ast.Name) and n.targets[0].value.id == vname]
    if not st:
        run.ob("R-var-slot", fi.qual, "variance store", False, "the frequency variance table is never written", "missing", file=f)
        return
    n = st[0]
    x = astq.expr_at(pf, n, n.value)
    inner = astq.strip_abs(prog, pf, x) or x
    ok = None               # a value that is not written as an element of a product is not judged
    if isinstance(inner, ast.Subscript) and all(isinstance(e, ast.Constant) and isinstance(e.value, int) for e in astq.index_elts(inner)) and len(astq.index_elts(inner)) == 2:
        if [astq.src(e) for e in astq.index_elts(inner)] != ["0", "0"]:
            ok = False          # another element of the 2 x 2 covariance of (frequency, damping)
        else:
            try:
                A, B = product_operands(prog, pf, inner.value)
                ok = astq.dump(A) == astq.dump(B)
            except Und:
                ok = None
    run.ob("R-var-slot", fi.qual, "variance = |(U U^T)[0, 0]|", ok, f"`{astq.src(n.value, 60)}` = `{astq.src(x, 60)}`", astq.src(n.value, 60), file=f, node=n)
    el = astq.index_elts(n.targets[0])
    # (pole index = inner loop variable over the eigenvalues, order = outer loop variable)
    pm = astq.parent_map(pf.node)
    inner_loop = astq.enclosing(pm, n, (ast.For,))
    outer_loop = astq.enclosing(pm, inner_loop, (ast.For,)) if inner_loop is not None else None
    ok2 = len(el) == 2 and inner_loop is not None and outer_loop is not None and isinstance(el[0], ast.Name) and isinstance(inner_loop.target, ast.Name) \
        and el[0].id == inner_loop.target.id and isinstance(el[1], ast.Name) and isinstance(outer_loop.target, ast.Name) and el[1].id == outer_loop.target.id
    if not ok2:
        swapped = len(el) == 2 and inner_loop is not None and outer_loop is not None and isinstance(el[0], ast.Name) and isinstance(el[1], ast.Name) \
            and isinstance(inner_loop.target, ast.Name) and isinstance(outer_loop.target, ast.Name) and el[0].id == outer_loop.target.id and el[1].id == inner_loop.target.id
        ok2 = False if swapped else None        # only the two loop variables in the wrong order are recognisably wrong
    run.ob("R-var-slot", fi.qual, "stored at (pole, order)", ok2, f"`{astq.src(n.targets[0])}`", astq.src(n.targets[0]), file=f, node=n)


S = "functions.ssi"
MUTANTS = [
    ("C17-m01 row-major vectorisation of the full estimate", S, "build_hank", "Hvec0 = Hank.reshape(-1, 1, order='F')", "Hvec0 = Hank.reshape(-1, 1)"),
    ("C17-m02 row-major vectorisation of both", S, "build_hank", "Hcov_vec_k = Hcov_k.reshape(-1, 1, order='F')", "Hcov_vec_k = Hcov_k.reshape(-1, 1)"),
    ("C17-m03 columns of V^T taken as right singular vectors", S, "SSI_fast", "Vom = V1_t[:ordmax, :].T", "Vom = V1_t[:, :ordmax]"),
    ("C17-m04 block estimates not rescaled", S, "build_hank", "Hcov_k = np.dot(Yp_k, Ym_k.T) * N / Nb", "Hcov_k = np.dot(Yp_k, Ym_k.T) / Nb"),
    ("C17-m05 factor scaled by 1/nb", S, "build_hank", "np.sqrt(nb * (nb - 1))", "nb"),
    ("C17-m06 mirrored Kronecker form", S, "SSI_fast", "np.kron(np.eye(q * r), Uom[:, ii].T)", "np.kron(Uom[:, ii].T, np.eye(q * r))"),
    ("C17-m07 variance from the off-diagonal element", S, "SSI_poles", "Fn_cov[jj, ii] = abs(cov_fx[0, 0])", "Fn_cov[jj, ii] = abs(cov_fx[0, 1])"),
    ("C17-m08 variance stored transposed", S, "SSI_poles", "Fn_cov[jj, ii] = abs(cov_fx[0, 0])", "Fn_cov[ii, jj] = abs(cov_fx[0, 0])"),
    ("C17-m09 rows of U taken as left singular vectors", S, "SSI_fast", "Uom = U1[:, :ordmax]", "Uom = U1[:ordmax, :].T"),
    ("C17-m11 Gramian inverse hoisted out of the order loop", S, "SSI_poles", "OO = np.linalg.inv(np.dot(O_p.T, O_p))", "OO = np.linalg.inv(np.dot(Obs[:Obs.shape[0] - Nch, :].T, Obs[:Obs.shape[0] - Nch, :]))[:ii, :ii]"),
    ("C17-m10 block windows of different length", S, "build_hank", "Ym_k = Yp[:, k * Nb:(k + 1) * Nb]", "Ym_k = Yp[:, k * Nb:(k + 1) * Nb + 1]"),
]
REWRITES = [
    ("rename:C17-r01", S, "build_hank", "Hvec0", "h_full"),
    ("C17-r02 transposed-then-sliced", S, "SSI_fast", "Vom = V1_t[:ordmax, :].T", "Vom = V1_t.T[:, :ordmax]"),
    ("C17-r03 scale factor as one quotient", S, "build_hank", "Hcov_k = np.dot(Yp_k, Ym_k.T) * N / Nb", "Hcov_k = np.dot(Yp_k, Ym_k.T) * (N / Nb)"),
    ("C17-r04 lower-case order", S, "build_hank", "Hvec0 = Hank.reshape(-1, 1, order='F')", "Hvec0 = Hank.reshape(-1, 1, order='f')"),
]
