"""C19 - geometry tables are validated, aligned to sensor order and mapped faithfully.

Decided (structural, in gen.check_on_geo1 / check_on_geo2 and GeometryMixin.def_geo1 / def_geo2):
R-guard - every read of an OPTIONAL sheet (all_sheets minus required_sheets, both taken from the code) happens under a presence test,
after the default-filling loop or after a store on every path ('every optional sheet may be omitted');
R-zero-base - every sheet that holds one-based indices (line / surface sheets of all_sheets) is in the list shifted by .sub(1);
R-reindex - sensor coordinates and directions are re-indexed by the flattened sensor names and the returned values are the re-indexed ones;
the constraint matrix columns are re-ordered to the sensor names;  R-raise - every validation raise is ValueError;
R-attr - every attribute used on a table exists on every type the def_geo1/def_geo2 signature documents for it.
Not decided: coordinates drawn by the plotters, values produced by dfphi_map_func.
"""
import ast

from .. import astq
from ..program import FuncInfo,  rel, AnalysisError

GEO = ["functions.gen.check_on_geo1", "functions.gen.check_on_geo2"]
CUR = {}


def const_list(fi, name):
    """value of a local that is a list literal or `other_list + [..]` of string constants"""
    ov = CUR.get("lists", {}).get((fi.qual, name))
    if ov is not None:
        return list(ov)         # a parameter of a helper, bound to a constant list at the call that is being followed
    amap = astq.assignments(fi)
    d = astq.unique_def(amap, name)
    if d is None:
        return None

    def ev(e):
        if isinstance(e, (ast.List, ast.Tuple)) and all(isinstance(x, ast.Constant) for x in e.elts):
            return [x.value for x in e.elts]
        if isinstance(e, ast.BinOp) and isinstance(e.op, ast.Add):
            a, b = ev(e.left), ev(e.right)
            return a + b if a is not None and b is not None else None
        if isinstance(e, ast.Name):
            return const_list(fi, e.id)
        return None
    return ev(d)


def sheet_lists_from_guards(fi, d):
    """(required sheets, all sheets) read off the guards of a validation function whose sheet dictionary is parameter d"""
    def names_of(e):
        if isinstance(e, (ast.List, ast.Tuple, ast.Set)) and e.elts and all(isinstance(x, ast.Constant) and isinstance(x.value, str) for x in e.elts):
            return [x.value for x in e.elts]
        if isinstance(e, ast.Name):
            return const_list(fi, e.id)
        return None
    req = alls = None
    for n in ast.walk(fi.node):
        if isinstance(n, ast.If) and any(isinstance(x, ast.Raise) for x in n.body):
            t = n.test
            if isinstance(t, ast.UnaryOp) and isinstance(t.op, ast.Not) and isinstance(t.operand, ast.Call) and isinstance(t.operand.func, ast.Name) \
                    and t.operand.func.id == "all" and len(t.operand.args) == 1 and req is None:
                a = t.operand.args[0]
                if isinstance(a, (ast.GeneratorExp, ast.ListComp)) and len(a.generators) == 1 and isinstance(a.elt, ast.Compare) and len(a.elt.ops) == 1 \
                        and isinstance(a.elt.ops[0], ast.In) and isinstance(a.elt.comparators[0], ast.Name) and a.elt.comparators[0].id == d:
                    req = names_of(a.generators[0].iter)
                elif isinstance(a, (ast.Tuple, ast.List)) and a.elts and all(
                        isinstance(x, ast.Compare) and len(x.ops) == 1 and isinstance(x.ops[0], ast.In) and isinstance(x.left, ast.Constant)
                        and isinstance(x.comparators[0], ast.Name) and x.comparators[0].id == d for x in a.elts):
                    req = [x.left.value for x in a.elts]
            if isinstance(t, ast.Compare) and len(t.ops) == 1 and isinstance(t.ops[0], ast.NotIn) and isinstance(t.left, ast.Name) and alls is None:
                cand = names_of(t.comparators[0])
                if cand and len(cand) >= 3:
                    alls = cand
    return req, alls


def dict_param(fi):
    return astq.params_of(fi.node)[0][0]


def key_of(e, d, loopkeys):
    """if e is d[K] return (K or loop-variable name, is_constant)"""
    if isinstance(e, ast.Subscript) and isinstance(e.value, ast.Name) and e.value.id == d:
        if isinstance(e.slice, ast.Constant) and isinstance(e.slice.value, str):
            return e.slice.value, True
        if isinstance(e.slice, ast.Name) and e.slice.id in loopkeys:
            return e.slice.id, False
    return None


def _param_names(m, dict_node, v, params):
    """the method parameters a dict value is made of (local names for `X if X is not None else empty` written out)"""
    names = [z.id for z in ast.walk(v) if isinstance(z, ast.Name) and z.id in params]
    if names:
        return names
    try:
        import copy as _copy
        pm = astq.parent_map(m.node)
        st = astq.enclosing(pm, dict_node, (ast.stmt,))
        if st is not None:
            x = astq.expr_at(m, st, _copy.deepcopy(v))
            return [z.id for z in ast.walk(x) if isinstance(z, ast.Name) and z.id in params]
    except Exception:
        pass
    return []


def presence_tests(test, d, fi=None, at=None):
    """keys (constants or variable names) known present when `test` is TRUE / known present when it is FALSE"""
    t_true, t_false = set(), set()
    if fi is not None and at is not None and any(isinstance(n, ast.Name) and n.id != d for n in ast.walk(test)):
        # local names for `d.get(K)` (df = d.get(K); if df is not None ...) are written out
        try:
            import copy as _copy
            x = astq.expr_at(fi, at, _copy.deepcopy(test), keep=(d,))
            if any(isinstance(n, ast.Attribute) and n.attr == "get" and isinstance(n.value, ast.Name) and n.value.id == d for n in ast.walk(x)):
                test = x
        except Exception:
            pass
    if astq.PROG is not None and CUR.get("fi") is not None and any(isinstance(n, ast.Call) and isinstance(n.func, ast.Name) for n in ast.walk(test)):
        # a helper predicate such as _wrong_ncols(d, K, 3): decide on its inlined body
        try:
            test = astq.fold(astq.inline_calls(astq.PROG, CUR["fi"], test))
        except Exception:
            pass
    if isinstance(test, ast.UnaryOp) and isinstance(test.op, ast.Not):
        a, b = presence_tests(test.operand, d, fi, at)
        return b, a

    def atom(e):
        # d.get(K) is not None / K in d   -> present when true ;   d.get(K) is None / K not in d -> present when false
        if isinstance(e, ast.Compare) and len(e.ops) == 1:
            l, r, op = e.left, e.comparators[0], e.ops[0]
            if isinstance(l, ast.Call) and isinstance(l.func, ast.Attribute) and l.func.attr == "get" and isinstance(l.func.value, ast.Name) and l.func.value.id == d \
                    and l.args and isinstance(r, ast.Constant) and r.value is None:
                k = l.args[0].value if isinstance(l.args[0], ast.Constant) else (l.args[0].id if isinstance(l.args[0], ast.Name) else None)
                if k is not None:
                    return (k, isinstance(op, ast.IsNot))
            if isinstance(r, ast.Name) and r.id == d and isinstance(op, (ast.In, ast.NotIn)):
                k = l.value if isinstance(l, ast.Constant) else (l.id if isinstance(l, ast.Name) else None)
                if k is not None:
                    return (k, isinstance(op, ast.In))
        return None
    if isinstance(test, ast.BoolOp) and isinstance(test.op, ast.And):
        for v in test.values:
            a = atom(v)
            if a and a[1]:
                t_true.add(a[0])
    elif isinstance(test, ast.BoolOp) and isinstance(test.op, ast.Or):
        for v in test.values:
            a = atom(v)
            if a and not a[1]:
                t_false.add(a[0])
    else:
        a = atom(test)
        if a:
            (t_true if a[1] else t_false).add(a[0])
    return t_true, t_false


def reads_in_expr(e, d, loopkeys, present, out, node_stmt):
    """collect reads d[K] in expression e that are not guarded; short-circuit operators extend the guard left to right"""
    if isinstance(e, ast.BoolOp):
        cur = set(present)
        for v in e.values:
            reads_in_expr(v, d, loopkeys, cur, out, node_stmt)
            tt, tf = presence_tests(v, d)
            if isinstance(e.op, ast.And):
                cur |= tt
            else:
                cur |= tf
        return
    if isinstance(e, ast.IfExp):
        tt, tf = presence_tests(e.test, d)
        reads_in_expr(e.test, d, loopkeys, present, out, node_stmt)
        reads_in_expr(e.body, d, loopkeys, set(present) | tt, out, node_stmt)
        reads_in_expr(e.orelse, d, loopkeys, set(present) | tf, out, node_stmt)
        return
    k = key_of(e, d, loopkeys)
    if k is not None and isinstance(e.ctx, ast.Load):
        out.append((k[0], k[1], k[0] in present, e))
    if isinstance(e, (ast.ListComp, ast.GeneratorExp, ast.SetComp, ast.DictComp)):
        # comprehension variable running over a constant list of sheet names: every name of the list is read
        comp_keys = {}
        for g in e.generators:
            if isinstance(g.target, ast.Name):
                ks = None
                if isinstance(g.iter, (ast.List, ast.Tuple)) and all(isinstance(x, ast.Constant) for x in g.iter.elts):
                    ks = [x.value for x in g.iter.elts]
                elif isinstance(g.iter, ast.Name) and CUR.get("fi") is not None:
                    ks = const_list(CUR["fi"], g.iter.id)
                if ks is not None:
                    comp_keys[g.target.id] = ks
        for c in ast.iter_child_nodes(e):
            for x in ast.walk(c):
                kk = key_of(x, d, set(loopkeys) | set(comp_keys))
                if kk is not None and isinstance(x.ctx, ast.Load):
                    if not kk[1] and kk[0] in comp_keys:
                        for k in comp_keys[kk[0]]:
                            out.append((k, True, k in present, x))
                    else:
                        out.append((kk[0], kk[1], kk[0] in present, x))
        return
    for c in ast.iter_child_nodes(e):
        if isinstance(c, ast.expr):
            reads_in_expr(c, d, loopkeys, present, out, node_stmt)
        elif isinstance(c, (ast.keyword, ast.comprehension)):
            for cc in ast.iter_child_nodes(c):
                if isinstance(cc, ast.expr):
                    reads_in_expr(cc, d, loopkeys, present, out, node_stmt)


def walk_block(fi, body, d, present, optional, all_sheets, out, loopkeys):
    """forward pass: `present` = keys definitely present; returns the present set after the block"""
    present = set(present)
    for s in body:
        if isinstance(s, ast.If):
            reads_in_expr(s.test, d, loopkeys, present, out, s)
            tt, tf = presence_tests(s.test, d, fi, s)
            p1 = walk_block(fi, s.body, d, present | tt, optional, all_sheets, out, loopkeys)
            p2 = walk_block(fi, s.orelse, d, present | tf, optional, all_sheets, out, loopkeys)
            ends1 = any(isinstance(x, (ast.Raise, ast.Return)) for x in s.body[-1:])
            ends2 = bool(s.orelse) and any(isinstance(x, (ast.Raise, ast.Return)) for x in s.orelse[-1:])
            if ends1 and not ends2:
                present = p2
            elif ends2 and not ends1:
                present = p1
            else:
                present = p1 & p2
        elif isinstance(s, ast.For):
            reads_in_expr(s.iter, d, loopkeys, present, out, s)
            lk = set(loopkeys)
            keys_iter = None
            if isinstance(s.target, ast.Name):
                it = s.iter
                if isinstance(it, (ast.List, ast.Tuple)) and all(isinstance(x, ast.Constant) for x in it.elts):
                    keys_iter = [x.value for x in it.elts]
                elif isinstance(it, ast.Name):
                    keys_iter = const_list(fi, it.id)
                    if it.id == d:
                        keys_iter = "dict-keys"
                lk.add(s.target.id)
            inner_present = set(present)
            if isinstance(s.target, ast.Tuple) and isinstance(s.iter, ast.Call) and isinstance(s.iter.func, ast.Attribute) and s.iter.func.attr == "items" \
                    and isinstance(s.iter.func.value, ast.Name) and s.iter.func.value.id == d and isinstance(s.target.elts[0], ast.Name):
                lk.add(s.target.elts[0].id)
                inner_present.add(s.target.elts[0].id)
            if keys_iter == "dict-keys":
                inner_present.add(s.target.id)
            p_after = walk_block(fi, s.body, d, inner_present, optional, all_sheets, out, lk)
            # default-filling idiom: for key in L: if key not in d: d[key] = ...
            if isinstance(keys_iter, list) and isinstance(s.target, ast.Name) and s.target.id in p_after:
                present |= set(keys_iter)
        elif isinstance(s, (ast.While, ast.With, ast.Try)):
            for sub in (getattr(s, "body", []), getattr(s, "orelse", []), getattr(s, "finalbody", [])):
                walk_block(fi, sub, d, present, optional, all_sheets, out, loopkeys)
        else:
            for n in ast.iter_child_nodes(s):
                if isinstance(n, ast.expr):
                    reads_in_expr(n, d, loopkeys, present, out, s)
            # a package helper that receives the dict: its body is walked with the presence facts of the call site, and what it
            # establishes (default filling, stores) holds after the call
            for c in [x for x in ast.walk(s) if isinstance(x, ast.Call)]:
                hp = _helper_with_dict(fi, c, d)
                if hp is not None:
                    callee, dparam = hp
                    present = walk_block(callee, callee.node.body, dparam, present, optional, all_sheets, out, set())
            if isinstance(s, ast.Assign):
                for t in s.targets:
                    k = key_of(t, d, loopkeys)
                    if k is not None:
                        present.add(k[0])
            if isinstance(s, ast.Expr) and isinstance(s.value, ast.Call) and isinstance(s.value.func, ast.Attribute) and s.value.func.attr == "setdefault" \
                    and isinstance(s.value.func.value, ast.Name) and s.value.func.value.id == d and len(s.value.args) == 2:
                a0 = s.value.args[0]
                if isinstance(a0, ast.Constant):
                    present.add(a0.value)
                elif isinstance(a0, ast.Name) and a0.id in loopkeys:
                    present.add(a0.id)
    return present


def _list_value(fi, e):
    """constant list value of an argument expression (literal, sum of lists, name of a constant list)"""
    if isinstance(e, (ast.List, ast.Tuple)) and all(isinstance(x, ast.Constant) for x in e.elts):
        return [x.value for x in e.elts]
    if isinstance(e, ast.BinOp) and isinstance(e.op, ast.Add):
        a, b = _list_value(fi, e.left), _list_value(fi, e.right)
        return a + b if a is not None and b is not None else None
    if isinstance(e, ast.Name):
        return const_list(fi, e.id)
    return None


def _helper_with_dict(fi, call, d, _depth=[0]):
    """(callee, name of its dict parameter) when `call` hands the sheet dict `d` to a package function; the callee's parameters that
    receive constant sheet-name lists are recorded so that its loops over them can be followed"""
    prog = astq.PROG
    if prog is None or _depth[0] > 3:
        return None
    try:
        r = prog.resolve_call(fi, call)
    except Exception:
        return None
    if not isinstance(r, FuncInfo) or r.node is fi.node or r.cls is not None:
        return None
    m, errs = astq.bind_args(r.node, call)
    dparam = [p_ for p_, a_ in m.items() if isinstance(a_, ast.Name) and a_.id == d]
    if len(dparam) != 1 or errs:
        return None
    # never re-bound in the helper
    if any(isinstance(n, ast.Name) and n.id == dparam[0] and isinstance(n.ctx, ast.Store) for n in ast.walk(r.node)):
        return None
    for p_, a_ in m.items():
        if isinstance(a_, ast.AST):
            v = _list_value(fi, a_)
            if v is not None:
                CUR.setdefault("lists", {})[(r.qual, p_)] = v
    CUR.setdefault("scopes", []).append((r, dparam[0]))
    return r, dparam[0]


def display_rule(prog, run):
    """R-display: in Geo2MplPlotter.plot_mode every artist that belongs to the sensors (markers, lines, surfaces) is drawn at the DISPLACED
    points `pts_coord + mapped value x sign`: the coordinate table that reaches plt_nodes / plt_lines / plt_surf - directly or through
    a helper of the plotter - contains that sum, not the undeformed `pts_coord` alone (which is right only for the background and
    for the `initial_coord` colouring argument).  The displacement itself = mapped value x sign."""
    run.rule("R-display", "plot_mode (geo2): markers, lines and surfaces are drawn at pts_coord + dfphi_map x sens_sign, through any helper", 3)
    try:
        ci = prog.cls("support.geometry.mpl_plotter.Geo2MplPlotter")
    except Exception:
        run.ob("R-display", "pyoma2.support.geometry.mpl_plotter", "plotter", None, "Geo2MplPlotter not found")
        return
    m = ci.methods.get("plot_mode")
    if m is None:
        run.ob("R-display", ci.qual, "plot_mode", None, "no plot_mode method")
        return
    f = rel(prog.mods[m.mod].path)
    n = 0
    for fn_ in ("plt_nodes", "plt_lines", "plt_surf"):
        callee = prog.func("functions.plot." + fn_)
        coord = astq.params_of(callee.node)[0][1]
        for rec in astq.forwarded_args(prog, m, callee.qual, depth=2):
            a = rec["args"].get(coord)
            c = rec["outer_call"]
            tbl = rec["args"].get(astq.params_of(callee.node)[0][2]) if fn_ != "plt_nodes" else None
            # background tables are drawn undeformed by design
            if tbl is not None and "bg_" in astq.src(tbl).lower():
                continue
            if a is not None and "bg_" in astq.src(a).lower():
                continue
            n += 1
            if a is None:
                run.ob("R-display", m.qual, f"{fn_}: coordinates", None, "coordinate argument not expressible in plot_mode", file=f, node=c)
                continue
            txt = astq.src(a, 160)
            has_pts = "pts_coord" in txt
            sums = [b for b in ast.walk(a) if isinstance(b, ast.BinOp) and isinstance(b.op, ast.Add)]
            displaced = has_pts and any("pts_coord" in astq.src(b.left, 200) + astq.src(b.right, 200) and ("dfphi_map" in astq.src(b, 400) or "Phi" in astq.src(b, 400)) for b in sums)
            ok = True if displaced else (False if has_pts else None)
            via = "" if len(rec["chain"]) == 1 else f" (through {' -> '.join(rec['chain'][1:])})"
            run.ob("R-display", m.qual, f"{fn_}: drawn at the displaced points", ok,
                   f"`{fn_}(.., {astq.src(a, 70)}, ..)`{via}" + ("" if ok is not False else ": the UNDEFORMED point table is drawn - the mode shape is not shown on these artists"),
                   witness=f"{fn_}:{astq.src(a, 50)}", file=f, node=c, config=f"{fn_}#{n}")
            if displaced:
                sign_ok = any("sens_sign" in astq.src(b, 400) for b in sums)
                run.ob("R-display", m.qual, f"{fn_}: displacement = mapped value x sign", sign_ok, f"`{txt[:120]}`", witness="sign", file=f, node=c, config=f"{fn_}#{n}s")
    if not n:
        run.ob("R-display", m.qual, "drawing calls", None, "no plt_nodes / plt_lines / plt_surf call reachable from plot_mode", file=f)
    # np.vectorize without otypes takes its output dtype from the FIRST element: an integer first cell truncates every mapped value
    run.rule("R-map-dtype", "cell-wise substitution in dfphi_map_func is dtype-safe (DataFrame.replace / vectorize with otypes / explicit loop)", 1)
    mf = prog.func("functions.gen.dfphi_map_func")
    ff = rel(prog.mods[mf.mod].path)
    bad = [c for c in ast.walk(mf.node) if isinstance(c, ast.Call) and astq.callee_name(prog, mf, c) == "numpy.vectorize" and astq.kwarg(c, "otypes") is None]
    for c in bad:
        run.ob("R-map-dtype", mf.qual, "np.vectorize declares its output type", False,
               f"`{astq.src(c, 60)}`: without `otypes` numpy takes the output dtype from the first cell - an integer 0 there makes every mapped value an integer", witness=astq.src(c, 50), file=ff, node=c)
    if not bad:
        run.ob("R-map-dtype", mf.qual, "cell-wise substitution", True, "no dtype-by-first-element mechanism", file=ff, node=mf.node)


def check(prog, run):
    run.rule("R-guard", "every read of an optional sheet is under a presence test / after the default-filling loop / after a store on every path", 10)
    run.rule("R-zero-base", "all line/surface index sheets of all_sheets are shifted to zero-based indices", 2)
    run.rule("R-reindex", "coordinates/directions re-indexed by the flattened sensor names and returned re-indexed; constraint columns re-ordered to the names", 4)
    run.rule("R-raise", "every raise in the validation functions is ValueError", 2)
    run.rule("R-attr", "attributes used on a table exist on every documented argument type of def_geo1 / def_geo2", 2)
    for q in GEO:
        fi = prog.func(q)
        f = rel(prog.mods[fi.mod].path)
        d = dict_param(fi)
        CUR["fi"] = fi
        CUR["lists"], CUR["scopes"] = {}, []
        req = const_list(fi, "required_sheets")
        alls = const_list(fi, "all_sheets")
        if req is None or alls is None:
            # not kept in locals of those names: read them off the two guards that use them - `if not all(s in d for s in REQUIRED): raise`
            # and `for s in d: if s not in ALL: raise` (after normalisation the lists are written out where they are used)
            req2, alls2 = sheet_lists_from_guards(fi, d)
            req = req if req is not None else req2
            alls = alls if alls is not None else alls2
        if req is None or alls is None:
            raise AnalysisError(f"anchor lost: required_sheets / all_sheets lists in {q}")
        optional = [k for k in alls if k not in req]
        out = []
        # required sheets are present once the `all(sheet in d for sheet in required_sheets)` guard has raised
        walk_block(fi, fi.node.body, d, set(req), optional, alls, out, set())
        seen = set()
        for key, is_const, guarded, node in out:
            if is_const and key not in optional:
                continue
            if not is_const:
                # variable key: must be guarded itself
                ident = (key, "var", node.lineno)
            else:
                ident = (key, "const", node.lineno)
            if ident in seen:
                continue
            seen.add(ident)
            role = f"read of optional sheet '{key}'" if is_const else f"read through loop variable `{key}`"
            run.ob("R-guard", fi.qual, role, guarded, f"`{astq.src(node)}` " + ("is guarded / the key is present on every path" if guarded else
                   "is read although the sheet may be absent: tables without this optional sheet raise KeyError"), witness="unguarded", file=f, node=node, config=f"line-order#{len(seen)}")
        # R-zero-base
        idx_sheets = [k for k in alls if ("lines" in k or "surfaces" in k)]
        shifted = set()

        def is_shift(e):
            """X.sub(1) / X.subtract(1) / X - 1 / np.subtract(X, 1)"""
            one = lambda a: isinstance(a, ast.Constant) and a.value == 1 and not isinstance(a.value, bool)
            if isinstance(e, ast.Call) and isinstance(e.func, ast.Attribute) and e.func.attr in ("sub", "subtract") and e.args and one(e.args[0]):
                return True
            if isinstance(e, ast.BinOp) and isinstance(e.op, ast.Sub) and one(e.right):
                return True
            if isinstance(e, ast.Call) and astq.callee_name(prog, fi, e) == "numpy.subtract" and len(e.args) == 2 and one(e.args[1]):
                return True
            return False
        scopes, seen_sc = [(fi, d)], {fi.qual}
        for sf, sd in CUR.get("scopes", []):
            if sf.qual not in seen_sc:
                seen_sc.add(sf.qual)
                scopes.append((sf, sd))
        for sfi, sd in scopes:
            pmap = astq.parent_map(sfi.node)
            for n in ast.walk(sfi.node):
                hit = (isinstance(n, ast.Assign) and is_shift(n.value)) or (isinstance(n, ast.AugAssign) and isinstance(n.op, ast.Sub) and isinstance(n.value, ast.Constant) and n.value.value == 1)
                if not hit:
                    continue
                tgt = n.targets[0] if isinstance(n, ast.Assign) else n.target
                if not (isinstance(tgt, ast.Subscript) and isinstance(tgt.value, ast.Name) and tgt.value.id == sd):
                    continue
                if isinstance(tgt.slice, ast.Constant):
                    shifted.add(tgt.slice.value)
                elif isinstance(tgt.slice, ast.Name):
                    loop = astq.enclosing(pmap, n, (ast.For,))
                    while loop is not None and not (isinstance(loop.target, ast.Name) and loop.target.id == tgt.slice.id):
                        loop = astq.enclosing(pmap, loop, (ast.For,))
                    if loop is not None:
                        ks = [x.value for x in loop.iter.elts if isinstance(x, ast.Constant)] if isinstance(loop.iter, (ast.List, ast.Tuple)) else \
                            (const_list(sfi, loop.iter.id) if isinstance(loop.iter, ast.Name) else None)
                        shifted |= set(ks or [])
        missing = [k for k in idx_sheets if k not in shifted]
        run.ob("R-zero-base", fi.qual, "index sheets shifted by one", (not missing) if shifted else None, f"index sheets {idx_sheets}; shifted {sorted(shifted)}" + ("" if not missing else f"; NOT shifted: {missing}"),
               witness=str(missing), file=f, node=fi.node)
        extra = [k for k in shifted if k not in idx_sheets]
        run.ob("R-zero-base", fi.qual, "only index sheets are shifted", not extra, f"shifted {sorted(shifted)}", witness=str(extra), file=f, node=fi.node)
        # R-raise
        raises = [n for n in ast.walk(fi.node) if isinstance(n, ast.Raise)]
        kinds = [astq.src(r.exc.func) if isinstance(r.exc, ast.Call) else astq.src(r.exc) if r.exc is not None else "re-raise" for r in raises]
        bad = sorted({k for k in kinds if k != "ValueError"})
        run.ob("R-raise", fi.qual, "validation raises ValueError", bool(raises) and not bad, f"{len(raises)} raise statements" + (f", other exception types: {bad}" if bad else ""), witness=str(bad), file=f, node=fi.node)
    reindex(prog, run)
    run.rule("R-validated", "Geometry1/Geometry2 are built from the tables returned by check_on_geo1/2 (validated, normalised, re-indexed), keyword by keyword", 10)
    validated(prog, run)
    normalised_returned(prog, run)
    attr_rule(prog, run)
    display_rule(prog, run)
    try:
        from .. import seqsig
    except ImportError:
        seqsig = None
    if seqsig:
        run.rule("R-order", "flattened multi-setup sensor names: REF1..k then each setup's non-reference names in setup order - the row order of merged mode shapes", 1)
        seqsig.order_obligations(prog, run, "R-order", which=("flatten", "merge"))


def reindex(prog, run):
    fi = prog.func(GEO[0])
    f = rel(prog.mods[fi.mod].path)
    rets = [n for n in ast.walk(fi.node) if isinstance(n, ast.Return) and isinstance(n.value, ast.Tuple)]
    if not rets:
        raise AnalysisError("anchor lost: check_on_geo1 return tuple")
    r = rets[-1]
    names_e = astq.expr_at(fi, r, r.value.elts[0])
    okn = isinstance(names_e, ast.Call) and astq.callee_name(prog, fi, names_e).endswith("flatten_sns_names")
    run.ob("R-reindex", fi.qual, "sensor names are the flattened names", okn, f"`{astq.src(names_e, 60)}`", witness=astq.src(names_e, 60), file=f, node=r)
    for pos, sheet in ((1, "sensors coordinates"), (2, "sensors directions")):
        x = astq.expr_at(fi, r, r.value.elts[pos])
        calls = [c for c in ast.walk(x) if isinstance(c, ast.Call) and isinstance(c.func, ast.Attribute) and c.func.attr in ("reindex", "loc")]
        ok = False
        why = astq.src(x, 90)
        for c in calls:
            idx = astq.kwarg(c, "index", 0)
            base_ok = sheet in astq.src(c.func.value, 200)
            idx_ok = idx is not None and isinstance(idx, ast.Call) and astq.callee_name(prog, fi, idx).endswith("flatten_sns_names")
            if base_ok and idx_ok:
                ok = True
        if not ok:
            # re-ordering by POSITION: table.to_numpy()[table.index.get_indexer(names)] takes, for each name in turn, the row of the table that
            # carries it.  The reverse call - Index(names).get_indexer(table.index) - gives for each ROW its place among the names: used as a
            # gather index it applies the inverse permutation (right only for permutations that are their own inverse)
            gi = [c for c in ast.walk(x) if isinstance(c, ast.Call) and isinstance(c.func, ast.Attribute) and c.func.attr == "get_indexer" and len(c.args) == 1]
            verdicts = []
            for c in gi:
                recv, arg = astq.src(c.func.value, 300), c.args[0]
                arg_names = isinstance(arg, ast.Call) and astq.callee_name(prog, fi, arg).endswith("flatten_sns_names")
                recv_names = "flatten_sns_names" in recv
                recv_table = sheet in recv and ".index" in recv
                arg_table = sheet in astq.src(arg, 300)
                if recv_table and arg_names and not recv_names:
                    verdicts.append(True)
                elif recv_names and arg_table:
                    verdicts.append(False)
            if verdicts:
                ok = all(verdicts)
                if not ok:
                    why = why + " - the positions of the table's rows among the names, used to gather rows: the inverse of the re-ordering"
            elif not calls:
                ok = None if gi or "flatten_sns_names" in astq.src(x, 2000) else False
        run.ob("R-reindex", fi.qual, f"returned '{sheet}' is re-indexed by the sensor names", ok, f"`{why}`", witness=why[:80], file=f, node=r)
    fi2 = prog.func(GEO[1])
    f2 = rel(prog.mods[fi2.mod].path)
    d = dict_param(fi2)
    ok = False
    recognised_other = False
    why = "no store of the re-ordered constraint table"
    for n in ast.walk(fi2.node):
        if isinstance(n, ast.Assign):
            for t in n.targets:
                k = key_of(t, d, set())
                if k and k[0] == "constraints":
                    v = astq.expr_at(fi2, n, n.value)
                    if isinstance(v, ast.Call) and astq.src(v.func) in ("pd.DataFrame", "pandas.DataFrame") and not v.args:
                        continue                        # the empty default of a missing sheet
                    if not recognised_other:
                        why = astq.src(v, 90)
                    if isinstance(v, ast.Subscript) and isinstance(v.slice, ast.Call) and astq.callee_name(prog, fi2, v.slice).endswith("flatten_sns_names"):
                        ok = True
                    if isinstance(v, ast.Call) and isinstance(v.func, ast.Attribute) and v.func.attr == "reindex":
                        # the new column labels ARE the sensor names (not merely an expression that mentions them)
                        lab = astq.kwarg(v, "columns")
                        if lab is None and v.args and isinstance(astq.kwarg(v, "axis"), ast.Constant) and astq.kwarg(v, "axis").value in (1, "columns"):
                            lab = v.args[0]
                        lab = astq.uncoerce(lab) if lab is not None else None
                        if isinstance(lab, ast.Call) and astq.callee_name(prog, fi2, lab).endswith("flatten_sns_names"):
                            ok = True
                        elif lab is not None and "flatten_sns_names" in astq.src(lab, 2000):
                            own_first = isinstance(lab, ast.BinOp) and isinstance(lab.op, ast.Add) and ".columns" in astq.src(lab.left, 2000)
                            ok = False if own_first else None
                            recognised_other = own_first
                            why = f"`{astq.src(v, 120)}`: the new column order is " + ("the table's OWN columns followed by the sensors it lacks, not the order of the sensor names" if own_first
                                                                                         else "an expression in the sensor names that this rule does not read")
    if not ok and not recognised_other:
        # the re-ordering done only when needed: `if <columns differ from the names>: X = X.reindex(columns=names)`.  Skipping it is right
        # exactly when the guard being false means the columns ARE the names, in that order; a guard that only asks whether a name is
        # missing (sets, lengths) is also false for a complete table in another order
        ok, why2 = None, None
        for ifn in ast.walk(fi2.node):
            if not (isinstance(ifn, ast.If) and not ifn.orelse):
                continue
            for st in ifn.body:
                if not (isinstance(st, ast.Assign) and len(st.targets) == 1 and isinstance(st.targets[0], ast.Name)):
                    continue
                v = st.value
                tname = st.targets[0].id
                names_e = None
                if isinstance(v, ast.Call) and isinstance(v.func, ast.Attribute) and v.func.attr == "reindex" and isinstance(v.func.value, ast.Name) and v.func.value.id == tname:
                    names_e = astq.kwarg(v, "columns")
                elif isinstance(v, ast.Subscript) and isinstance(v.value, ast.Name) and v.value.id == tname and isinstance(v.slice, (ast.Name, ast.Call)):
                    names_e = v.slice
                if names_e is None or "flatten_sns_names" not in astq.src(astq.expr_at(fi2, ifn, names_e), 400):
                    continue
                g = astq.expr_at(fi2, ifn, ifn.test)
                gt = astq.src(g, 2000)
                nt = astq.src(astq.expr_at(fi2, ifn, names_e), 2000)
                ordered = False
                for c in ast.walk(g):
                    if isinstance(c, ast.Compare) and len(c.ops) == 1 and isinstance(c.ops[0], ast.NotEq):
                        a_, b_ = astq.src(c.left, 2000), astq.src(c.comparators[0], 2000)
                        if (".columns" in a_ and b_ == nt) or (".columns" in b_ and a_ == nt):
                            ordered = True
                blind = any(isinstance(c, ast.Call) and astq.src(c.func).split(".")[-1] in astq._ORDER_BLIND for c in ast.walk(g)) or \
                    any(isinstance(c, (ast.Set, ast.SetComp)) for c in ast.walk(g)) or \
                    any(isinstance(c, ast.Compare) and any(isinstance(o, (ast.In, ast.NotIn)) for o in c.ops) for c in ast.walk(g))
                if ordered:
                    ok, why2 = True, f"`{astq.src(st, 70)}` unless the columns already are the names in that order (`{astq.src(ifn.test, 50)}`)"
                elif blind and not any(isinstance(c, ast.Compare) and isinstance(c.ops[0], (ast.NotEq, ast.Eq)) and ".columns" in astq.src(c, 2000) and not
                                       any(isinstance(x, ast.Call) and astq.src(x.func).split(".")[-1] in astq._ORDER_BLIND for x in ast.walk(c)) for c in ast.walk(g)):
                    ok, why2 = False, (f"`{astq.src(st, 70)}` is skipped when `{astq.src(ifn.test, 60)}` is false - a test on membership / counts only: a constraint table that "
                                       f"names every sensor in another order keeps its own column order")
                else:
                    ok, why2 = None, f"`{astq.src(st, 70)}` under `{astq.src(ifn.test, 60)}`: guard not read"
        if why2:
            why = why2
    run.ob("R-reindex", fi2.qual, "constraint columns re-ordered to the sensor names", ok, f"`{why}`", witness=why[:80], file=f2)


def _first_sheet(e, dname):
    """the sheet an expression is derived from: the `d['<sheet>']` at the bottom of its spine (X.reindex(..) -> X, X[..] -> X, X.values -> X,
    f(X, ..) -> X), else the first `d['<sheet>']` read anywhere in it"""
    cur = e
    for _ in range(40):
        if isinstance(cur, ast.Subscript) and isinstance(cur.value, ast.Name) and cur.value.id == dname and isinstance(cur.slice, ast.Constant) and isinstance(cur.slice.value, str):
            return cur.slice.value
        if isinstance(cur, ast.Call) and isinstance(cur.func, ast.Attribute) and cur.func.attr == "get" and isinstance(cur.func.value, ast.Name) and cur.func.value.id == dname \
                and cur.args and isinstance(cur.args[0], ast.Constant) and isinstance(cur.args[0].value, str):
            return cur.args[0].value
        if isinstance(cur, ast.Call) and len(cur.args) >= 2 and isinstance(cur.args[0], ast.Name) and cur.args[0].id == dname and isinstance(cur.args[1], ast.Constant) \
                and isinstance(cur.args[1].value, str):
            return cur.args[1].value            # a helper handed the dictionary and the name of the sheet it reads
        if isinstance(cur, ast.Subscript):
            cur = cur.value
        elif isinstance(cur, ast.Attribute):
            cur = cur.value
        elif isinstance(cur, ast.Call) and isinstance(cur.func, ast.Attribute):
            cur = cur.func.value
        elif isinstance(cur, ast.Call) and cur.args:
            cur = cur.args[0]
        elif isinstance(cur, ast.IfExp):
            cur = cur.body
        else:
            break
    # off the spine: the sheet when the expression reads exactly ONE (d['<sheet>'], d.get('<sheet>'), helper(d, '<sheet>')); with several the
    # first one mentioned would be a guess
    seen = []
    for n in ast.walk(e):
        sh = None
        if isinstance(n, ast.Subscript) and isinstance(n.value, ast.Name) and n.value.id == dname and isinstance(n.slice, ast.Constant) and isinstance(n.slice.value, str):
            sh = n.slice.value
        elif isinstance(n, ast.Call) and isinstance(n.func, ast.Attribute) and n.func.attr == "get" and isinstance(n.func.value, ast.Name) and n.func.value.id == dname \
                and n.args and isinstance(n.args[0], ast.Constant) and isinstance(n.args[0].value, str):
            sh = n.args[0].value
        elif isinstance(n, ast.Call) and len(n.args) >= 2 and isinstance(n.args[0], ast.Name) and n.args[0].id == dname and isinstance(n.args[1], ast.Constant) and isinstance(n.args[1].value, str):
            sh = n.args[1].value
        if sh is not None and sh not in seen:
            seen.append(sh)
    if len(seen) != 1:
        return None
    # a local table that was not written out (several definitions) may come from ANY sheet: the one sheet that is visible is then no evidence
    fi_ = CUR.get("fi_for_sheets")
    if fi_ is not None:
        local_names = {t_.id for a_ in ast.walk(fi_.node) if isinstance(a_, (ast.Assign, ast.AugAssign)) for t0 in (a_.targets if isinstance(a_, ast.Assign) else [a_.target])
                       for t_ in ast.walk(t0) if isinstance(t_, ast.Name)}
        # (names inside the arguments of calls are inputs to helpers, e.g. the sensor names handed to a re-indexing: only the spine matters)
        spine = e
        while isinstance(spine, (ast.Subscript, ast.Attribute, ast.IfExp, ast.Call)):
            if isinstance(spine, ast.Subscript) or isinstance(spine, ast.Attribute):
                spine = spine.value
            elif isinstance(spine, ast.IfExp):
                spine = spine.orelse if isinstance(spine.body, ast.Constant) else spine.body
            elif isinstance(spine.func, ast.Attribute):
                spine = spine.func.value
            elif spine.args:
                spine = spine.args[0]
            else:
                break
        if isinstance(spine, ast.Name) and spine.id in local_names and spine.id != dname:
            return None
    return seen[0]


NORMALISERS = ("fillna", "reindex", "sub", "astype", "replace", "sort_index", "reset_index", "dropna", "rename", "clip", "round")


def normalised_returned(prog, run):
    """R-normalised: a table the validation routine NORMALISES (fillna, reindex, shift to zero-based, ..) is handed back in that form: either the
    normalised table is what is returned, or it was stored back into the dictionary before the sheet is read again for the return.  A
    routine that computes `t = d['S'].fillna(0)` for its checks and then returns `d['S']` hands back the raw table."""
    run.rule("R-normalised", "the validation routines return the normalised version of every table they normalise (not the raw sheet read again)", 2)
    raw = prog.raw
    for q in GEO:
        cf = raw.func(q)
        f = rel(raw.mods[cf.mod].path)
        d = dict_param(cf)

        def root_sheet(e, names):
            """(sheet, normalised on the way) of the spine of e; names = {local: (sheet, normalised)}"""
            cur, norm = e, False
            for _ in range(40):
                if isinstance(cur, ast.Subscript) and isinstance(cur.value, ast.Name) and cur.value.id == d and isinstance(cur.slice, ast.Constant) and isinstance(cur.slice.value, str):
                    return cur.slice.value, norm
                if isinstance(cur, ast.Call) and isinstance(cur.func, ast.Attribute) and cur.func.attr == "get" and isinstance(cur.func.value, ast.Name) and cur.func.value.id == d \
                        and cur.args and isinstance(cur.args[0], ast.Constant):
                    return cur.args[0].value, norm
                if isinstance(cur, ast.Name) and cur.id in names:
                    return names[cur.id][0], norm or names[cur.id][1]
                if isinstance(cur, ast.Call) and isinstance(cur.func, ast.Attribute):
                    norm = norm or cur.func.attr in NORMALISERS
                    cur = cur.func.value
                elif isinstance(cur, (ast.Subscript, ast.Attribute)):
                    cur = cur.value
                elif isinstance(cur, ast.IfExp):
                    cur = cur.orelse if isinstance(cur.body, ast.Constant) else cur.body
                else:
                    return None, False
            return None, False
        names = {}
        norm_at = {}        # sheet -> line of the first normalisation bound to a local
        back_at = {}        # sheet -> lines of stores back into the dictionary
        events = sorted([n for n in ast.walk(cf.node) if isinstance(n, (ast.Assign, ast.Return)) and hasattr(n, "lineno")], key=lambda n: n.lineno)
        n_ob = 0
        for n in events:
            if isinstance(n, ast.Assign) and len(n.targets) == 1:
                t = n.targets[0]
                sh, nrm = root_sheet(n.value, names)
                if isinstance(t, ast.Name):
                    if sh is not None:
                        names[t.id] = (sh, nrm or names.get(t.id, (None, False))[1] if names.get(t.id, (None,))[0] == sh else nrm)
                        if names[t.id][1]:
                            norm_at.setdefault(sh, n.lineno)
                    else:
                        names.pop(t.id, None)
                elif isinstance(t, ast.Subscript) and isinstance(t.value, ast.Name) and t.value.id == d and isinstance(t.slice, ast.Constant):
                    back_at.setdefault(t.slice.value, []).append(n.lineno)
                    if nrm and sh == t.slice.value:
                        norm_at.setdefault(sh, n.lineno)
            elif isinstance(n, ast.Return) and isinstance(n.value, ast.Tuple):
                for k, e in enumerate(n.value.elts):
                    # the element, or the one definition of the local it names
                    raw_read = None
                    x = e
                    if isinstance(x, ast.Name) and x.id not in names:
                        continue
                    sh, nrm = root_sheet(x, names)
                    if sh is None or sh not in norm_at:
                        continue
                    # where was the sheet read for this element?
                    if isinstance(x, ast.Name):
                        defs = [a for a in events if isinstance(a, ast.Assign) and len(a.targets) == 1 and isinstance(a.targets[0], ast.Name) and a.targets[0].id == x.id]
                        read_line = defs[-1].lineno if defs else n.lineno
                    else:
                        read_line = n.lineno
                    n_ob += 1
                    stored = any(norm_at[sh] <= b <= read_line for b in back_at.get(sh, []))
                    ok = True if (nrm or stored) else False
                    run.ob("R-normalised", cf.qual, f"returned '{sh}' is the normalised table", ok,
                           f"element {k} (`{astq.src(e, 30)}`) " + ("is the normalised table" if nrm else ("reads the sheet after the normalised table was stored back" if stored else
                           f"reads sheet '{sh}' again (line {read_line}) although the table normalised at line {norm_at[sh]} was never stored back: the raw table is returned")),
                           witness=f"{sh}:{'norm' if nrm else 'stored' if stored else 'raw'}", file=f, node=n, config=sh)
        if n_ob == 0:
            run.ob("R-normalised", cf.qual, "normalised tables", None, "no returned table traced to a sheet this routine normalises", file=f, node=cf.node)


def validated(prog, run):
    """R-validated: the geometry object is built from the tables RETURNED by the validation function (normalised, re-indexed,
    zero-based) - and keyword K receives the validated version of the table the user passed as argument K.  The link is made through
    the sheet names, which both sides spell out: argument K -> file_dict['<sheet>'] in def_geoN, file_dict['<sheet>'] -> return
    element k in check_on_geoN, return element k -> keyword in the constructor call."""
    sheet_of_elem = {}
    for q in GEO:
        cf = prog.func(q)
        d = dict_param(cf)
        rets = [n for n in ast.walk(cf.node) if isinstance(n, ast.Return) and isinstance(n.value, ast.Tuple)]
        if rets:
            # (an element written `d['<sheet>']` in the return statement IS that sheet, whatever was stored there before)
            CUR["fi_for_sheets"] = cf
            sheet_of_elem[cf.node.name] = [_first_sheet(e, d) or _first_sheet(astq.expr_at(cf, rets[-1], e), d) for e in rets[-1].value.elts]
            CUR["fi_for_sheets"] = None
    by_keyword = {}      # (geometry class, keyword) -> sheet, learnt from the def_geoN route and required of the by-file route
    # sheet -> public argument, from the dict literal that def_geoN assembles for the validation function whose sheets it names
    sheets_of_fn = {}
    for q in GEO:
        cf = prog.func(q)
        CUR["lists"] = {}
        sheets_of_fn[cf.node.name] = set(const_list(cf, "all_sheets") or sheet_lists_from_guards(cf, dict_param(cf))[1] or [])
    arg_of_sheet_fn = {}
    for cq in [q for q in prog.classes if q.endswith("geometry.mixin.GeometryMixin")]:
        for m in prog.classes[cq].methods.values():
            params = set(astq.params_of(m.node)[0])
            for dn in ast.walk(m.node):
                if isinstance(dn, ast.Dict) and dn.keys and all(k is None or (isinstance(k, ast.Constant) and isinstance(k.value, str)) for k in dn.keys) \
                        and any(k is not None for k in dn.keys):
                    keys = {k.value for k in dn.keys if k is not None}
                    for fn_, sh_ in sheets_of_fn.items():
                        if keys <= sh_ and len(keys) >= 3 and not any(keys <= o_ and o_ != sh_ and len(o_) < len(sh_) for o_ in sheets_of_fn.values()):
                            for k, v in zip(dn.keys, dn.values):
                                if k is None:
                                    continue
                                names = _param_names(m, dn, v, params)
                                if names:
                                    arg_of_sheet_fn.setdefault(fn_, {})[k.value] = names[0]
    for cq in [q for q in prog.classes if q.endswith("geometry.mixin.GeometryMixin")]:
        ci = prog.classes[cq]
        methods = sorted(ci.methods.values(), key=lambda m: (m.node.name.startswith("_"), m.node.name))
        for m in methods:
            f = rel(prog.mods[m.mod].path)
            params = set(astq.params_of(m.node)[0])
            # sheet -> argument of this method (from the dict literal handed to the validation)
            arg_of_sheet = {}
            for dn in ast.walk(m.node):
                if isinstance(dn, ast.Dict) and dn.keys and all(k is None or (isinstance(k, ast.Constant) and isinstance(k.value, str)) for k in dn.keys):
                    if not any({k.value for k in dn.keys if k is not None} <= sh_ for sh_ in sheets_of_fn.values()):
                        continue        # a dict keyed by something else than sheet names (e.g. by the fields of the geometry object)
                    for k, v in zip(dn.keys, dn.values):
                        if k is None:
                            continue
                        names = _param_names(m, dn, v, params)
                        if names:
                            arg_of_sheet[k.value] = names[0]
            for c, r in prog.calls_in(m):
                cname = astq.src(c.func).split(".")[-1]
                if not (cname in ("Geometry1", "Geometry2") and c.keywords):
                    continue
                for k in c.keywords:
                    if k.arg is None:
                        continue
                    x = astq.expr_at(m, c, k.value)
                    while isinstance(x, ast.Call) and isinstance(x.func, ast.Attribute) and x.func.attr in ("astype", "copy", "to_numpy"):
                        x = x.func.value
                    src_fn, pos = None, None
                    if isinstance(x, ast.Subscript) and isinstance(x.value, ast.Call) and isinstance(x.slice, ast.Constant) and isinstance(x.slice.value, int):
                        rr = prog.resolve_call(m, x.value)
                        if isinstance(rr, FuncInfo) and rr.node.name in sheet_of_elem:
                            src_fn, pos = rr, x.slice.value
                    role = f"{cname}.{k.arg} is the validated table of the argument / sheet of that name"
                    if src_fn is None:
                        raw = isinstance(x, ast.Name) and x.id in params
                        run.ob("R-validated", m.qual, role, False if raw else None,
                               f"`{k.arg}={astq.src(x, 50)}`" + (" is the caller's raw argument: NaN cells, one-based indices and the caller's row order are kept" if raw else " not traced to the validation result"),
                               witness=f"{k.arg}<-{astq.src(x, 40)}", file=f, node=c, config=k.arg)
                        continue
                    sheets = sheet_of_elem[src_fn.node.name]
                    sheet = sheets[pos] if 0 <= pos < len(sheets) else None
                    if sheet is None:
                        run.ob("R-validated", m.qual, role, None, f"`{k.arg}` <- element {pos} of {src_fn.node.name}(...): the sheet it is read from was not recognised", file=f, node=c, config=k.arg)
                        continue
                    if not arg_of_sheet and not by_keyword.get((cname, k.arg)):
                        arg_of_sheet = arg_of_sheet_fn.get(src_fn.node.name, {})     # the dict is assembled in another method of the class
                    if arg_of_sheet:
                        arg = arg_of_sheet.get(sheet)
                        # public names on both sides (def_geoN parameter / GeometryN field); one may abbreviate the other (cstr / cstrn)
                        ok = (arg == k.arg or arg.startswith(k.arg) or k.arg.startswith(arg)) if arg is not None else None
                        by_keyword.setdefault((cname, k.arg), sheet)
                        detail = f"`{k.arg}` <- element {pos} of {src_fn.node.name}(...) = validated sheet '{sheet}', which holds the argument `{arg}`"
                        if arg is None and len(arg_of_sheet) >= 3:
                            # the sheet is filled, but with nothing the caller passed - while an argument of the method reaches no sheet at all
                            unused = sorted(p_ for p_ in params - set(arg_of_sheet.values()) - {"self"}
                                            if (p_ == k.arg or p_.startswith(k.arg) or k.arg.startswith(p_)))
                            if unused:
                                ok = False
                                detail = (f"`{k.arg}` <- element {pos} of {src_fn.node.name}(...) = validated sheet '{sheet}', but that sheet is filled with an empty table whatever the caller "
                                          f"passes: the argument `{unused[0]}` of {m.node.name} is never handed to the validation")
                    else:
                        want = by_keyword.get((cname, k.arg))
                        ok = (want == sheet) if want is not None else None
                        detail = f"`{k.arg}` <- element {pos} of {src_fn.node.name}(...) = validated sheet '{sheet}'" + (f" (the argument route uses sheet '{want}')" if want is not None else "")
                    run.ob("R-validated", m.qual, role, ok, detail, witness=f"{k.arg}<-{sheet}", file=f, node=c, config=k.arg)


DF_ATTRS = {"empty", "values", "index", "sub", "to_numpy", "reindex", "fillna", "columns", "astype", "replace", "shape", "loc", "iloc"}
TYPE_LACKS = {"ndarray": {"empty", "values", "index", "sub", "to_numpy", "reindex", "fillna", "columns", "replace", "loc", "iloc"},
              "list": {"empty", "values", "index_", "sub", "to_numpy", "reindex", "fillna", "columns", "astype", "replace", "shape", "loc", "iloc"}}


def ann_types(a):
    s = astq.src(a, 400) if a is not None else ""
    out = set()
    if "DataFrame" in s:
        out.add("DataFrame")
    if "NDArray" in s or "ndarray" in s:
        out.add("ndarray")
    if "List" in s or "list[" in s:
        out.add("list")
    return out


def attr_rule(prog, run):
    mix = prog.cls("support.geometry.mixin.GeometryMixin")
    for mname, cq in (("def_geo1", GEO[0]), ("def_geo2", GEO[1])):
        m = mix.methods.get(mname)
        if m is None:
            raise AnalysisError(f"anchor lost: GeometryMixin.{mname}")
        chk = prog.func(cq)
        f = rel(prog.mods[m.mod].path)
        d = dict_param(chk)
        # dict literal built in def_geo*: key -> parameter
        key2param = {}
        for n in ast.walk(m.node):
            if isinstance(n, ast.Dict):
                for k, v in zip(n.keys, n.values):
                    if isinstance(k, ast.Constant):
                        names = [x.id for x in ast.walk(v) if isinstance(x, ast.Name)]
                        if not any(a.arg in names for a in m.node.args.args):
                            # the value is a local that stands for `<argument> if <argument> is not None else <empty table>`
                            names = _param_names(m, n, v, {a.arg for a in m.node.args.args})
                        for a in m.node.args.args:
                            if a.arg in names:
                                key2param[k.value] = a
        # attribute uses per key in the check function (constant keys and loop variables over constant lists)
        uses = {}
        loops = {}
        for n in ast.walk(chk.node):
            if isinstance(n, ast.For) and isinstance(n.target, ast.Name):
                keys = None
                if isinstance(n.iter, (ast.List, ast.Tuple)) and all(isinstance(x, ast.Constant) for x in n.iter.elts):
                    keys = [x.value for x in n.iter.elts]
                elif isinstance(n.iter, ast.Name):
                    keys = const_list(chk, n.iter.id)
                if keys:
                    for x in ast.walk(n):
                        loops.setdefault(id(x), {})[n.target.id] = keys
        for n in ast.walk(chk.node):
            if isinstance(n, ast.Attribute):
                k = key_of(n.value, d, {"key", "sheet"} | {a for v in loops.values() for a in v})
                if k is None:
                    continue
                keys = [k[0]] if k[1] else loops.get(id(n), {}).get(k[0], [])
                for kk in keys:
                    uses.setdefault(kk, set()).add(n.attr)
        # uses through `for sheet, value in d.items()`: they apply to EVERY sheet of the dictionary (required ones included), unless the
        # use sits behind an isinstance(value, DataFrame) test or a membership test of the sheet name in a constant list
        pm_ = astq.parent_map(chk.node)

        def guards_of(node, stop):
            """(isinstance-guarded?, restricting key list or None) from the tests that dominate `node` inside the loop `stop`"""
            isinst, restrict = False, None
            cur = node
            while cur is not stop and cur is not None:
                par = pm_.get(cur)
                tests = []
                if isinstance(par, ast.If) and cur in par.body:
                    tests.append(par.test)
                if isinstance(par, ast.BoolOp) and isinstance(par.op, ast.And):
                    tests.extend(par.values[:par.values.index(cur)] if cur in par.values else [])
                if isinstance(par, ast.IfExp) and cur is par.body:
                    tests.append(par.test)
                for t in tests:
                    for z in ast.walk(t):
                        if isinstance(z, ast.Call) and isinstance(z.func, ast.Name) and z.func.id == "isinstance" and len(z.args) == 2 and "DataFrame" in astq.src(z.args[1]):
                            isinst = True
                        if isinstance(z, ast.Compare) and len(z.ops) == 1 and isinstance(z.ops[0], ast.In) and isinstance(z.left, ast.Name):
                            c0 = z.comparators[0]
                            ks = [x.value for x in c0.elts] if isinstance(c0, (ast.List, ast.Tuple)) and all(isinstance(x, ast.Constant) for x in c0.elts) else \
                                (const_list(chk, c0.id) if isinstance(c0, ast.Name) else None)
                            if ks is not None:
                                restrict = ks if restrict is None else [k for k in restrict if k in ks]
                cur = par
            return isinst, restrict
        for lp in ast.walk(chk.node):
            if isinstance(lp, ast.For) and isinstance(lp.target, ast.Tuple) and len(lp.target.elts) == 2 and all(isinstance(t, ast.Name) for t in lp.target.elts) \
                    and isinstance(lp.iter, ast.Call) and isinstance(lp.iter.func, ast.Attribute) and lp.iter.func.attr == "items" \
                    and isinstance(lp.iter.func.value, ast.Name) and lp.iter.func.value.id == d:
                kvar, vvar = lp.target.elts[0].id, lp.target.elts[1].id
                for n in ast.walk(lp):
                    if not isinstance(n, ast.Attribute):
                        continue
                    on_value = isinstance(n.value, ast.Name) and n.value.id == vvar
                    on_item = isinstance(n.value, ast.Subscript) and isinstance(n.value.value, ast.Name) and n.value.value.id == d \
                        and isinstance(n.value.slice, ast.Name) and n.value.slice.id == kvar
                    if not (on_value or on_item):
                        continue
                    isinst, restrict = guards_of(n, lp)
                    if isinst:
                        continue
                    for kk in (restrict if restrict is not None else list(key2param)):
                        uses.setdefault(kk, set()).add(n.attr)
        found = 0
        for key, arg in sorted(key2param.items()):
            types = ann_types(arg.annotation)
            for t in sorted(types):
                lacking = sorted(a for a in uses.get(key, ()) if a in TYPE_LACKS.get(t, ()))
                ok = not lacking
                found += 1
                run.ob("R-attr", m.qual, f"argument {arg.arg} ({t}) -> table '{key}'", ok,
                       f"attributes used on the table: {sorted(uses.get(key, ()))}" if ok else
                       f"documented type {t} of `{arg.arg}` has no attribute(s) {lacking} used on file_dict['{key}'] in {chk.node.name}: passing the documented form raises AttributeError",
                       witness=f"{key}:{t}", file=f, node=arg)
        if not found:
            run.ob("R-attr", m.qual, "table arguments", None, "dict of tables not recognised", file=f)


G = "functions.gen"
MUTANTS = [
    ("C19-m01 constraints read unguarded", G, "check_on_geo2", "file_dict.get('constraints', pd.DataFrame()).fillna(0)", "file_dict['constraints'].fillna(0)"),
    ("C19-m02 sensor surfaces stay one-based", G, "check_on_geo2", "['sensors lines', 'sensors surfaces', 'BG lines', 'BG surfaces']", "['sensors lines', 'BG lines', 'BG surfaces']", 1),
    ("C19-m03 coordinates not re-indexed", G, "check_on_geo1", "file_dict['sensors coordinates'].reindex(index=sens_names)", "file_dict['sensors coordinates']"),
    ("C19-m04 KeyError instead of ValueError", G, "check_on_geo1", "raise ValueError('All sensors names must be present as index of the sensors coordinates dataframe!')", "raise KeyError('All sensors names must be present as index of the sensors coordinates dataframe!')"),
    ("C19-m05 constraint columns not re-ordered", G, "check_on_geo2", "file_dict['constraints'] = constraints[sens_names]", "file_dict['constraints'] = constraints"),
    ("C19-m06 BG nodes read without presence test", G, "check_on_geo1", "file_dict.get('BG nodes') is not None and (not file_dict['BG nodes'].empty) and (file_dict['BG nodes'].values.shape[1] != 3)", "not file_dict['BG nodes'].empty and file_dict['BG nodes'].values.shape[1] != 3"),
    ("C19-m07 default-filling loop removed", G, "check_on_geo1", "for key in all_sheets:\n    if key not in file_dict:\n        file_dict[key] = pd.DataFrame()", "pass"),
    ("C19-m08 directions re-indexed by table order", G, "check_on_geo1", "file_dict['sensors directions'].reindex(index=sens_names).values", "file_dict['sensors directions'].values"),
    ("C19-m09 shift applied to node coordinates", G, "check_on_geo1", "['sensors lines', 'BG lines', 'BG surfaces']", "['sensors lines', 'BG nodes', 'BG lines', 'BG surfaces']", 1),
    ("C19-m10 sign sheet read before its default", G, "check_on_geo2", "file_dict.get('sensors sign') is None or file_dict['sensors sign'].empty", "file_dict['sensors sign'].empty"),
]
REWRITES = [
    ("C19-r01 membership guard", G, "check_on_geo1", "file_dict.get('BG lines') is not None and (not file_dict['BG lines'].empty) and (file_dict['BG lines'].values.shape[1] != 2)", "'BG lines' in file_dict and (not file_dict['BG lines'].empty) and (file_dict['BG lines'].values.shape[1] != 2)"),
    ("rename:C19-r02", G, "check_on_geo1", "sens_coord", "coord_sorted"),
    ("C19-r03 tuple of keys", G, "check_on_geo1", "['sensors lines', 'BG lines', 'BG surfaces']", "('sensors lines', 'BG lines', 'BG surfaces')", 1),
]
