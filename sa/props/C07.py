"""C07 - EFDD/FSDD on an exact SDOF bell.

Decided (structural): O-bell - the array handed to the inverse FFT in EFDD_mpe (the SDOF bell that is turned into a correlation
function) is homogeneous of degree 1 in the spectral matrix for both methods (a correlation function is linear in a PSD; the square
root of the density is not a bell); O-scale - Fn, Xi have degree 0 in the scale of the spectral matrix ('unchanged when the whole
spectral matrix is multiplied by a positive constant'), the log-decrement argument is a ratio; O-time - Fn ~ 1/s, Xi ~ 1 (the lag
axis derives from dt).  Not decided: the 2.5 % / 15 % accuracy, factor 2 of the decrement, peak picking.
"""
from ..absint import Interp, CTX, Cst, Lst, D, Tup, num, Deg
from .. import hd
from ..hd import HZ, SEC, expect, events_to_obligations

FN = "functions.fdd.EFDD_mpe"


def check(prog, run):
    run.rule("O-bell", "the argument of the inverse FFT in EFDD_mpe is homogeneous of degree 1 in the spectral-matrix scale S (EFDD and FSDD, per and cor)", 4)
    run.rule("O-scale", "Fn, Xi, Phi returned by EFDD_mpe have degree 0 in S; Fn ~ 1/s, Xi ~ 1 in the time unit", 12)
    run.rule("O-hom", "no degree-mixing sum, dimensional log/exp/arccos or scale-dependent decision on the way (window correction of the 'cor' "
             "estimator included)", 1)
    run.assume("curve_fit of the linear model m*x returns a slope of degree(y)-degree(x); argmax/argmin/sign/where are scale-free")
    I = Interp(prog)
    fn = I.fn(FN)
    I.probe_ext("numpy.fft.ifft")
    seen = set()
    for msy in ("per", "cor"):
        for meth in ("EFDD", "FSDD"):
            cfg = f"method={meth},methodSy={msy}"
            CTX.events.clear()
            CTX.probes.clear()
            Sy = D(3, S=1)
            freq = D(1, s=-1)
            r = I.call(fn, [Sy, freq, SEC, Lst([], HZ), Cst(msy)], {"method": Cst(meth), "DF1": HZ, "DF2": HZ})
            pr = CTX.probes.get("numpy.fft.ifft", [])
            pr = [p for p in pr if p[0][0].endswith("EFDD_mpe")]
            if not pr:
                run.ob("O-bell", fn.qual, "ifft argument", False, f"no inverse FFT of the SDOF bell found in EFDD_mpe ({cfg})", witness="missing", config=cfg)
            for (where, args, kw) in pr[:1]:
                expect(run, prog, "O-bell", fn.qual, "ifft argument", args[0], dict(S=1), cfg, allow_any=False)
            if isinstance(r, Tup) and len(r.items) >= 3:
                for name, val, ex in (("Fn", r.items[0], dict(s=-1)), ("Xi", r.items[1], {}), ("Phi", r.items[2], {})):
                    if hd.has_root_events() and hd.is_poisoned(val):
                        continue
                    expect(run, prog, "O-scale", fn.qual, name, val, ex, cfg, allow_any=False)
            else:
                run.ob("O-scale", fn.qual, "return", None, f"unexpected return {r!r}"[:160], config=cfg)
            events_to_obligations(run, prog, "O-hom", cfg, seen=seen)
    if not any(o.rule == "O-hom" for o in run.obs):
        run.ob("O-hom", fn.qual, "all-operations", True, "no event on any configuration")
    run.trusted |= set(CTX.used)


FD = "functions.fdd"
MUTANTS = [
    ("C07-m01 square root of the density as bell", FD, "SDOF_bellandMS", "Sval[csm, csm, l_] ** 2", "Sval[csm, csm, l_]"),
    ("C07-m02 lag axis from fs instead of dt", FD, "EFDD_mpe", "df = 1 / dt / nxseg", "df = dt / nxseg"),
    ("C07-m03 decrement of un-normalised extrema against a threshold", FD, "EFDD_mpe", "normSDOFcorr = SDOFcorr1[:len(SDOFcorr1) // 2] / SDOFcorr1[np.argmax(SDOFcorr1)]", "normSDOFcorr = SDOFcorr1[:len(SDOFcorr1) // 2]\nif np.max(normSDOFcorr) < 1.0:\n    normSDOFcorr = normSDOFcorr * 2"),
    ("C07-m05 FSDD bell quadratic in the spectrum", FD, "SDOF_bellandMS", "np.dot(np.dot(phi_FDD.conj().T, Sy[:, :, el]), phi_FDD)", "np.dot(np.dot(phi_FDD.conj().T, Sy[:, :, el]), np.dot(Sy[:, :, el], phi_FDD))"),
    ("C07-m06 band default used instead of DF2", FD, "EFDD_mpe", "SDOF_bellandMS(Sy, dt, sel_fn, phi_FDD, method=method, cm=cm, MAClim=MAClim, DF=DF2)", "SDOF_bellandMS(Sy, dt, sel_fn, phi_FDD, method=method, cm=cm, MAClim=MAClim)"),
    ("C07-m07 damped frequency in samples", FD, "EFDD_mpe", "Td = np.diff(time[minmax_fit_idx]) * 2", "Td = np.diff(minmax_fit_idx) * 2"),
    ("C07-m08 window correction with a time constant in seconds", FD, "EFDD_mpe", "lam = 2 * lam - 1 / tau", "lam = 2 * lam - dt / tau"),
]
REWRITES = [
    ("rename:C07-r01", FD, "EFDD_mpe", "SDOFcorr1", "decay"),
    ("C07-r02 power via multiplication", FD, "SDOF_bellandMS", "Sval[csm, csm, l_] ** 2", "Sval[csm, csm, l_] * Sval[csm, csm, l_]"),
    ("C07-r03 time step written out", FD, "EFDD_mpe", "df = 1 / dt / nxseg", "df = 1 / (dt * nxseg)"),
]
