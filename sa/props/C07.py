"""C07 - EFDD/FSDD on an exact SDOF bell.

Decided (structural): O-bell - the array handed to the inverse FFT in EFDD_mpe (the SDOF bell that is turned into a correlation
function) is homogeneous of degree 1 in the spectral matrix for both methods (a correlation function is linear in a PSD; the square
root of the density is not a bell); O-scale - Fn, Xi have degree 0 in the scale of the spectral matrix ('unchanged when the whole
spectral matrix is multiplied by a positive constant'), the log-decrement argument is a ratio; O-time - Fn ~ 1/s, Xi ~ 1 (the lag
axis derives from dt).  Not decided: the 2.5 % / 15 % accuracy, factor 2 of the decrement, peak picking.
"""
from ..absint import Interp, CTX, Cst, Lst, D, Tup, num, Deg
from .. import hd
from ..hd import HZ, SEC, expect, events_to_obligations

FN = "functions.fdd.EFDD_mpe"


def handover_rule(prog, run, only=None):
    """R-handover: EFDD.mpe / mpe_from_plot hand the spectrum, grid, sampling interval, estimator name and THIS call's bands and fit
    parameters to EFDD_mpe (a value read from run_params must have been stored from the caller's argument before the call)"""
    run.rule("R-handover", "EFDD.mpe / mpe_from_plot pass result.Sy, result.freq, dt, method_SD, the algorithm's method and the DF1, DF2, cm, MAClim, sppk, npmax of this call to EFDD_mpe", 10)
    callee = prog.func("functions.fdd.EFDD_mpe")
    n = 0
    for mname in ("mpe", "mpe_from_plot"):
        for ci, m in prog.class_methods("pyoma2.algorithms", mname):
            want = {"Sy": {"self.result.Sy"}, "freq": {"self.result.freq"}, "dt": {"self.dt", "1 / self.fs"}, "methodSy": {"self.run_params.method_SD"},
                    "method": {"self.method"}}
            # (seen for one exact class, `self.method` is the label that class carries)
            _c, _v = prog.find_classattr(ci, "method")
            if isinstance(_v, ast.Constant) and isinstance(_v.value, str):
                want["method"].add(repr(_v.value))
            for k in ("DF1", "DF2", "cm", "MAClim", "sppk", "npmax"):
                want[k] = {k}
            if mname == "mpe":
                want["sel_freq"] = {"sel_freq"}
            if only is not None:
                want = {k: v for k, v in want.items() if k in only}
            for c, p_, ok, detail in astq.handover(prog, m, callee.qual, want):
                n += 1
                run.ob("R-handover", m.qual, f"{mname} -> EFDD_mpe.{p_}", ok, detail, witness=detail[:90], file=rel(prog.mods[m.mod].path), node=c, config=p_)
    if not n:
        run.ob("R-handover", "pyoma2.algorithms", "callers of EFDD_mpe", None, "no mpe method calling EFDD_mpe found")


def check(prog, run):
    handover_rule(prog, run)
    run.rule("O-bell", "the argument of the inverse FFT in EFDD_mpe is homogeneous of degree 1 in the spectral-matrix scale S (EFDD and FSDD, per and cor)", 4)
    run.rule("O-scale", "Fn, Xi, Phi returned by EFDD_mpe have degree 0 in S; Fn ~ 1/s, Xi ~ 1 in the time unit", 12)
    run.rule("O-hom", "no degree-mixing sum, dimensional log/exp/arccos or scale-dependent decision on the way (window correction of the 'cor' "
             "estimator included)", 1)
    run.assume("curve_fit of the linear model m*x returns a slope of degree(y)-degree(x); argmax/argmin/sign/where are scale-free")
    I = Interp(prog)
    fn = I.fn(FN)
    I.probe_ext("numpy.fft.ifft")
    seen = set()
    for msy in ("per", "cor"):
        for meth in ("EFDD", "FSDD"):
            cfg = f"method={meth},methodSy={msy}"
            CTX.events.clear()
            CTX.probes.clear()
            Sy = D(3, S=1)
            freq = D(1, s=-1)
            r = I.call(fn, [Sy, freq, SEC, Lst([], HZ), Cst(msy)], {"method": Cst(meth), "DF1": HZ, "DF2": HZ})
            pr = CTX.probes.get("numpy.fft.ifft", [])
            pr = [p for p in pr if p[0][0].endswith("EFDD_mpe")]
            if not pr:
                run.ob("O-bell", fn.qual, "ifft argument", False, f"no inverse FFT of the SDOF bell found in EFDD_mpe ({cfg})", witness="missing", config=cfg)
            for (where, args, kw) in pr[:1]:
                expect(run, prog, "O-bell", fn.qual, "ifft argument", args[0], dict(S=1), cfg, allow_any=False)
            if isinstance(r, Tup) and len(r.items) >= 3:
                for name, val, ex in (("Fn", r.items[0], dict(s=-1)), ("Xi", r.items[1], {}), ("Phi", r.items[2], {})):
                    if hd.has_root_events() and hd.is_poisoned(val):
                        continue
                    expect(run, prog, "O-scale", fn.qual, name, val, ex, cfg, allow_any=False)
            else:
                run.ob("O-scale", fn.qual, "return", None, f"unexpected return {r!r}"[:160], config=cfg)
            events_to_obligations(run, prog, "O-hom", cfg, seen=seen)
    if not any(o.rule == "O-hom" for o in run.obs):
        run.ob("O-hom", fn.qual, "all-operations", True, "no event on any configuration")
    run.trusted |= set(CTX.used)


FD = "functions.fdd"
MUTANTS = [
    ("C07-m01 square root of the density as bell", FD, "SDOF_bellandMS", "Sval[csm, csm, l_] ** 2", "Sval[csm, csm, l_]"),
    ("C07-m02 lag axis from fs instead of dt", FD, "EFDD_mpe", "df = 1 / dt / nxseg", "df = dt / nxseg"),
    ("C07-m03 decrement of un-normalised extrema against a threshold", FD, "EFDD_mpe", "normSDOFcorr = SDOFcorr1[:len(SDOFcorr1) // 2] / SDOFcorr1[np.argmax(SDOFcorr1)]", "normSDOFcorr = SDOFcorr1[:len(SDOFcorr1) // 2]\nif np.max(normSDOFcorr) < 1.0:\n    normSDOFcorr = normSDOFcorr * 2"),
    ("C07-m05 FSDD bell quadratic in the spectrum", FD, "SDOF_bellandMS", "np.dot(np.dot(phi_FDD.conj().T, Sy[:, :, el]), phi_FDD)", "np.dot(np.dot(phi_FDD.conj().T, Sy[:, :, el]), np.dot(Sy[:, :, el], phi_FDD))"),
    ("C07-m06 band default used instead of DF2", FD, "EFDD_mpe", "SDOF_bellandMS(Sy, dt, sel_fn, phi_FDD, method=method, cm=cm, MAClim=MAClim, DF=DF2)", "SDOF_bellandMS(Sy, dt, sel_fn, phi_FDD, method=method, cm=cm, MAClim=MAClim)"),
    ("C07-m07 damped frequency in samples", FD, "EFDD_mpe", "Td = np.diff(time[minmax_fit_idx]) * 2", "Td = np.diff(minmax_fit_idx) * 2"),
    ("C07-m08 window correction with a time constant in seconds", FD, "EFDD_mpe", "lam = 2 * lam - 1 / tau", "lam = 2 * lam - dt / tau"),
]
REWRITES = [
    ("rename:C07-r01", FD, "EFDD_mpe", "SDOFcorr1", "decay"),
    ("C07-r02 power via multiplication", FD, "SDOF_bellandMS", "Sval[csm, csm, l_] ** 2", "Sval[csm, csm, l_] * Sval[csm, csm, l_]"),
    ("C07-r03 time step written out", FD, "EFDD_mpe", "df = 1 / dt / nxseg", "df = 1 / (dt * nxseg)"),
]


# ----------------------------------------------------------------------------- R-decrement (closed forms of the damping fit)
import ast  # noqa: E402
from .. import astq, symidx  # noqa: E402
from ..program import rel  # noqa: E402
from ..poly import P, P_div, P_pow  # noqa: E402
from fractions import Fraction as _Fr  # noqa: E402

_check_degree = check


def check(prog, run):
    _check_degree(prog, run)
    decrement(prog, run)
    inputs_intact(prog, run)


def inputs_intact(prog, run):
    """the estimates are a function of the spectral matrix handed in: the extraction writes into nothing that may be (a view of) its
    arguments - the stored singular values / vectors of the run among them - so that a second extraction starts from the same spectra"""
    run.rule("R-inputs-intact", "EFDD_mpe and what it calls change none of their array arguments in place (stores, augmented assignments, out=, in-place methods, "
             "through views and through helpers that hand back their argument)", 3)
    from . import C15
    reach = sorted(q for q in prog.reachable([prog.func(FN).qual]) if q in prog.functions and not q.startswith("pyoma2.functions.plot"))
    C15.shared_data(prog, run.under({"R-shared-data": "R-inputs-intact"}), reach)
    run.rule("R-dtype", "no returned table takes its dtype from the selected frequencies as the caller typed them (integers truncate what is stored)", 0)
    astq.inherited_dtype_rule(prog, run, "R-dtype", reach)


def decrement(prog, run):
    run.rule("R-decrement", "EFDD_mpe closed forms: decrements relative to the first extremum, slope doubled because maxima AND minima are used "
             "(window term removed for 'cor'), xi = lam/sqrt(4 pi^2 + lam^2), fn = fd/sqrt(1 - xi^2), fd = 1/mean(2*diff(time at extrema))", 5)
    fi = prog.func(FN)
    f = rel(prog.mods[fi.mod].path)
    for msy in ("per", "cor"):
        cfg = f"methodSy={msy}"
        pf = astq.PrunedFn(fi, {"methodSy": msy})
        apps = {}
        for n in ast.walk(pf.node):
            if isinstance(n, ast.Call) and isinstance(n.func, ast.Attribute) and n.func.attr == "append" and isinstance(n.func.value, ast.Name) and len(n.args) == 1:
                apps.setdefault(n.func.value.id, []).append(n)
        rets = [n for n in ast.walk(pf.node) if isinstance(n, ast.Return) and isinstance(n.value, ast.Tuple)]
        if not rets:
            run.ob("R-decrement", fi.qual, "return", None, "no tuple return", file=f, config=cfg)
            continue
        # lists feeding Fn and Xi
        def feeder(k):
            x = astq.expr_at(pf, rets[-1], rets[-1].value.elts[k])
            names = [n.id for n in ast.walk(x) if isinstance(n, ast.Name) and n.id in apps]
            return apps[names[0]][0] if names else None
        a_fn, a_xi = feeder(0), feeder(1)
        if a_fn is None or a_xi is None:
            run.ob("R-decrement", fi.qual, "appended estimates", None, "lists feeding Fn / Xi not found", file=f, config=cfg)
            continue
        keep = ()
        xi_x = astq.expr_at(pf, a_xi, a_xi.args[0])
        fn_x = astq.expr_at(pf, a_fn, a_fn.args[0])
        se = symidx.SymEval(prog, pf)
        se.atoms = True
        se.opaque_calls = True
        xi_v, fn_v = se.ev(xi_x), se.ev(fn_x)
        # the fitted slope: curve_fit(...)[0]
        cf = [c for c in ast.walk(xi_x) if isinstance(c, ast.Call) and astq.callee_name(prog, pf, c) == "scipy.optimize.curve_fit"]
        if xi_v is None or fn_v is None or not cf:
            run.ob("R-decrement", fi.qual, "closed forms", None, f"xi/fn expressions not polynomial-evaluable ({astq.src(xi_x, 60)})", file=f, node=a_xi, config=cfg)
            continue
        L = se.ev(ast.Subscript(value=cf[0], slice=ast.Constant(value=0), ctx=ast.Load()))
        if msy == "per":
            lam = L * 2
        else:
            # the windowed-correlogram case is outside the property's claim: the window term is not judged, only that xi has the closed
            # form in whatever slope the code uses - the numerator of xi = lam / sqrt(4 pi^2 + lam^2), whatever it is called
            lam = se.ev(xi_x.left) if isinstance(xi_x, ast.BinOp) and isinstance(xi_x.op, ast.Div) else None
        if lam is None:
            run.ob("R-decrement", fi.qual, "window correction", None, "time constant of the exponential window not found", file=f, node=a_xi, config=cfg)
            continue
        pi = P.s("pi")
        exp_xi = lam * P_pow(pi * pi * 4 + lam * lam, _Fr(-1, 2))
        ok = xi_v == exp_xi
        run.ob("R-decrement", fi.qual, "xi = lam/sqrt(4 pi^2 + lam^2) with lam = 2 x fitted slope" + (" - 1/tau" if msy == "cor" else ""), ok,
               f"xi = {xi_v!r}"[:200], witness=repr(xi_v)[:90], file=f, node=a_xi, config=cfg)
        # fn = fd / sqrt(1 - xi^2)
        fd_candidates = [c for c in ast.walk(fn_x) if isinstance(c, ast.BinOp) and isinstance(c.op, ast.Div)]
        exp_fn_factor = P_pow(P.c(1) - exp_xi * exp_xi, _Fr(-1, 2))
        okf = False
        fd_v = None
        if isinstance(fn_x, ast.BinOp) and isinstance(fn_x.op, ast.Div):
            fd_v = se.ev(fn_x.left)
            den = se.ev(fn_x.right)
            okf = fd_v is not None and den is not None and den == P_pow(P.c(1) - exp_xi * exp_xi, _Fr(1, 2))
        run.ob("R-decrement", fi.qual, "fn = fd / sqrt(1 - xi^2)", okf, f"fn = `{astq.src(fn_x, 90)}`", witness=astq.src(fn_x, 80), file=f, node=a_fn, config=cfg)
        if fd_v is not None:
            s = repr(fd_v).replace(" ", "")
            okd = s.startswith("mean[2*diff[") and s.endswith("]^-1") or (s.startswith("mean[") and "2*diff[" in s and s.endswith("^-1"))
            run.ob("R-decrement", fi.qual, "fd = 1/mean(2 x spacing of consecutive extrema on the lag axis)", okd, f"fd = {fd_v!r}"[:160], witness=repr(fd_v)[:90], file=f, node=a_fn, config=cfg)
            oka = "time[" in s or "linspace" in s
            run.ob("R-decrement", fi.qual, "extrema spacing is measured on the lag (time) axis", oka, f"fd = {fd_v!r}"[:120], witness=repr(fd_v)[:90], file=f, node=a_fn, config=cfg)
        # decrements relative to the first extremum: log(|m[0]| / |m[k]|)
        dl = []
        for c in ast.walk(pf.node):
            if isinstance(c, ast.Call) and astq.callee_name(prog, pf, c) == "numpy.log" and c.args:
                x = astq.expr_at(pf, c, c.args[0])
                if isinstance(x, ast.BinOp) and isinstance(x.op, ast.Div):
                    dl.append((c, x))
        okl = None
        why = "no log of a ratio of extrema found"
        for c, x in dl:
            a, b = x.left, x.right
            sa_, sb_ = astq.strip_abs(prog, pf, a), astq.strip_abs(prog, pf, b)
            ia = [sa_] if isinstance(sa_, ast.Subscript) else [s_ for s_ in ast.walk(a) if isinstance(s_, ast.Subscript)]
            ib = [sb_] if isinstance(sb_, ast.Subscript) else [s_ for s_ in ast.walk(b) if isinstance(s_, ast.Subscript)]
            if ia and ib and astq.dump(ia[0].value) == astq.dump(ib[0].value):
                first0 = isinstance(ia[0].slice, ast.Constant) and ia[0].slice.value == 0
                # the k-th extremum: a loop variable, or (vectorised) the ramp of all fit positions
                kth = isinstance(ib[0].slice, ast.Name) or (isinstance(ib[0].slice, ast.Call) and astq.callee_name(prog, pf, ib[0].slice) in ("numpy.arange", "range"))
                if first0 and kth:
                    okl = sa_ is not None and sb_ is not None
                elif isinstance(ia[0].slice, (ast.Constant, ast.Name, ast.BinOp)) and isinstance(ib[0].slice, (ast.Constant, ast.Name, ast.BinOp)):
                    okl = False        # a ratio of two extrema of the same list, but not (first, k-th)
                why = f"`log({astq.src(x, 70)})`"
        run.ob("R-decrement", fi.qual, "decrement k = log(|extremum 0| / |extremum k|)", okl, why, witness=why[:80], file=f, node=dl[0][0] if dl else None, config=cfg)


MUTANTS += [
    ("C07-m09 factor 2 of the decrement dropped", FD, "EFDD_mpe", "lam = 2 * lam", "lam = 1 * lam"),
    ("C07-m10 damping without the 4 pi^2 term", FD, "EFDD_mpe", "xi_EFDD = lam / np.sqrt(4 * np.pi ** 2 + lam ** 2)", "xi_EFDD = lam / np.sqrt(np.pi ** 2 + lam ** 2)"),
    ("C07-m11 undamped frequency multiplied instead of divided", FD, "EFDD_mpe", "fn_EFDD = fd_EFDD / np.sqrt(1 - xi_EFDD ** 2)", "fn_EFDD = fd_EFDD * np.sqrt(1 - xi_EFDD ** 2)"),
    ("C07-m12 period from maxima only", FD, "EFDD_mpe", "Td = np.diff(time[minmax_fit_idx]) * 2", "Td = np.diff(time[minmax_fit_idx])"),
    ("C07-m13 decrement between consecutive extrema", FD, "EFDD_mpe", "np.log(np.abs(minmax[0]) / np.abs(minmax[ii]))", "np.log(np.abs(minmax[ii - 1]) / np.abs(minmax[ii]))"),
]
REWRITES += [
    ("C07-r04 square via multiplication in xi", FD, "EFDD_mpe", "xi_EFDD = lam / np.sqrt(4 * np.pi ** 2 + lam ** 2)", "xi_EFDD = lam / np.sqrt((2 * np.pi) ** 2 + lam * lam)"),
    ("rename:C07-r05", FD, "EFDD_mpe", "Td_EFDD", "period"),
]
