"""C01 - SSI recovers exact modal parameters from noise-free free-vibration data.

Decided (structural necessary conditions of a correct realisation, for all block-row / channel counts at once):
R-shift - in SSI, SSI_fast and SSI_multi_setup the two observability slices of the shift-invariance solve are O[:rows-w] and O[w:] of
ONE matrix with ONE shift w, w = the channel count of that function; the state matrix is pinv(up).down or inv(R).(Q^T.down) with
Q, R = qr(up), where `up` is the slice that starts at row 0 (swapped roles give A^-1: every pole is rejected and no test notices);
C is the first w rows of the same matrix.  R-order-slot - one truncation index per order throughout; SSI_poles writes column ii of
every table from AA[ii], CC[ii].  R-map - ssi.ac2mp: lambda_c = log(lambda_d)/dt, fn = |lambda_c|/2pi, xi = -Re/|.|.
R-unit-norm / degrees: see C08; Hankel lags: see C12.  Not decided: that identified values equal the system's (numerics, conditioning).
"""
import ast
import re

from .. import astq, symidx, mapform
from ..program import rel, AnalysisError
from ..poly import P, P_div, atom_of

FUNCS = {
    "functions.ssi.SSI": "single",
    "functions.ssi.SSI_fast": "single",
    "functions.ssi.SSI_multi_setup": "multi",
}
DOTS = {"numpy.dot", "numpy.matmul"}
PINV = {"numpy.linalg.pinv", "scipy.linalg.pinv"}
INV = {"numpy.linalg.inv", "scipy.linalg.inv"}
QR = {"numpy.linalg.qr", "scipy.linalg.qr"}


class Und(Exception):
    pass


def mat_product(prog, fi, e):
    if isinstance(e, ast.BinOp) and isinstance(e.op, ast.MatMult):
        return e.left, e.right
    if isinstance(e, ast.Call) and astq.callee_name(prog, fi, e) in DOTS and len(e.args) == 2:
        return e.args[0], e.args[1]
    if isinstance(e, ast.Call) and isinstance(e.func, ast.Attribute) and e.func.attr == "dot" and len(e.args) == 1:
        return e.func.value, e.args[0]
    return None


def row_slice(se, e):
    """X[lo:hi, :] (or X[lo:hi]) -> (X expr, lo poly, hi poly or None, extra column slice expr or None)"""
    if not isinstance(e, ast.Subscript):
        return None
    el = astq.index_elts(e)
    if not isinstance(el[0], ast.Slice) or el[0].step is not None:
        return None
    col = None
    if len(el) == 2:
        if not isinstance(el[1], ast.Slice):
            return None
        col = el[1]
    elif len(el) != 1:
        return None
    lo = se.ev(el[0].lower) if el[0].lower is not None else P.c(0)
    hi = se.ev(el[0].upper) if el[0].upper is not None else None
    if lo is None or (el[0].upper is not None and hi is None):
        return None
    return e.value, lo, hi, col


def strip_trunc(e):
    """M[:n, :n] -> (M, n expr) ; M -> (M, None)"""
    if isinstance(e, ast.Subscript):
        el = astq.index_elts(e)
        if len(el) == 2 and all(isinstance(x, ast.Slice) and x.lower is None and x.step is None and x.upper is not None for x in el) \
                and astq.dump(el[0].upper) == astq.dump(el[1].upper):
            return e.value, el[0].upper
    return e, None


def qr_part(prog, fi, e, k):
    """e == qr(X)[k] -> X"""
    if isinstance(e, ast.Subscript) and isinstance(e.slice, ast.Constant) and e.slice.value == k and isinstance(e.value, ast.Call) \
            and astq.callee_name(prog, fi, e.value) in QR and e.value.args:
        return e.value.args[0]
    return None


def recognise_A(prog, fi, se, e):
    """returns dict(up=expr, down=expr, trunc=[index exprs]) for pinv(up).down or inv(R[:n,:n]).(Q^T.down)[:n,:n]"""
    mp = mat_product(prog, fi, e)
    if mp is None:
        raise Und(f"state matrix `{astq.src(e, 70)}` is not a matrix product")
    l, r = mp
    if isinstance(l, ast.Call) and astq.callee_name(prog, fi, l) in PINV:
        return {"up": l.args[0], "down": r, "trunc": [], "form": "pinv(up) . down"}
    if isinstance(l, ast.Call) and astq.callee_name(prog, fi, l) in INV:
        Rm, n1 = strip_trunc(l.args[0])
        Sm, n2 = strip_trunc(r)
        up = qr_part(prog, fi, Rm, 1)
        if up is None:
            raise Und(f"`{astq.src(Rm, 50)}` is not the R factor of a QR factorisation")
        sp = mat_product(prog, fi, Sm)
        if sp is None:
            raise Und(f"`{astq.src(Sm, 50)}` is not Q^T . down")
        qt, down = sp
        if not (isinstance(qt, ast.Attribute) and qt.attr == "T"):
            raise Und("Q is not transposed in Q^T . down")
        upq = qr_part(prog, fi, qt.value, 0)
        if upq is None or astq.dump(upq) != astq.dump(up):
            raise Und("Q and R do not come from the same QR factorisation")
        return {"up": up, "down": down, "trunc": [x for x in (n1, n2) if x is not None], "form": "inv(R) . (Q^T . down)"}
    if isinstance(l, ast.Subscript) and isinstance(l.value, ast.Call) and astq.callee_name(prog, fi, l.value) in ("numpy.linalg.lstsq", "scipy.linalg.lstsq"):
        return {"up": l.value.args[0], "down": l.value.args[1], "trunc": [], "form": "lstsq(up, down)"}
    raise Und(f"`{astq.src(e, 70)}` is neither pinv(up).down nor inv(R).(Q^T.down)")


def appended_values(fi):
    """{list name: [(append call, arg)]}"""
    out = {}
    for n in ast.walk(fi.node):
        if isinstance(n, ast.Call) and isinstance(n.func, ast.Attribute) and n.func.attr == "append" and isinstance(n.func.value, ast.Name) and len(n.args) == 1:
            out.setdefault(n.func.value.id, []).append((n, n.args[0]))
    return out


def criteria_shared(prog, run):
    """single-setup SSI classes: the pole tables computed by SSI_poles reach the result table of the same kind, every hard criterion is
    handed to the parameter that implements it and is applied as a boolean selection (rules shared with C09) - a mis-bound limit or a
    mask used as an index removes true poles at order 2m"""
    from . import C09
    from .. import maskkind
    run.rule("R-criteria", "SSIdat / SSIcov run(): result tables = tables of the same kind from SSI_poles; hc limits bound to the parameters of their names; masks applied as boolean selections", 10)
    cls_ = [("algorithms.ssi.SSIdat", "dat", False), ("algorithms.ssi.SSIcov", "cov_mm", False)]
    C09.slot_provenance(prog, run, "R-criteria", classes=cls_)
    C09.classes_rules(prog, run, cls_, {"bind": "R-criteria"})
    maskkind.obligations(prog, run, "R-criteria", ("pyoma2.algorithms.ssi",))


def eigvec_rule(prog, run, rule="R-eigvec"):
    """mode shapes are C times the RIGHT eigenvectors of the state matrix; the vectors handed on for the sensitivities are (left, right)
    in that order - read off the positional layout of the eigen-solver's outputs for the `left=` setting in force"""
    run.rule(rule, "ac2mp: phi = C . (right eigenvectors of A) and the returned eigenvector slots are (left, right), for both settings of calc_unc - by the "
             "output layout of the eigen-solver (w, [vl], [vr])", 2)
    fi = prog.func("functions.ssi.ac2mp")
    f = rel(prog.mods[fi.mod].path)
    pos = astq.params_of(fi.node)[0]
    cpar = pos[1] if len(pos) > 1 else "C"
    upar = "calc_unc" if "calc_unc" in pos else None
    for unc in ((True, False) if upar else (None,)):
        pf = astq.PrunedFn(fi, {upar: unc}, subst=True) if upar else fi
        cfg = f"calc_unc={unc}"
        dots = [c for c in ast.walk(pf.node) if (isinstance(c, ast.Call) and (astq.callee_name(prog, pf, c) or "") in ("numpy.dot", "numpy.matmul") and len(c.args) == 2
                                                  and isinstance(c.args[0], ast.Name) and c.args[0].id == cpar)
                or (isinstance(c, ast.BinOp) and isinstance(c.op, ast.MatMult) and isinstance(c.left, ast.Name) and c.left.id == cpar)]
        if not dots:
            run.ob(rule, fi.qual, "phi = C . V", None, "no product of the output matrix C with a matrix of eigenvectors found", file=f, config=cfg)
        for c in dots:
            v = c.args[1] if isinstance(c, ast.Call) else c.right
            role = astq.eig_output_role(prog, pf, astq.expr_at(pf, c, v))
            run.ob(rule, fi.qual, "phi = C . V: V = right eigenvectors", None if role is None else role == "vr",
                   f"`{astq.src(c, 60)}`: V is " + {"vr": "the right eigenvectors", "vl": "the LEFT eigenvectors (the output that follows the eigenvalues when left=True)",
                                                   "w": "the eigenvalues", None: "not a positional output of the eigen-solver that could be read"}[role],
                   witness=f"V={role}", file=f, node=c, config=cfg)
        if unc:
            for r in ast.walk(pf.node):
                if isinstance(r, ast.Return) and isinstance(r.value, ast.Tuple) and len(r.value.elts) == 7:
                    for k_, want in ((5, "vl"), (6, "vr")):
                        role = astq.eig_output_role(prog, pf, astq.expr_at(pf, r, r.value.elts[k_]))
                        run.ob(rule, fi.qual, f"returned slot {k_} = {'left' if want == 'vl' else 'right'} eigenvectors", None if role is None else role == want,
                               f"`{astq.src(r.value.elts[k_])}` is output {role}", witness=f"slot{k_}={role}", file=f, node=r, config=cfg)


def check(prog, run):
    eigvec_rule(prog, run)
    astq.shortcut_obligations(prog, run, [m_.qual for _, m_ in prog.class_methods("pyoma2.algorithms.ssi", "run")] + ["functions.ssi.build_hank"])
    criteria_shared(prog, run)
    # the matrices the realisation is given: exact poles at order 2m need the moment-matrix Hankel to hold one lag per block and the
    # data-driven one to be the block of the LQ factor below the past rows (C12's structure rules, the two methods C01 speaks about)
    run.rule("R-hankel", "build_hank, methods cov_mm and dat: block (i, c) holds lag i+c+1 with uniform weights, br+1 block rows / columns; dat: R factor of [past; future]^T, "
             "returned block = rows below the past rows x columns of the past rows", 26)
    from . import C12
    C12.hankel_rules(prog, run.under({"R-lag": "R-hankel", "R-blocks": "R-hankel", "R-dat": "R-hankel"}, skip=lambda cfg: "cov_R" in (cfg or "")))
    run.rule("R-shift", "shift-invariance solve: up = O[:rows-w], down = O[w:] of one matrix, one shift w = channel count; A = pinv(up).down or inv(R).Q^T.down with QR of `up`; C = O[:w]", 15)
    run.rule("R-order-slot", "one truncation index per order; SSI_poles writes table column ii from AA[ii], CC[ii]", 6)
    run.rule("R-map", "ssi.ac2mp: lambda_c = log(lambda_d)/dt, fn = |lambda_c|/(2 pi), xi = -Re(lambda_c)/|lambda_c|", 3)
    for q, kind in FUNCS.items():
        fi = prog.func(q)
        f = rel(prog.mods[fi.mod].path)

        def ob(rule, role, ok, detail, witness="", node=None):
            run.ob(rule, fi.qual, role, ok, detail, witness=witness or detail[:90], file=f, node=node)
        rets = [n for n in ast.walk(fi.node) if isinstance(n, ast.Return) and isinstance(n.value, ast.Tuple)]
        if not rets:
            ob("R-shift", "return", None, "no tuple return")
            continue
        relts = rets[-1].value.elts
        # A and C are the last two list-valued returns (SSI: (A, C); SSI_fast: (Obs, A, C, ...); multi: (Obs_all, A, C))
        names = [e.id if isinstance(e, ast.Name) else None for e in relts]

        def alias_root(nm, depth=0):
            """the name a returned name stands for when it is bound once, to another name (also position-wise in `a, b = (x, y)`: what is
            left of a helper written out at its call)"""
            if nm is None or depth > 3:
                return nm
            defs = []
            for a_ in ast.walk(fi.node):
                if isinstance(a_, ast.Assign) and len(a_.targets) == 1:
                    t_, v_ = a_.targets[0], a_.value
                    if isinstance(t_, ast.Name) and t_.id == nm:
                        defs.append(v_)
                    elif isinstance(t_, (ast.Tuple, ast.List)) and isinstance(v_, (ast.Tuple, ast.List)) and len(t_.elts) == len(v_.elts):
                        for x_, y_ in zip(t_.elts, v_.elts):
                            if isinstance(x_, ast.Name) and x_.id == nm:
                                defs.append(y_)
            if len(defs) == 1 and isinstance(defs[0], ast.Name) and not astq.list_elements(fi, nm):
                return alias_root(defs[0].id, depth + 1)
            return nm
        names = [alias_root(n_) for n_ in names]
        apps = {n: astq.list_elements(fi, n) for n in names if n}
        lists = [n for n in names if apps.get(n)]
        if len(lists) < 2:
            ob("R-shift", "A / C lists", None, f"returned lists built by append not found ({names})")
            continue
        An, Cn = lists[0], lists[1]
        se = symidx.SymEval(prog, fi)
        try:
            acall, aarg = apps[An][0].at, apps[An][0].elt
            ax = astq.expr_at(fi, acall, aarg)
            rec = recognise_A(prog, fi, se, ax)
            up = row_slice(se, rec["up"])
            down = row_slice(se, rec["down"])
            if up is None or down is None:
                raise Und(f"up `{astq.src(rec['up'], 50)}` / down `{astq.src(rec['down'], 50)}` are not row slices")
            ob("R-shift", "state matrix form", True, rec["form"], node=acall)
            same = astq.dump(up[0]) == astq.dump(down[0])
            ob("R-shift", "both slices are taken from the same observability matrix", same, f"up from `{astq.src(up[0], 40)}`, down from `{astq.src(down[0], 40)}`",
               f"{astq.src(up[0], 30)} vs {astq.src(down[0], 30)}", acall)
            # up starts at row 0 and ends at rows - w ; down starts at w and runs to the end
            rows = P.s(astq.src(up[0], 60).replace(" ", "") + ".shape[0]")
            rows_alt = se.ev(ast.Subscript(value=ast.Attribute(value=up[0], attr="shape", ctx=ast.Load()), slice=ast.Constant(value=0), ctx=ast.Load()))
            w_down = down[1]
            ok_roles = up[1] == P.c(0) and up[2] is not None and down[2] is None and not (w_down == P.c(0))
            ob("R-shift", "`up` starts at row 0, `down` is the shifted slice", ok_roles,
               f"up rows [{up[1]!r}:{up[2]!r}], down rows [{down[1]!r}:{'end' if down[2] is None else repr(down[2])}]" + ("" if ok_roles else " - roles swapped: the solve returns A^-1"),
               f"up[{up[1]!r}:{up[2]!r}] down[{down[1]!r}:]", acall)
            if up[2] is not None:
                w_up = None
                for cand in (rows, rows_alt):
                    if cand is not None:
                        d = cand - up[2]
                        w_up = d if w_up is None or len(repr(d)) < len(repr(w_up)) else w_up
                same_w = w_up is not None and w_up == w_down
                if not same_w and (w_up is None or ".shape[0]" in repr(w_up - w_down)):
                    same_w = None      # the extent of the matrix could not be resolved: the difference still contains it
                ob("R-shift", "one shift: rows(up) = rows - w and down starts at w", same_w, f"up drops {w_up!r} rows, down starts at row {w_down!r}", f"{w_up!r} vs {w_down!r}", acall)
            # w == channel count
            if kind == "single":
                pos, _, _, _ = astq.params_of(fi.node)
                H, br = pos[0], pos[1]
                expw = P_div(P.s(f"{H}.shape[0]"), P.s(br) + 1)
                okw = w_down == expw
                def _resolved(sym_):
                    t_ = sym_
                    for a_ in (f"{H}.shape[0]", f"{H}.shape[1]", br):
                        t_ = t_.replace(a_, "")
                    return not re.search(r"[A-Za-z_]", t_)
                if not okw and any(not _resolved(s_) for k_ in w_down.t for s_, _e in k_):
                    okw = None          # written in terms that were not resolved to the extent of H and br
                ob("R-shift", "shift = channel count = H.shape[0]/(br+1)", okw, f"w = {w_down!r}", repr(w_down), acall)
            else:
                s = repr(w_down)
                okw = "sum(n_mov)" in s.replace(" ", "") or ("sum(" in s and "ref" in s)
                okw = okw and "shape[0]" in s
                ob("R-shift", "shift = total channel count n_ref + sum(n_mov)", okw, f"w = {w_down!r}", repr(w_down), acall)
            # C
            ccall, carg = apps[Cn][0].at, apps[Cn][0].elt
            cx = astq.expr_at(fi, ccall, carg)
            # (a copy of the window is the window: .copy() / np.array(..) / np.ascontiguousarray(..) keep every value)
            while (isinstance(cx, ast.Call) and isinstance(cx.func, ast.Attribute) and cx.func.attr == "copy" and not cx.args) or \
                    (isinstance(cx, ast.Call) and astq.callee_name(prog, fi, cx) in ("numpy.array", "numpy.ascontiguousarray", "numpy.copy", "numpy.asarray") and len(cx.args) == 1):
                cx = cx.func.value if isinstance(cx.func, ast.Attribute) and cx.func.attr == "copy" and not cx.args else cx.args[0]
            cs = row_slice(se, cx)
            okc = (astq.dump(cs[0]) == astq.dump(up[0]) and cs[1] == P.c(0) and cs[2] is not None and cs[2] == w_down) if cs is not None else None
            ob("R-shift", "C = first w rows of the same matrix", okc, f"C = `{astq.src(cx, 60)}`", astq.src(cx, 60), ccall)
            # truncation index
            tr = [astq.dump(t) for t in rec["trunc"]]
            if cs is not None and cs[3] is not None and cs[3].upper is not None:
                tr.append(astq.dump(cs[3].upper))
            if q.endswith(".SSI"):
                # Obs = U[:, :ii] . S[:ii, :ii]
                ob_expr = up[0]
                mp = mat_product(prog, fi, ob_expr)
                if mp is not None:
                    for side in mp:
                        if isinstance(side, ast.Subscript):
                            for x in astq.index_elts(side):
                                if isinstance(x, ast.Slice) and x.upper is not None and x.lower is None:
                                    tr.append(astq.dump(x.upper))
            if tr:
                ob("R-order-slot", "one truncation index throughout the order's computation", len(set(tr)) == 1, f"{len(tr)} truncations, {len(set(tr))} distinct index expression(s)", str(len(set(tr))), acall)
            # the `ordmax` of that loop is the caller's: a re-binding on the way (validation helpers) keeps the value or lowers it to no less than
            # what the matrices support - min(rows of the shifted observability matrix, columns of H)
            order_bound(prog, fi, ob)
            # loop over orders: the truncation index is the loop variable of a range(0, ordmax+1, step)
            for nm_ in (An, Cn):
                it_ = apps[nm_][0].iter
                if it_ is not None and symidx.is_range(prog, fi, it_) is not None:
                    ra = symidx.range_args(se, symidx.is_range(prog, fi, it_))
                    okr = ra is not None and ra[0] == P.c(0) and ra[1] == P.s("ordmax") + 1
                    ob("R-order-slot", f"orders 0..ordmax are realised (index in list {'A' if nm_ == An else 'C'} = order)", okr, f"range({', '.join(map(repr, ra)) if ra else '?'})", repr(ra), it_)
                elif it_ is not None:
                    ob("R-order-slot", f"orders 0..ordmax are realised (index in list {'A' if nm_ == An else 'C'} = order)", None, f"loop over `{astq.src(it_, 50)}` is not a range", node=it_)
                if nm_ == Cn and astq.dump(apps[An][0].iter) == astq.dump(apps[Cn][0].iter) if apps[An][0].iter is not None and apps[Cn][0].iter is not None else False:
                    break
        except Und as e:
            ob("R-shift", "structure", None, str(e))
    poles_slot(prog, run)
    # "extracting the modes at that order returns those values": the extraction rules of C11 are a necessary condition here too
    from . import C11
    C11.declare_extraction_rules(run, first_order=False, handover_min=None)
    C11.extraction(prog, run, first_order=False, with_handover=False)
    mapform.map_obligations(prog, run, "R-map", "functions.ssi.ac2mp", {"calc_unc": False}, "calc_unc=False", (0, 1, 3))
    mapform.map_obligations(prog, run, "R-map", "functions.ssi.ac2mp", {"calc_unc": True}, "calc_unc=True", (0, 1, 3))


def order_bound(prog, fi, ob):
    """re-bindings of the parameter `ordmax` inside the realisation routine: identity (int(ordmax), the same name), a default for None, or
    a clamp; a clamp lower than min(H.shape[0] - H.shape[0]//(br+1), H.shape[1]) drops orders the routine could realise (the property
    asks for order 2m whenever the matrix supports it)"""
    pos = astq.params_of(fi.node)[0]
    if "ordmax" not in pos or len(pos) < 2:
        return
    H, br = pos[0], pos[1]
    pm = astq.parent_map(fi.node)
    rebinds = [n for n in ast.walk(fi.node) if isinstance(n, ast.Assign) and any(isinstance(t, ast.Name) and t.id == "ordmax" for t in n.targets)]

    def none_guarded(n):
        g = astq.enclosing(pm, n, (ast.If,))
        return g is not None and n in g.body and astq.src(g.test).replace(" ", "") in ("ordmaxisNone", "Noneisordmax")

    def bounds_of(g, e, amap, depth=0):
        """the alternatives an expression of helper g may evaluate to: 'id' (the order handed in), frozenset of P (min over them), None"""
        e = astq.strip_coercion(e)
        if isinstance(e, ast.Name):
            if amap.get(e.id) == "ordmax":
                return ["id"]
            ds = [n.value for n in ast.walk(g.node) if isinstance(n, ast.Assign) and len(n.targets) == 1 and isinstance(n.targets[0], ast.Name) and n.targets[0].id == e.id]
            if len(ds) == 1:
                return bounds_of(g, ds[0], amap, depth)
            return [None]
        if isinstance(e, ast.Call) and astq.src(e.func) in ("min", "np.minimum", "numpy.minimum", "np.min") and len(e.args) >= 2:
            se_ = symidx.SymEval(prog, g)
            terms = []
            for a_ in e.args:
                v_ = se_.ev(astq.expr_at(g, e, a_) if isinstance(a_, ast.Name) else a_)
                if v_ is None:
                    return [None]
                # in the caller's names
                txt = repr(v_)
                terms.append(v_)
            ren = {p_: a_ for p_, a_ in amap.items() if a_ in (H, br)}
            return [("min", tuple(terms), tuple(sorted(ren.items())))]
        if isinstance(e, ast.Call) and depth < 3:
            try:
                r = prog.resolve_call(g, e)
            except Exception:
                r = None
            if isinstance(getattr(r, "node", None), ast.FunctionDef) and r.node is not g.node:
                m_, errs = astq.bind_args(r.node, e)
                sub = {}
                for p_, a_ in m_.items():
                    if isinstance(a_, ast.Name):
                        sub[p_] = amap.get(a_.id, a_.id if g is fi else None)
                out = []
                for ret in [x for x in ast.walk(r.node) if isinstance(x, ast.Return) and x.value is not None]:
                    out.extend(bounds_of(r, ret.value, sub, depth + 1))
                return out or [None]
        return [None]

    def canon(term, ren):
        t = repr(term).replace(" ", "")
        for p_, a_ in ren:
            t = re.sub(r"\b" + re.escape(p_) + r"\b", a_, t)
        return t
    se0 = symidx.SymEval(prog, fi)
    rows_ok = se0.ev(ast.parse(f"{H}.shape[0] - {H}.shape[0] // ({br} + 1)", mode="eval").body)
    cols_ok = se0.ev(ast.parse(f"{H}.shape[1]", mode="eval").body)
    want = {repr(rows_ok).replace(" ", ""), repr(cols_ok).replace(" ", "")}
    for n in rebinds:
        if none_guarded(n):
            continue                # a default for "not given": the orders asked for are not touched
        alts = bounds_of(fi, n.value, {"ordmax": "ordmax", H: H, br: br})
        verdict, why = True, []
        for a_ in alts:
            if a_ == "id":
                continue
            if a_ is None:
                verdict = None if verdict is True else verdict
                why.append("an alternative that was not read")
                continue
            got = {canon(t_, a_[2]) for t_ in a_[1]}
            if got == want:
                why.append("lowered at most to min(rows of the shifted observability matrix, columns of H)")
            else:
                # a term that is one of the admissible bounds minus something positive is a lower bound than the matrices impose
                smaller = [g_ for g_ in got - want if any(g_.startswith(w_) and g_[len(w_):len(w_) + 1] == "-" for w_ in want) or any(w_ in g_ and "-" in g_.replace(w_, "", 1) for w_ in want)]
                verdict = False if smaller else (None if verdict is True else verdict)
                why.append(f"lowered to min({', '.join(sorted(got))}), required no less than min({', '.join(sorted(want))})" +
                           (": orders the Hankel matrix supports are dropped (with a reference subset the column extent binds)" if smaller else ""))
        ob("R-order-slot", "the orders asked for are the orders realised (ordmax kept, or lowered only to what H supports)", verdict,
           f"`{astq.src(n, 60)}`: " + ("; ".join(why) if why else "the value handed in"), astq.src(n, 50), n)


def poles_slot(prog, run):
    fi = prog.func("functions.ssi.SSI_poles")
    f = rel(prog.mods[fi.mod].path)
    pf = astq.PrunedFn(fi, {"calc_unc": False})
    pos, _, _, _ = astq.params_of(fi.node)
    pAA, pCC = pos[1], pos[2]
    # the ac2mp call and the table stores in the order loop
    stores = []
    # the tables that are handed back (work arrays of the uncertainty branch are no pole tables)
    returned = {astq.alias_root(pf.node, x.id) for r in ast.walk(pf.node) if isinstance(r, ast.Return) and r.value is not None for x in ast.walk(r.value) if isinstance(x, ast.Name)}
    for n in ast.walk(pf.node):
        if isinstance(n, ast.Assign) and isinstance(n.targets[0], ast.Subscript) and isinstance(n.targets[0].value, ast.Name):
            if returned and astq.alias_root(pf.node, n.targets[0].value.id) not in returned and n.targets[0].value.id not in returned:
                continue
            el = astq.index_elts(n.targets[0])
            if len(el) >= 2:
                stores.append((n, el[1]))
    calls = [c for c in ast.walk(pf.node) if isinstance(c, ast.Call) and astq.callee_name(prog, pf, c).endswith(".ac2mp")]
    if not calls or not stores:
        run.ob("R-order-slot", fi.qual, "structure", None, "ac2mp call / table stores not found", file=f)
        return
    c = calls[0]
    a0 = astq.expr_at(pf, c, c.args[0])
    c0 = astq.expr_at(pf, c, c.args[1])
    def idx_of(e, base):
        return e.slice if isinstance(e, ast.Subscript) and isinstance(e.value, ast.Name) and e.value.id == base else None
    ia, ic = idx_of(a0, pAA), idx_of(c0, pCC)
    ok = ia is not None and ic is not None and astq.dump(ia) == astq.dump(ic)
    run.ob("R-order-slot", fi.qual, "A and C of the same order are paired", ok, f"ac2mp({astq.src(a0, 30)}, {astq.src(c0, 30)}, ...)", f"{astq.src(a0, 30)},{astq.src(c0, 30)}", file=f, node=c)
    cols = {astq.dump(col) for n, col in stores}
    okc = ia is not None and cols == {astq.dump(ia)}
    run.ob("R-order-slot", fi.qual, "every table column written is the order index used to fetch A, C", okc,
           f"{len(stores)} stores into column(s) {sorted({astq.src(col) for n, col in stores})}; matrices fetched at [{astq.src(ia) if ia is not None else '?'}]",
           str(sorted({astq.src(col) for n, col in stores})), file=f, node=stores[0][0])
    # tables that receive the complex mode shapes / eigenvalues returned by ac2mp must be complex arrays
    unpack = None
    pmap = astq.parent_map(pf.node)
    st = pmap.get(c)
    if isinstance(st, ast.Assign) and isinstance(st.targets[0], ast.Tuple):
        unpack = [e.id if isinstance(e, ast.Name) else None for e in st.targets[0].elts]
    cplx_locals = {unpack[k] for k in (2, 3) if unpack and len(unpack) > k and unpack[k]}
    for n, col in stores:
        if isinstance(n.value, ast.Name) and n.value.id in cplx_locals:
            tname = n.targets[0].value.id
            alloc = astq.expand(pf, ast.Name(id=tname, ctx=ast.Load()))
            txt = astq.src(alloc, 200)
            okc = isinstance(alloc, ast.Call) and (("dtype=complex" in txt.replace(" ", "")) or ("astype(complex)" in txt.replace(" ", "")) or ("complex128" in txt))
            run.ob("R-order-slot", fi.qual, f"table receiving the complex `{n.value.id}` of ac2mp is allocated complex", okc,
                   f"`{tname} = {txt[:70]}`" + ("" if okc else ": a real table silently drops the imaginary part of complex mode shapes / eigenvalues"),
                   f"{tname}: {txt[:50]}", file=f, node=n, config=tname)
    d = astq.expr_at(pf, c, astq.kwarg(c, "dt", 2)) if astq.kwarg(c, "dt", 2) is not None else None
    okd = isinstance(d, ast.Name) and d.id == "dt"
    run.ob("R-order-slot", fi.qual, "the sampling interval handed to ac2mp is the dt argument", okd, f"dt <- `{astq.src(d) if d is not None else None}`", astq.src(d) if d is not None else "none", file=f, node=c)


S = "functions.ssi"
MUTANTS = [
    ("C01-m01 shift off by one row", S, "SSI_fast", "O_m = Obs[l:, :]", "O_m = Obs[l + 1:, :]"),
    ("C01-m02 roles of up and down swapped", S, "SSI_fast", "O_p = Obs[:Obs.shape[0] - l, :]", "O_p = Obs[l:, :]\nO_m = Obs[:Obs.shape[0] - l, :]"),
    ("C01-m03 C from the last block", S, "SSI_fast", "C.append(Obs[:l, :ii])", "C.append(Obs[-l:, :ii])"),
    ("C01-m04 truncation differs in one place", S, "SSI_fast", "np.dot(np.linalg.inv(R[:ii, :ii]), S[:ii, :ii])", "np.dot(np.linalg.inv(R[:ii, :ii]), S[:ii + 1, :ii + 1])"),
    ("C01-m05 dt and fs confused", S, "ac2mp", "np.log(lam_d) * (1 / dt)", "np.log(lam_d) * dt"),
    ("C01-m06 2 pi -> pi", S, "ac2mp", "fn = abs(lam_c) / (2 * np.pi)", "fn = abs(lam_c) / np.pi"),
    ("C01-m07 sign of xi", S, "ac2mp", "xi = -(np.real(lam_c) / abs(lam_c))", "xi = np.real(lam_c) / abs(lam_c)"),
    ("C01-m08 legacy SSI shifts by br", S, "SSI", "np.dot(np.linalg.pinv(Obs[:Obs.shape[0] - Nch, :]), Obs[Nch:, :])", "np.dot(np.linalg.pinv(Obs[:Obs.shape[0] - br, :]), Obs[br:, :])"),
    ("C01-m09 legacy SSI pinv of the shifted part", S, "SSI", "np.dot(np.linalg.pinv(Obs[:Obs.shape[0] - Nch, :]), Obs[Nch:, :])", "np.dot(np.linalg.pinv(Obs[Nch:, :]), Obs[:Obs.shape[0] - Nch, :])"),
    ("C01-m10 multi-setup shift by n_ref", S, "SSI_multi_setup", "O_m = Obs_all[n_DOF:, :]", "O_m = Obs_all[n_ref:, :]"),
    ("C01-m11 pole table column shifted", S, "SSI_poles", "Fn[:len(fn), ii] = fn", "Fn[:len(fn), ii - 1] = fn"),
    ("C01-m12 C of another order", S, "SSI_poles", "C = CC[ii]", "C = CC[ii - 1]"),
    ("C01-m13 channel count from the columns", S, "SSI_fast", "l = int(H.shape[0] / (br + 1))", "l = int(H.shape[1] / (br + 1))"),
    ("C01-m14 damping from the imaginary part", S, "ac2mp", "xi = -(np.real(lam_c) / abs(lam_c))", "xi = -(np.imag(lam_c) / abs(lam_c))"),
    ("C01-m16 mode-shape table allocated real", S, "SSI_poles", "Phi = np.full((ordmax, int(ordmax / step + 1), Nch), np.nan, dtype=complex)", "Phi = np.full((ordmax, int(ordmax / step + 1), Nch), np.nan)"),
    ("C01-m15 multi-setup C without the roving rows", S, "SSI_multi_setup", "C.append(Obs_all[:n_DOF, :i])", "C.append(Obs_all[:n_ref, :i])"),
]
REWRITES = [
    ("C01-r01 matmul operator", S, "SSI_fast", "np.dot(np.linalg.inv(R[:ii, :ii]), S[:ii, :ii])", "np.linalg.inv(R[:ii, :ii]) @ S[:ii, :ii]"),
    ("rename:C01-r02", S, "SSI_fast", "O_p", "obs_up"),
    ("C01-r03 division instead of reciprocal product", S, "ac2mp", "np.log(lam_d) * (1 / dt)", "np.log(lam_d) / dt"),
    ("C01-r04 np.abs", S, "ac2mp", "fn = abs(lam_c) / (2 * np.pi)", "fn = np.abs(lam_c) / (2 * np.pi)"),
    ("C01-r05 inline up/down", S, "SSI_multi_setup", "Q, R = np.linalg.qr(O_p)", "Q, R = np.linalg.qr(Obs_all[:Obs_all.shape[0] - n_DOF, :])"),
    ("rename:C01-r06", S, "SSI_poles", "A", "Amat"),
]
