"""C05 - pLSCF recovers an exactly rational spectrum and reports its poles.

Decided (structural): R-map - plscf.ac2mp_poly maps lambda_c = log(lambda_d)/dt, fn = |lambda_c|/2pi, xi = -Re/|.| (same normal form as
ssi.ac2mp: sibling agreement); R-blank - the unstable-pole predicate Re(lambda) > 0 blanks the eigenvalue AND the matching eigenvector
column with the same predicate on the same eigenvalue array, before fn, xi, phi are formed; infinite frequencies become NaN;
O-units - the basis function exp(+-i w dt) has a dimensionless argument, the denominator coefficients have degree 0 in the scale of
the spectrum and the numerator degree 1, so the poles do not depend on it (both basis-function signs);
R-pad - all four per-order lists are padded with NaN to rectangular tables (one column per order).
Not decided: correctness of the normal equations and of the companion form, exact coefficient recovery, 'exactly one pole per root'.
"""
import ast

from ..absint import Interp, CTX, Cst, D, Tup, Lst, elem
from .. import hd, astq, mapform, symidx
from ..hd import SEC, expect, events_to_obligations
from ..program import rel, AnalysisError

POLY = "functions.plscf.ac2mp_poly"


def _decide_size_tests(prog, pf, x):
    """conditional expressions whose test compares two sizes (polynomials in channel counts / model order, all >= 1) are decided when
    the difference is identically zero or has coefficients of one sign:  Nch <= Nch  is true,  (n + 1) * Nch <= 0  is false"""
    from .. import symidx

    def sign(p_):
        """'0' / '+' / '-' for polynomials in positive integers, None if not determined"""
        if not p_.t:
            return "0"
        if any(any(e_ < 0 for s_, e_ in k) for k in p_.t):
            return None
        vs = list(p_.t.values())
        if all(v > 0 for v in vs):
            return "+"
        if all(v < 0 for v in vs):
            return "-"
        return None

    class T(ast.NodeTransformer):
        def visit_IfExp(self, n):
            self.generic_visit(n)
            t = n.test
            if isinstance(t, ast.Compare) and len(t.ops) == 1 and isinstance(t.ops[0], (ast.LtE, ast.Lt, ast.GtE, ast.Gt, ast.Eq, ast.NotEq)):
                se = symidx.SymEval(prog, pf)
                a, b = se.ev(astq.fold(t.left)), se.ev(astq.fold(t.comparators[0]))
                if a is not None and b is not None:
                    sg = sign(a - b)
                    op = t.ops[0]
                    val = None
                    if sg == "0":
                        val = isinstance(op, (ast.LtE, ast.GtE, ast.Eq))
                    elif sg == "+":
                        val = isinstance(op, (ast.Gt, ast.GtE, ast.NotEq))
                    elif sg == "-":
                        val = isinstance(op, (ast.Lt, ast.LtE, ast.NotEq))
                    if val is not None:
                        return n.body if val else n.orelse
            return n
    import copy as _copy
    return astq.fold(T().visit(_copy.deepcopy(x)))


def constraint(prog, run):
    """R-constraint: the coefficient stack alpha is [I ; solution] for the low-order constraint (basis sign -1) and [solution ; I] for the
    high-order one (+1): the identity block sits at the constrained end, un-permuted.  A reversal of ALL rows of such a stack (a trick to
    reuse one solver for both signs) also reverses the rows inside every block: the identity becomes the exchange matrix and every
    coefficient is multiplied by it, unless the columns are reversed as well."""
    run.rule("R-constraint", "alpha = [I ; X] (constraint on the lowest coefficient) / [X ; I] (highest): identity block at the constrained end, not permuted", 2)
    fi = prog.func("functions.plscf.pLSCF")
    f = rel(prog.mods[fi.mod].path)
    STACK = ("numpy.vstack", "numpy.concatenate", "numpy.row_stack")

    def blocks_of(e):
        """[block expressions] of np.r_[a, b] / vstack((a, b)) / concatenate((a, b)[, axis=0])"""
        if isinstance(e, ast.Subscript) and astq.src(e.value) in ("np.r_", "numpy.r_"):
            return list(astq.index_elts(e))
        if isinstance(e, ast.Call) and astq.callee_name(prog, fi, e) in STACK and e.args and isinstance(e.args[0], (ast.Tuple, ast.List)):
            return list(e.args[0].elts)
        return None

    def is_eye(e):
        return isinstance(e, ast.Call) and astq.callee_name(prog, fi, e) in ("numpy.eye", "numpy.identity")
    for label, want_pos in (("LO", 0), ("HI", -1)):
        cfg = f"constr={label}"
        pf = astq.PrunedFn(fi, {"constr": label, "sgn_basf": -1 if label == "LO" else 1}, subst=True)
        apps = [c for c in ast.walk(pf.node) if isinstance(c, ast.Call) and isinstance(c.func, ast.Attribute) and c.func.attr == "append" and isinstance(c.func.value, ast.Name)]
        rets = [r for r in ast.walk(pf.node) if isinstance(r, ast.Return) and isinstance(r.value, ast.Tuple)]
        first_list = rets[-1].value.elts[0].id if rets and isinstance(rets[-1].value.elts[0], ast.Name) else None
        target = [c for c in apps if c.func.value.id == first_list]
        if not target:
            run.ob("R-constraint", fi.qual, "coefficient stack", None, "the appended denominator coefficients were not found", file=f, config=cfg)
            continue
        x = astq.expr_at(pf, target[0], target[0].args[0])
        x = _decide_size_tests(prog, pf, x)
        # strip the final reshape into blocks
        while isinstance(x, ast.Call) and isinstance(x.func, ast.Attribute) and x.func.attr in ("reshape", "copy", "astype"):
            x = x.func.value
        rev_rows = rev_cols = False
        core = x
        if isinstance(core, ast.Subscript) and blocks_of(core) is None:
            el = astq.index_elts(core)
            def is_rev(sl):
                return isinstance(sl, ast.Slice) and sl.lower is None and sl.upper is None and sl.step is not None and astq.src(sl.step).replace(" ", "") == "-1"
            if all(isinstance(z, ast.Slice) for z in el) and any(is_rev(z) for z in el):
                rev_rows = is_rev(el[0])
                rev_cols = len(el) > 1 and is_rev(el[1])
                core = core.value
        bl = blocks_of(core)
        if bl is None or len(bl) != 2 or sum(1 for b in bl if is_eye(b)) != 1:
            run.ob("R-constraint", fi.qual, "coefficient stack", None, f"alpha = `{astq.src(x, 90)}` is not a stack of the identity block and a solution", file=f, node=target[0], config=cfg)
            continue
        pos = 0 if is_eye(bl[0]) else -1
        if rev_rows:
            pos = -1 if pos == 0 else 0
        ok_pos = pos == want_pos
        run.ob("R-constraint", fi.qual, f"identity block at the {'first' if want_pos == 0 else 'last'} coefficient", ok_pos,
               f"alpha = `{astq.src(x, 80)}`: identity block {'first' if pos == 0 else 'last'}" + (" (after the row reversal)" if rev_rows else ""), witness=f"{label}:{pos}", file=f, node=target[0], config=cfg)
        if rev_rows:
            run.ob("R-constraint", fi.qual, "a reversal of the stacked rows is matched by a reversal of the columns", rev_cols,
                   f"`{astq.src(x, 80)}`" + ("" if rev_cols else ": the rows INSIDE every block are reversed too - the identity block becomes the exchange matrix and every coefficient is multiplied by it"),
                   witness="row-reversal", file=f, node=target[0], config=cfg)


def normal_equations(prog, run):
    """R-normal-eq: the reduced normal equations of the estimator, as far as the shape of the code shows them -
         Ro = Xo^H Xo,  So = Xo^H Yo,  To = Yo^H Yo,  M += To - So^H Ro^-1 So   summed over the ROWS of the spectrum (reference outputs o),
         row f of Yo = -kron(row f of Xo, column f of Sy[o]).
    An anchor as much as a rule: when the assembly is written another way (contractions, batched products) nothing is read off it and the
    property is undecided here - a silent pass would claim what was not looked at."""
    run.rule("R-normal-eq", "pLSCF: Ro = Xo^H Xo, So = Xo^H Yo, To = Yo^H Yo, M accumulates To - So^H Ro^-1 So over the reference rows of the spectrum; "
             "Yo = -kron(basis row, spectrum column)", 5)
    fi = prog.func("functions.plscf.pLSCF")
    f = rel(prog.mods[fi.mod].path)
    pos = astq.params_of(fi.node)[0]
    pSy = pos[0]

    def strip(e):
        while isinstance(e, ast.Call) and astq.callee_name(prog, fi, e) in ("numpy.real", "numpy.asarray", "numpy.array") and len(e.args) == 1:
            e = e.args[0]
        return e

    def atoms(e):
        """[(text of the atom without conjugation, inverted, transposed)] - conj() is dropped: Hermitian and plain transposition have one shape"""
        import copy as _copy

        class _NoConj(ast.NodeTransformer):
            def visit_Call(self, c):
                self.generic_visit(c)
                if isinstance(c.func, ast.Attribute) and c.func.attr in ("conj", "conjugate") and not c.args:
                    return c.func.value
                if astq.callee_name(prog, fi, c) in ("numpy.conj", "numpy.conjugate", "numpy.real") and len(c.args) == 1:
                    return c.args[0]
                return c
        nf = astq.matnf(prog, fi, _NoConj().visit(_copy.deepcopy(strip(e))))
        if nf is None:
            return None
        out = []
        for x, i, t in nf:
            while True:
                if isinstance(x, ast.Call) and isinstance(x.func, ast.Attribute) and x.func.attr in ("conj", "conjugate") and not x.args:
                    x = x.func.value
                elif isinstance(x, ast.Call) and astq.callee_name(prog, fi, x) in ("numpy.conj", "numpy.conjugate") and len(x.args) == 1:
                    x = x.args[0]
                elif isinstance(x, ast.Attribute) and x.attr == "T":
                    x, t = x.value, not t
                else:
                    break
            if isinstance(x, ast.Name):
                d_ = _Defs().get(x.id)
                # a name for the (conjugate) transpose of another name: Xoh = Xo.conj().T
                y, tt = d_, False
                for _ in range(4):
                    if isinstance(y, ast.Call) and isinstance(y.func, ast.Attribute) and y.func.attr in ("conj", "conjugate") and not y.args:
                        y = y.func.value
                    elif isinstance(y, ast.Call) and astq.callee_name(prog, fi, y) in ("numpy.conj", "numpy.conjugate") and len(y.args) == 1:
                        y = y.args[0]
                    elif isinstance(y, ast.Attribute) and y.attr == "T":
                        y, tt = y.value, not tt
                    else:
                        break
                if isinstance(y, ast.Name) and y is not d_:
                    x, t = y, (t != tt)
            out.append((astq.src(x, 200), i, t))
        return out

    # the accumulation M += <To> - <So^H Ro^-1 So> inside the loop over the rows of the spectrum
    acc = [n for n in ast.walk(fi.node) if isinstance(n, ast.AugAssign) and isinstance(n.op, ast.Add) and isinstance(n.target, ast.Name)
           and isinstance(n.value, ast.BinOp) and isinstance(n.value.op, ast.Sub)]
    if len(acc) != 1:
        run.ob("R-normal-eq", fi.qual, "accumulation M += To - So^H Ro^-1 So", None, f"{len(acc)} statements of the form `M += A - B` found: the assembly is written another way, nothing is read off it", file=f)
        return
    a = acc[0]
    pm = astq.parent_map(fi.node)
    loop = astq.enclosing(pm, a, (ast.For,))
    keep = ()
    to_x = astq.expr_at(fi, a, a.value.left)
    sub_x = astq.expr_at(fi, a, a.value.right)
    # names of the three factors as the code has them: expand only one level, so that Xo / Yo stay names
    class _Defs(dict):
        """the defining expression of a local as WRITTEN (one assignment in the function), not expanded any further"""
        def get(self, k, d=None):
            ds = [n.value for n in ast.walk(fi.node) if isinstance(n, ast.Assign) and len(n.targets) == 1 and isinstance(n.targets[0], ast.Name) and n.targets[0].id == k]
            return ds[0] if len(ds) == 1 else d

    def one_level(name_node):
        return _Defs().get(name_node.id) if isinstance(name_node, ast.Name) else None
    To_e = a.value.left
    To_def = one_level(To_e) if isinstance(To_e, ast.Name) else To_e
    t_at = atoms(To_def) if To_def is not None else None
    okT = None
    if t_at is not None and len(t_at) == 2:
        (x1, i1, t1), (x2, i2, t2) = t_at
        if x1 == x2 and not i1 and not i2:
            okT = True if (t1 and not t2) else (False if (not t1 and t2) else None)
    run.ob("R-normal-eq", fi.qual, "To = Yo^H Yo", okT, f"`{astq.src(To_def, 70) if To_def is not None else astq.src(To_e, 40)}`" + (": Yo Yo^H sums over the wrong index" if okT is False else ""),
           witness=str(t_at)[:80], file=f, node=a)
    Yo_name = t_at[0][0] if t_at else None
    s_at = atoms(a.value.right)
    okS = None
    So_name = Xo_name = None
    if s_at is not None and len(s_at) == 3:
        (x1, i1, t1), (x2, i2, t2), (x3, i3, t3) = s_at
        if x1 == x3 and not i1 and not i3 and i2:
            okS = True if (t1 and not t3) else (False if (not t1 and t3) else None)
            So_name = x1
    run.ob("R-normal-eq", fi.qual, "subtracted term = So^H Ro^-1 So", okS, f"`{astq.src(a.value.right, 80)}`", witness=str(s_at)[:80], file=f, node=a)
    env = _Defs()
    for nm_, want, label in ((So_name, "XY", "So = Xo^H Yo"), (s_at[1][0] if s_at and len(s_at) == 3 else None, "XX", "Ro = Xo^H Xo")):
        d_ = env.get(nm_) if nm_ else None
        at = atoms(d_) if d_ is not None else None
        ok = None
        if at is not None and len(at) == 2 and not at[0][1] and not at[1][1]:
            (x1, _, t1), (x2, _, t2) = at
            if want == "XX":
                ok = True if (x1 == x2 and t1 and not t2) else (False if x1 == x2 and not t1 and t2 else None)
                Xo_name = x1 if ok else Xo_name
            else:
                ok = True if (t1 and not t2 and x2 == Yo_name and x1 != x2) else (False if (x1 == Yo_name and x2 != x1) else None)
        run.ob("R-normal-eq", fi.qual, label, ok, f"`{astq.src(d_, 70) if d_ is not None else nm_}`", witness=str(at)[:80], file=f, node=a, config=label)
    # the loop: over the rows of the spectrum; Yo from the row's columns
    okL = None
    why = "loop of the accumulation not found"
    if loop is not None and isinstance(loop.target, ast.Name):
        rng = astq.expr_at(fi, loop, loop.iter)
        txt = astq.src(rng, 200).replace(" ", "")
        ov = loop.target.id
        yo_def = env.get(Yo_name) if Yo_name else None
        sy_rows = any(isinstance(s_, ast.Subscript) and isinstance(s_.value, ast.Name) and s_.value.id == pSy and astq.index_elts(s_) and isinstance(astq.index_elts(s_)[0], ast.Name)
                      and astq.index_elts(s_)[0].id == ov for b_ in loop.body for s_ in ast.walk(b_))
        se_ = symidx.SymEval(prog, fi)
        ra_ = symidx.range_args(se_, symidx.is_range(prog, fi, loop.iter)) if symidx.is_range(prog, fi, loop.iter) is not None else None
        stop_ = repr(ra_[1]).replace(" ", "") if ra_ is not None else txt
        first = stop_ == f"{pSy}.shape[0]" or f"{pSy}.shape[0]" in txt
        other = stop_ == f"{pSy}.shape[1]" or (f"{pSy}.shape[1]" in txt and not first)
        okL = True if (first and sy_rows) else (False if (other and sy_rows) else None)
        why = f"`for {ov} in {astq.src(loop.iter, 40)}` with {pSy}[{ov}, ...] read in its body" if sy_rows else f"`for {ov} in {astq.src(loop.iter, 40)}`: the row of the spectrum it stands for was not found"
        kr = [c for c in ast.walk(yo_def) if isinstance(c, ast.Call) and astq.callee_name(prog, fi, c) == "numpy.kron"] if yo_def is not None else []
        run.ob("R-normal-eq", fi.qual, "Yo = -kron(basis row, spectrum column)", True if len(kr) == 1 and isinstance(astq.pm_parent(yo_def, kr[0]) if hasattr(astq, "pm_parent") else None, ast.UnaryOp) else
               (None if len(kr) != 1 else _kron_sign(yo_def, kr[0])), f"`{astq.src(yo_def, 80) if yo_def is not None else Yo_name}`", file=f, node=a)
    run.ob("R-normal-eq", fi.qual, "summed over the reference rows of the spectrum", okL, why, witness=why[:80], file=f, node=loop or a)


def _kron_sign(expr, kr):
    pm = astq.parent_map(expr)
    par = pm.get(kr)
    if isinstance(par, ast.UnaryOp) and isinstance(par.op, ast.USub):
        return True
    return None


def check(prog, run):
    constraint(prog, run)
    normal_equations(prog, run)
    run.rule("R-stateless", "the identification changes no module-level table and no memoised value in place: the coefficients of one call do not depend on the "
             "basis-function sign / order of the calls before it", 3)
    from ..effects import shared_state_rule
    reach_ = sorted(q for q in prog.reachable([prog.func("functions.plscf.pLSCF").qual, prog.func("functions.plscf.pLSCF_poles").qual]) if q in prog.functions and not q.startswith("pyoma2.functions.plot"))
    shared_state_rule(prog, run, "R-stateless", reach_, "the model returned depends on the calls made before (another basis-function sign, another order)")
    sign_live(prog, run)
    run.rule("R-own-option", "the identification hands its options (the basis-function sign, dt, ..) to every helper that repeats them with the same default, wherever what the "
             "helper computes from them is used (an option left out is the helper's default whatever the caller set)", 0)
    raw_ = prog.raw
    roots_ = [raw_.func(q_).qual for q_ in ("functions.plscf.pLSCF", "functions.plscf.pLSCF_poles")]
    astq.repeated_option_rule(raw_, run, "R-own-option", sorted(q_ for q_ in raw_.reachable(roots_) if q_ in raw_.functions and not q_.startswith("pyoma2.functions.plot")))
    run.rule("R-map", "ac2mp_poly: lambda_c = log(lambda_d)/dt, fn = |lambda_c|/(2 pi), xi = -Re(lambda_c)/|lambda_c|", 3)
    run.rule("R-blank", "Re(lambda) > 0 blanks eigenvalue and eigenvector column alike (same predicate, same array), before fn/xi/phi; inf frequency -> NaN", 5)
    run.rule("O-units", "pLSCF: exp argument dimensionless, alpha ~ S^0, beta ~ S^1 for both basis-function signs; poles ~ 1/s", 8)
    run.rule("R-gram", "pLSCF: every inverse / linear solve inside the order loop is taken of a matrix built for THAT order (no block of the inverse of a larger Gramian)", 2)
    run.rule("R-pad", "Fns, Xis, Lambds padded by zip_longest(fillvalue=nan), Phi by a NaN-filled array: rectangular tables", 4)
    mapform.map_obligations(prog, run, "R-map", POLY, {"methodSy": "per"}, "methodSy=per", (0, 1, 3))
    run.rule("R-grid", "pLSCF samples its basis function on Nf lines from 0 to the Nyquist frequency inclusive", 1)
    basis_grid(prog, run)
    blank(prog, run)
    gram(prog, run)
    units(prog, run)
    pad(prog, run)
    # pLSCF.result after run(): each pole table of the result holds the table of the same kind returned by pLSCF_poles, every criterion
    # reaches it, and the criterion masks are applied as boolean selections (rules shared with C09)
    from . import C09
    from .. import maskkind
    run.rule("R-result", "pLSCF.run / pLSCF_MS.run: result pole tables = tables of the same kind from pLSCF_poles, filtered by every criterion with boolean selections", 8)
    cls_ = [("algorithms.plscf.pLSCF", "per", False), ("algorithms.plscf.pLSCF_MS", "per", False)]
    C09.slot_provenance(prog, run, "R-result", classes=cls_)
    C09.classes_rules(prog, run, cls_, {"reach": "R-result", "bind": "R-result"})
    maskkind.obligations(prog, run, "R-result", ("pyoma2.algorithms.plscf",))
    basis_sign(prog, run)


def basis_sign(prog, run):
    """the spectra of the two estimators are one-sided transforms with opposite conventions: run() must hand plscf.pLSCF the basis
    function sign that goes with the estimator in the run parameters (-1 periodogram, +1 correlogram), not leave it to the default"""
    from . import C09
    from ..taint import TaintInterp, TC
    run.rule("R-sign", "pLSCF.run / pLSCF_MS.run hand plscf.pLSCF sgn_basf = -1 for method_SD 'per' and +1 for 'cor'", 4)
    PL_ = "pyoma2.functions.plscf.pLSCF"
    for cq in ("algorithms.plscf.pLSCF", "algorithms.plscf.pLSCF_MS"):
        ci = prog.cls(cq)
        runf = prog.find_method(ci, "run")
        f = rel(prog.mods[runf.mod].path)
        for method, want in (("per", -1), ("cor", 1)):
            cfg = f"{ci.node.name}[method_SD={method}]"
            ti = TaintInterp(prog)
            ti.call_function(runf, [], {}, bound=C09.make_me(prog, ci, cq, method, False))
            calls = [(env, node) for q, env, node in ti.call_log if q == PL_]
            if not calls:
                run.ob("R-sign", runf.qual, "sgn_basf", None if (ti.unknown or ti.scoped) else False, f"plscf.pLSCF is not called by run() ({cfg})", witness="not called", file=f, node=runf.node, config=cfg)
                continue
            for env, node in calls:
                v = env.get("sgn_basf")
                if isinstance(v, TC) and isinstance(v.v, (int, float)) and not isinstance(v.v, bool):
                    ok = float(v.v) == float(want)
                    via = next((k_ for k_, x_ in env.items() if k_ != "sgn_basf" and isinstance(x_, TC) and x_.v == method), None)
                    if not ok and via is not None:
                        # the estimator's label itself is handed to the routine: the sign may be chosen from it in there (not followed)
                        run.ob("R-sign", runf.qual, "sgn_basf", None, f"sgn_basf = {v.v!r} for method_SD = {method!r}; the label {method!r} reaches plscf.pLSCF through its parameter `{via}` - "
                               f"how the sign is chosen from it there was not followed", file=f, node=node, config=cfg)
                        continue
                    run.ob("R-sign", runf.qual, "sgn_basf", ok, f"sgn_basf = {v.v!r} for method_SD = {method!r}" + ("" if ok else f", expected {want:+d}: the model is fitted with the basis function of the other estimator"),
                           witness=f"{method}:{v.v!r}", file=f, node=node, config=cfg)
                else:
                    run.ob("R-sign", runf.qual, "sgn_basf", None, f"the sign handed over for method_SD = {method!r} could not be evaluated", file=f, node=node, config=cfg)


def sign_live(prog, run):
    """'for either sign of the basis function': called with its other options at their defaults, plscf.pLSCF builds its basis function
    from the sign it is given - the sign is not replaced by a constant chosen from another option's default"""
    run.rule("R-sign-live", "plscf.pLSCF, other options at their defaults: the exponent of the basis function depends on the sign argument "
             "(a defaulted option from which the sign is chosen instead makes the argument dead)", 1)
    fi = prog.raw.functions.get("pyoma2.functions.plscf.pLSCF")
    if fi is None:
        return
    f = rel(prog.mods[fi.mod].path)
    pos, kwo = astq.params_of(fi.node)[0], astq.params_of(fi.node)[1]
    sp = next((p_ for p_ in pos + kwo if "sgn" in p_ or "sign" in p_), None)
    if sp is None:
        run.ob("R-sign-live", fi.qual, "sign argument", None, "no sign parameter found", file=f)
        return
    consts = {}
    for p_ in pos + kwo:
        d = astq._param_default(fi.node, p_)
        if p_ != sp and isinstance(d, ast.Constant) and (d.value is None or isinstance(d.value, (str, bool))):
            consts[p_] = d.value
    pf = astq.PrunedFn(fi, consts, subst=True, renormalise=False) if consts else fi
    dep = astq._depends_on(pf.node, {sp})
    exps = [c for c in ast.walk(pf.node) if isinstance(c, ast.Call) and astq.src(c.func).split(".")[-1] == "exp" and c.args]
    if not exps:
        run.ob("R-sign-live", fi.qual, "sign argument", None, "no exp(..) basis function found in pLSCF", file=f)
        return
    for c in exps:
        x_exp = astq.expr_at(pf, c, c.args[0])
        names = {x.id for x in ast.walk(x_exp) if isinstance(x, ast.Name)}
        live = names & dep
        raw_live = {x.id for x in ast.walk(c.args[0]) if isinstance(x, ast.Name)} & dep
        if not live and raw_live:
            # written with a name made from the sign, but written out it no longer mentions the sign: a constant under the defaults
            run.ob("R-sign-live", fi.qual, f"`{sp}` reaches the basis function", False,
                   f"`{astq.src(c, 50)}`: with the other options at their defaults ({', '.join(f'{k}={v!r}' for k, v in consts.items())}) the exponent is "
                   f"`{astq.src(x_exp, 70)}` - the sign handed in has no effect", witness="dead", file=f, node=c)
            return
        if not live:
            continue
        # a name made from the sign by a helper: does the helper still look at the sign when the other options are at their defaults?
        dead = None
        for st in ast.walk(pf.node):
            if isinstance(st, ast.Assign) and any(isinstance(t, ast.Name) and t.id in live for t in st.targets) and isinstance(st.value, ast.Call):
                v = astq.const_call(pf, st.value, dict(consts), numbers=True)
                if v is not astq._UNDEC:
                    dead = (st, v)
        run.ob("R-sign-live", fi.qual, f"`{sp}` reaches the basis function", dead is None,
               f"`{astq.src(c, 50)}`" + ("" if dead is None else f": `{astq.src(dead[0], 60)}` is the constant {dead[1]!r} when the other options are left at their defaults "
                                         f"({', '.join(f'{k}={v!r}' for k, v in consts.items())}) - the sign handed in has no effect"),
               witness="dead" if dead else "live", file=f, node=c)
        return
    run.ob("R-sign-live", fi.qual, f"`{sp}` reaches the basis function", None, "the exponent of the basis function does not mention anything made from the sign argument", file=f)


def _is_nan(prog, pf, e):
    """np.nan / np.repeat(np.nan, n) / np.full(n, np.nan) / np.full_like(x, np.nan) / a local holding one of them"""
    if isinstance(e, ast.Attribute) and e.attr.lower() == "nan":
        return True
    if isinstance(e, ast.Call):
        nm = astq.callee_name(prog, pf, e)
        if nm in ("numpy.repeat",) and e.args:
            return _is_nan(prog, pf, e.args[0])
        if nm in ("numpy.full", "numpy.full_like") and len(e.args) >= 2:
            return _is_nan(prog, pf, e.args[1])
        if nm in ("float",) and e.args and isinstance(e.args[0], ast.Constant) and str(e.args[0].value).lower() == "nan":
            return True
    if isinstance(e, ast.BinOp) and isinstance(e.op, ast.Mult):
        return _is_nan(prog, pf, e.left) or _is_nan(prog, pf, e.right)
    return False


def _blank_sites(prog, pf, e):
    """[(condition, value when true, value when false, node)] of np.where(c, a, b) / (a if c else b) inside e"""
    out = []
    for c in ast.walk(e):
        if isinstance(c, ast.Call) and astq.callee_name(prog, pf, c) == "numpy.where" and len(c.args) == 3:
            out.append((c.args[0], c.args[1], c.args[2], c))
        elif isinstance(c, ast.IfExp):
            out.append((c.test, c.body, c.orelse, c))
    return out


def basis_grid(prog, run):
    """R-grid: the basis function exp(+-j omega_k dt) is sampled on the grid of the spectral lines it is fitted to: Nf lines from 0 to the
    Nyquist frequency INCLUSIVE (spacing fs / (2 (Nf - 1))) - the grid every spectral estimator of the package returns"""
    from .. import symidx
    from ..poly import P, P_div
    fi = prog.func("functions.plscf.pLSCF")
    f = rel(prog.mods[fi.mod].path)
    pos, _, _, _ = astq.params_of(fi.node)
    pSy, pdt = pos[0], pos[1]
    exps = [c for c in ast.walk(fi.node) if isinstance(c, ast.Call) and astq.callee_name(prog, fi, c) == "numpy.exp" and c.args]
    grids = []
    for c in exps:
        x = astq.expr_at(fi, c, c.args[0], keep=(pSy, pdt))
        for g in ast.walk(x):
            if isinstance(g, ast.Call) and astq.callee_name(prog, fi, g) in ("numpy.linspace", "numpy.arange"):
                grids.append((c, x, g))
    if not grids:
        run.ob("R-grid", fi.qual, "frequency grid of the basis function", None, "no exp(... linspace/arange ...) basis function found", file=f)
        return
    se = symidx.SymEval(prog, fi, stop={pSy, pdt})
    se.atoms = True
    nf = P.s(f"{pSy}.shape[2]")
    want = P_div(P.c(1), 2 * P.s(pdt) * (nf - 1))
    for c, x, g in grids[:1]:
        nm = astq.callee_name(prog, fi, g)
        spacing = count = start = None
        if nm == "numpy.linspace" and len(g.args) >= 2:
            a, b = se.ev(g.args[0]), se.ev(g.args[1])
            n = astq.kwarg(g, "num", 2)
            n = se.ev(n) if n is not None else P.c(50)
            ep = astq.kwarg(g, "endpoint", 3)
            inclusive = ep is None or (isinstance(ep, ast.Constant) and ep.value is True)
            if a is not None and b is not None and n is not None and (ep is None or isinstance(ep, ast.Constant)):
                spacing = P_div(b - a, (n - 1) if inclusive else n)
                count, start = n, a
        elif nm == "numpy.arange":
            # arange(n) * d   (possibly inside a product): the factor multiplying the ramp up to the 2 pi dt of the exponent
            par = astq.parent_map(x)
            node = g
            fac = P.c(1)
            while isinstance(par.get(node), ast.BinOp) and isinstance(par[node].op, (ast.Mult, ast.Div)):
                up = par[node]
                other = up.right if up.left is node else up.left
                if isinstance(other, ast.Constant) and isinstance(other.value, complex):
                    node = up
                    continue
                v = se.ev(other)
                txt = astq.src(other)
                if v is None or "pi" in repr(v) or txt in (pdt, "sgn_basf"):
                    node = up
                    continue
                fac = fac * v if isinstance(up.op, ast.Mult) else P_div(fac, v)
                node = up
            ra = symidx.range_args(se, g)
            if ra is not None and ra[2] == P.c(1):
                spacing, count, start = fac, ra[1] - ra[0], ra[0] * fac
        if spacing is None:
            run.ob("R-grid", fi.qual, "frequency grid of the basis function", None, f"grid `{astq.src(g, 60)}` not evaluable", file=f, node=c)
            continue
        from ..poly import ratio_equal
        okr = ratio_equal(spacing, want)
        ok = None if okr is None else (okr and count == nf and start == P.c(0))
        run.ob("R-grid", fi.qual, "Nf lines from 0 to Nyquist inclusive: spacing 1/(2 dt (Nf-1))", ok,
               f"grid `{astq.src(g, 60)}`: start {start!r}, spacing {spacing!r}, {count!r} lines (required spacing {want!r}, {nf!r} lines)", witness=f"{spacing!r}|{count!r}", file=f, node=c)


def blank(prog, run):
    fi = prog.func(POLY)
    f = rel(prog.mods[fi.mod].path)
    pf = astq.IndexedFn(astq.PrunedFn(fi, {"methodSy": "per"}))
    rets = [n for n in ast.walk(pf.node) if isinstance(n, ast.Return) and isinstance(n.value, ast.Tuple)]
    r = rets[-1]
    lam = astq.canon_elem(prog, pf, astq.expr_at(pf, r, r.value.elts[3]))
    phi = astq.canon_elem(prog, pf, astq.expr_at(pf, r, r.value.elts[2]))
    inplace = [n for n in ast.walk(pf.node) if isinstance(n, ast.Assign) and isinstance(n.targets[0], ast.Subscript) and _is_nan(prog, pf, n.value)]
    sl = [x for x in _blank_sites(prog, pf, lam) if _is_nan(prog, pf, x[1]) or _is_nan(prog, pf, x[2])]
    sp = [x for x in _blank_sites(prog, pf, phi) if _is_nan(prog, pf, x[1]) or _is_nan(prog, pf, x[2])]
    if not sl:
        run.ob("R-blank", fi.qual, "eigenvalue blanking", None if inplace else False,
               "returned eigenvalues are not blanked with np.where(Re > 0, nan, .)" + (" (in-place NaN stores are not modelled)" if inplace else ""), witness="missing", file=f, node=r)
        return

    def gt_zero_real(t):
        """X for the predicate X.real > 0 (or 0 < X.real), else None"""
        if isinstance(t, ast.Compare) and len(t.ops) == 1:
            l, rr, op = t.left, t.comparators[0], t.ops[0]
            if isinstance(op, ast.Lt):
                l, rr, op = rr, l, ast.Gt()
            if isinstance(op, ast.Gt) and isinstance(rr, ast.Constant) and rr.value == 0 and isinstance(l, ast.Attribute) and l.attr == "real":
                return l.value
        return None
    cl, tl, fl, nl = sl[0]
    xl = gt_zero_real(cl)
    okl = None
    if xl is not None:
        okl = _is_nan(prog, pf, tl) and astq.dump(fl) == astq.dump(xl)
    elif isinstance(cl, ast.Compare):
        okl = False
    run.ob("R-blank", fi.qual, "eigenvalues: where(Re(lambda) > 0, nan, lambda)", okl, f"`{astq.src(nl, 90)}`", witness=astq.src(nl, 80), file=f, node=r)
    if not sp:
        # the mode shapes do not pass through any NaN-producing selection
        run.ob("R-blank", fi.qual, "eigenvector blanking", None if inplace else False,
               "mode shapes are formed from un-blanked eigenvectors: unstable poles keep their shape" + (" (in-place NaN stores are not modelled)" if inplace else ""),
               witness="missing", file=f, node=r)
    else:
        cp, tp, fp_, np_ = sp[0]
        # the comprehension / loop variable that numbers the columns
        comp = None
        for c in ast.walk(phi):
            if isinstance(c, (ast.ListComp, ast.GeneratorExp)) and any(x is np_ for x in ast.walk(c)):
                comp = c
        k = comp.generators[0].target.id if comp is not None and isinstance(comp.generators[0].target, ast.Name) else None
        same = okc = None
        if k is not None:
            # the comprehension variable indexes the blanking only when predicate or kept array are read at [.., k]; a `where` over the
            # whole arrays that merely sits inside a later comprehension (after expansion) is the broadcast form
            if not astq.strip_index(cp, k)[1] and not astq.strip_index(fp_ if _is_nan(prog, pf, tp) else tp, k)[1]:
                k = None
        if k is not None:
            gen, hits = astq.strip_index(cp, k)
            kept = fp_ if _is_nan(prog, pf, tp) else tp
            kgen, khits = astq.strip_index(kept, k)
            same = astq.dump(gen) == astq.dump(cl) if hits else None
            if _is_nan(prog, pf, fp_) and not _is_nan(prog, pf, tp):
                same = False if same else same       # NaN on the stable side
            isvec = "eig(" in astq.src(kgen) and astq.src(kgen).endswith("[1]")
            if khits:
                okc = isvec and khits[0][1] == 1 and len(khits) == 1
            elif isinstance(kept, ast.Subscript):
                okc = False if isvec or "eig(" in astq.src(kept) else None
            why_c = f"kept `{astq.src(kept, 60)}` under `{astq.src(cp, 40)}`"
        else:
            # broadcast form: np.where(pred, nan, V) / np.where(pred[None, :], nan, V)
            c0 = cp
            if isinstance(c0, ast.Call) and isinstance(c0.func, ast.Name) and c0.func.id in (astq.ROWMASK, astq.COLMASK) and len(c0.args) == 1:
                # functional form of an in-place masked store: V[:, pred] = nan (columns) / V[pred] = nan (rows)
                if c0.func.id == astq.ROWMASK:
                    okc = False          # rows (components) blanked, not the columns (eigenvectors)
                c0 = c0.args[0]
            elif isinstance(c0, ast.Subscript) and isinstance(c0.slice, ast.Tuple) and len(c0.slice.elts) == 2:
                a0, a1 = c0.slice.elts
                if isinstance(a0, ast.Constant) and a0.value is None and astq.is_full_slice(a1):
                    c0 = c0.value
                elif astq.is_full_slice(a0) and isinstance(a1, ast.Constant) and a1.value is None:
                    okc = False          # predicate broadcast along the rows, not the columns
                    c0 = c0.value
            same = astq.dump(c0) == astq.dump(cl)
            kept = fp_ if _is_nan(prog, pf, tp) else tp
            if okc is None:
                okc = True if ("eig(" in astq.src(kept) and astq.src(kept).endswith("[1]")) else None
            why_c = f"kept `{astq.src(kept, 60)}` under the broadcast predicate"
        run.ob("R-blank", fi.qual, "eigenvectors blanked with the same predicate on the same eigenvalue array", same,
               f"`{astq.src(cp, 60)}` vs `{astq.src(cl, 60)}`", witness=astq.src(cp, 60), file=f, node=r)
        run.ob("R-blank", fi.qual, "eigenvector column index = eigenvalue index", okc, why_c, witness=astq.src(kept, 60), file=f, node=r)
    def wheres(e):
        return _blank_sites(prog, pf, e)
    fnx = astq.expr_at(pf, r, r.value.elts[0])
    uses_blanked = bool(wheres(fnx))
    run.ob("R-blank", fi.qual, "fn/xi are formed from the blanked eigenvalues", uses_blanked, "fn derives from the np.where result" if uses_blanked else "fn derives from the un-blanked eigenvalues", witness="unblanked", file=f, node=r)
    pp = prog.func("functions.plscf.pLSCF_poles")
    fp = rel(prog.mods[pp.mod].path)
    # X[X == inf] = nan  /  X[np.isinf(X)] = nan  /  np.where(X == inf, nan, X)  /  np.where(np.isfinite(X), X, nan), in pLSCF_poles or a private helper
    from ..program import FuncInfo
    inf, mention, form = None, False, ""
    fns_ = [pp] + [r_ for c_, r_ in prog.calls_in(pp) if isinstance(r_, FuncInfo) and r_.node.name.startswith("_") and r_.mod == pp.mod]

    def infpred(c):
        t = astq.src(c, 400)
        pos_ = ("inf" in t and "==" in t) or "isinf(" in t or "isposinf(" in t
        neg_ = "isfinite(" in t and not t.lstrip().startswith(("~", "np.logical_not", "not "))
        inv_ = "isfinite(" in t and t.lstrip().startswith(("~", "np.logical_not"))
        return "pos" if (pos_ or inv_) else ("neg" if neg_ else None)
    for g_ in fns_:
        for n in ast.walk(g_.node):
            if "inf" in astq.src(n, 80) and isinstance(n, (ast.Compare, ast.Call)) and infpred(n):
                mention = True
            if isinstance(n, ast.Assign) and isinstance(n.targets[0], ast.Subscript) and infpred(n.targets[0].slice) == "pos":
                ok_ = isinstance(n.value, ast.Attribute) and n.value.attr.lower() == "nan"
                inf = ok_ if inf is None or ok_ is False else inf
                form = astq.src(n, 60)
            if isinstance(n, ast.Call) and astq.callee_name(prog, g_, n) == "numpy.where" and len(n.args) == 3 and infpred(n.args[0]):
                kind = infpred(n.args[0])
                repl = n.args[1] if kind == "pos" else n.args[2]
                ok_ = isinstance(repl, ast.Attribute) and repl.attr.lower() == "nan"
                inf = ok_ if inf is None or ok_ is False else inf
                form = astq.src(n, 60)
    if inf is None and not mention:
        inf = False
    run.ob("R-blank", pp.qual, "infinite frequencies become NaN", inf, f"`{form}`" if inf else ("no replacement of infinite frequencies" if inf is False and not form else f"`{form}`: form not recognised / not NaN"),
           witness="missing" if not form else form, file=fp, node=pp.node)


INVS = ("numpy.linalg.inv", "numpy.linalg.pinv", "scipy.linalg.inv", "scipy.linalg.pinv")
SOLVES = ("numpy.linalg.solve", "scipy.linalg.solve", "numpy.linalg.lstsq", "scipy.linalg.lstsq")


def gram(prog, run):
    fi = prog.func("functions.plscf.pLSCF")
    f = rel(prog.mods[fi.mod].path)
    pm = astq.parent_map(fi.node)
    from .. import symidx
    loops = [n for n in ast.walk(fi.node) if isinstance(n, ast.For) and isinstance(n.target, ast.Name) and symidx.is_range(prog, fi, n.iter) is not None
             and "ordmax" in astq.src(n.iter)]
    if not loops:
        run.ob("R-gram", fi.qual, "order loop", None, "loop over model orders not found", file=f)
        return
    loop = loops[0]
    nvar = loop.target.id
    variant = astq.loop_variant_names(loop)
    n_sites = 0
    # (a) a sliced inverse is not the inverse of the sliced matrix
    for sub in ast.walk(fi.node):
        if isinstance(sub, ast.Subscript) and any(isinstance(x, ast.Slice) and not astq.is_full_slice(x) for x in astq.index_elts(sub)):
            x = astq.expr_at(fi, sub, sub.value)
            if isinstance(x, ast.Call) and astq.callee_name(prog, fi, x) in INVS:
                n_sites += 1
                run.ob("R-gram", fi.qual, "no block of an inverse used as the inverse of a block", False,
                       f"`{astq.src(sub, 50)}` slices `{astq.src(x, 50)}`: the leading block of inv(R_ordmax) is not inv(R_n)", witness=astq.src(sub, 50), file=f, node=sub)
    # (b) every inverse / solve in (or feeding) the order loop depends on the order variable
    for c in ast.walk(fi.node):
        if isinstance(c, ast.Call) and astq.callee_name(prog, fi, c) in INVS + SOLVES and c.args:
            inside = any(x is c for x in ast.walk(loop))
            x = astq.expr_at(fi, c, c.args[0])
            dep = any(isinstance(z, ast.Name) and z.id in variant for z in ast.walk(x)) or any(isinstance(z, ast.Name) and z.id in variant for z in ast.walk(c.args[0]))
            n_sites += 1
            if inside:
                run.ob("R-gram", fi.qual, "matrix inverted in the order loop is built for that order", dep,
                       f"`{astq.src(c, 60)}`: argument " + ("depends on" if dep else "does NOT depend on") + f" the order variable `{nvar}`", witness=astq.src(c.args[0], 50), file=f, node=c, config=f"line-order#{n_sites}")
            else:
                used_in_loop = False
                tgt = pm.get(c)
                while tgt is not None and not isinstance(tgt, ast.Assign):
                    tgt = pm.get(tgt)
                if isinstance(tgt, ast.Assign) and isinstance(tgt.targets[0], ast.Name):
                    nm = tgt.targets[0].id
                    used_in_loop = any(isinstance(z, ast.Name) and z.id == nm for z in ast.walk(loop))
                run.ob("R-gram", fi.qual, "no order-independent inverse is shared between orders", not used_in_loop,
                       f"`{astq.src(c, 60)}` is computed once outside the order loop" + (" and used inside it" if used_in_loop else ""), witness=astq.src(c, 50), file=f, node=c)
    if n_sites == 0:
        run.ob("R-gram", fi.qual, "inverses / solves", None, "no inverse or linear solve found in pLSCF", file=f)


def units(prog, run):
    I = Interp(prog)
    fn = I.fn("functions.plscf.pLSCF")
    poles = I.fn("functions.plscf.pLSCF_poles")
    seen = set()
    for sgn in (-1, 1):
        cfg = f"sgn_basf={sgn}"
        CTX.events.clear()
        r = I.call(fn, [D(3, S=1), SEC, Cst(6)], {"sgn_basf": Cst(sgn)})
        if not isinstance(r, Tup) or len(r.items) != 2:
            run.ob("O-units", fn.qual, "return", None, f"unexpected return {r!r}"[:160], config=cfg)
            continue
        Ad, Bn = r.items
        expect(run, prog, "O-units", fn.qual, "denominator coefficients", elem(Ad), {}, cfg, allow_any=False)
        expect(run, prog, "O-units", fn.qual, "numerator coefficients", elem(Bn), dict(S=1), cfg, allow_any=False)
        r2 = I.call(poles, [Ad, Bn, SEC], {"methodSy": Cst("per"), "nxseg": Cst(1024)})
        if isinstance(r2, Tup) and len(r2.items) == 4:
            expect(run, prog, "O-units", poles.qual, "Fn", r2.items[0], dict(s=-1), cfg, allow_any=False)
            expect(run, prog, "O-units", poles.qual, "Xi", r2.items[1], {}, cfg, allow_any=False)
        events_to_obligations(run, prog, "O-units", cfg, seen=seen)
    run.trusted |= set(CTX.used)


def _nan_lit(e):
    return (isinstance(e, ast.Attribute) and e.attr.lower() == "nan") or (isinstance(e, ast.Call) and astq.src(e).replace('"', "'") == "float('nan')")


WRAPPERS = {"numpy.array", "numpy.asarray", "numpy.moveaxis", "numpy.transpose", "numpy.ascontiguousarray", "numpy.real", "list", "tuple"}


def nan_padded(prog, fi, e, at, depth=3):
    """is the table `e` (evaluated at `at` in fi) NaN where no data is written?  True: built by zip_longest(fillvalue=nan) or allocated
    as np.full(shape, nan) and filled by stores; False: another fill value is visible; None: not recognised"""
    from ..program import FuncInfo
    if e is None or depth < 0:
        return None
    while True:
        if isinstance(e, ast.Attribute) and e.attr in ("T", "real"):
            e = e.value
        elif isinstance(e, ast.Call) and isinstance(e.func, ast.Attribute) and e.func.attr in ("astype", "copy", "transpose", "reshape", "swapaxes"):
            e = e.func.value
        elif isinstance(e, ast.Call) and astq.callee_name(prog, fi, e) in WRAPPERS and e.args:
            e = e.args[0]
        else:
            break
    if isinstance(e, ast.Call):
        nm = astq.callee_name(prog, fi, e)
        if nm == "itertools.zip_longest":
            fv = astq.kwarg(e, "fillvalue")
            return _nan_lit(fv) if fv is not None else False
        if nm == "numpy.full" and len(e.args) >= 2:
            return True if _nan_lit(e.args[1]) else (False if isinstance(e.args[1], ast.Constant) else None)
        if nm in ("numpy.zeros", "numpy.ones", "numpy.zeros_like", "numpy.ones_like"):
            return False
        if isinstance(e.func, ast.Starred):
            return None
        zl = [c for c in ast.walk(e) if isinstance(c, ast.Call) and astq.callee_name(prog, fi, c) == "itertools.zip_longest"]
        if zl:
            fv = astq.kwarg(zl[0], "fillvalue")
            return _nan_lit(fv) if fv is not None else False
        try:
            r = prog.resolve_call(getattr(fi, "fi", fi), e)
        except Exception:
            r = None
        if isinstance(r, FuncInfo):
            rets = [n for n in ast.walk(r.node) if isinstance(n, ast.Return) and n.value is not None]
            vals = [nan_padded(prog, r, x.value, x, depth - 1) for x in rets]
            if vals and all(v is True for v in vals):
                return True
            if any(v is False for v in vals):
                return False
        return None
    if isinstance(e, ast.Name):
        # the allocation this name was given (element stores into it afterwards fill in the data)
        node = getattr(fi, "node", None)
        binds = [a for a in ast.walk(node) if isinstance(a, ast.Assign) and len(a.targets) == 1 and isinstance(a.targets[0], ast.Name) and a.targets[0].id == e.id]
        other = [n for n in ast.walk(node) if isinstance(n, ast.Name) and n.id == e.id and isinstance(n.ctx, ast.Store)]
        if len(binds) == 1 and len(other) == 1:
            return nan_padded(prog, fi, binds[0].value, binds[0], depth - 1)
        return None
    if isinstance(e, ast.Subscript):
        return nan_padded(prog, fi, e.value, at, depth - 1) if isinstance(e.slice, ast.Constant) else None
    if isinstance(e, (ast.GeneratorExp, ast.ListComp)) and len(e.generators) == 1:
        return nan_padded(prog, fi, e.elt, at, depth - 1)
    return None


def pad(prog, run):
    fi = prog.func("functions.plscf.pLSCF_poles")
    f = rel(prog.mods[fi.mod].path)
    rets = [n for n in ast.walk(fi.node) if isinstance(n, ast.Return) and isinstance(n.value, ast.Tuple)]
    if not rets:
        raise AnalysisError("anchor lost: pLSCF_poles return")
    r = rets[-1]
    for k, name in ((0, "Fn"), (1, "Xi"), (3, "Lambda")):
        x = astq.expr_at(fi, r, r.value.elts[k])
        ok = nan_padded(prog, fi, x, r)
        if ok is None:
            ok = nan_padded(prog, fi, r.value.elts[k], r)
        run.ob("R-pad", fi.qual, f"{name} table padded with NaN", ok, f"`{astq.src(x, 80)}`", witness=astq.src(x, 70), file=f, node=r)
    # Phi: every per-order block is written into a NaN-filled array of the final height
    full = [c for c in ast.walk(fi.node) if isinstance(c, ast.Call) and astq.callee_name(prog, fi, c) == "numpy.full" and len(c.args) >= 2
            and isinstance(c.args[1], ast.Attribute) and c.args[1].attr.lower() == "nan"]
    okphi = True if full else nan_padded(prog, fi, astq.expr_at(fi, r, r.value.elts[2]), r)
    if okphi is None:
        okphi = nan_padded(prog, fi, r.value.elts[2], r)
    run.ob("R-pad", fi.qual, "Phi blocks padded with NaN", okphi, f"{len(full)} NaN-filled allocation(s) in pLSCF_poles" + ("" if full else " (helpers followed)"), witness="missing", file=f, node=r)


PL = "functions.plscf"
MUTANTS = [
    ("C05-m13 To summed over the wrong index (Yo Yo^H)", "functions.plscf", "pLSCF", "To = np.real(np.dot(Yo.conj().T, Yo))", "To = np.real(np.dot(Yo, Yo.conj().T))"),
    ("C05-m14 normal equations summed over the columns of the spectrum", "functions.plscf", "pLSCF", "Nref = Sy.shape[0]", "Nref = Sy.shape[1]"),
    ("C05-m15 subtracted term with So in place of So^H", "functions.plscf", "pLSCF", "M += To - np.dot(So.T.conj(), np.linalg.solve(Ro, So))", "M += To - np.dot(So, np.linalg.solve(Ro, So.T.conj()))"),
    ("C05-m11 grid stops one line short of Nyquist", "functions.plscf", "pLSCF", "freq = np.linspace(0.0, fs / 2, Nf)", "freq = np.arange(Nf) * (fs / (2 * Nf))"),
    ("C05-m12 grid without the end point", "functions.plscf", "pLSCF", "freq = np.linspace(0.0, fs / 2, Nf)", "freq = np.linspace(0.0, fs / 2, Nf, endpoint=False)"),
    ("C05-m01 eigenvectors not blanked", PL, "ac2mp_poly", "phi = np.dot(C, Q)", "phi = np.dot(C, AuVett)"),
    ("C05-m02 stable poles blanked instead", PL, "ac2mp_poly", "lam_c = np.where(np.real(lambd) > 0, np.nan, lambd)", "lam_c = np.where(np.real(lambd) > 0, lambd, np.nan)"),
    ("C05-m03 blanking on the imaginary part", PL, "ac2mp_poly", "np.where(np.real(lambd[ii]) > 0, np.repeat(np.nan, AuVett.shape[1]), AuVett[:, ii])", "np.where(np.imag(lambd[ii]) > 0, np.repeat(np.nan, AuVett.shape[1]), AuVett[:, ii])"),
    ("C05-m04 z-to-s map with fs", PL, "ac2mp_poly", "lambd = np.log(lam_d) * (1 / dt)", "lambd = np.log(lam_d) * dt"),
    ("C05-m05 basis function with dimensional argument", PL, "pLSCF", "Omega = np.exp(sgn_basf * 1j * omega * dt)", "Omega = np.exp(sgn_basf * 1j * omega)"),
    ("C05-m06 zero padding of frequencies", PL, "pLSCF_poles", "Fns = np.array(list(itertools.zip_longest(*Fns, fillvalue=np.nan)))", "Fns = np.array(list(itertools.zip_longest(*Fns, fillvalue=0.0)))"),
    ("C05-m07 fn from un-blanked eigenvalues", PL, "ac2mp_poly", "fn = abs(lam_c) / (2 * np.pi)", "fn = abs(lambd) / (2 * np.pi)"),
    ("C05-m08 wrong eigenvector column", PL, "ac2mp_poly", "np.where(np.real(lambd[ii]) > 0, np.repeat(np.nan, AuVett.shape[1]), AuVett[:, ii])", "np.where(np.real(lambd[ii]) > 0, np.repeat(np.nan, AuVett.shape[1]), AuVett[:, ii - 1])"),
    ("C05-m09 inf frequencies kept", PL, "pLSCF_poles", "fn[fn == np.inf] = np.nan", "pass"),
    ("C05-m10 damping not normalised", PL, "ac2mp_poly", "xi = -(np.real(lam_c) / abs(lam_c))", "xi = -np.real(lam_c)"),
]
REWRITES = [
    ("C05-r04 grid as a scaled index ramp", "functions.plscf", "pLSCF", "freq = np.linspace(0.0, fs / 2, Nf)", "freq = np.arange(Nf) * (fs / (2 * (Nf - 1)))"),
    ("rename:C05-r01", PL, "ac2mp_poly", "lambd", "lam_all"),
    ("C05-r02 division form", PL, "ac2mp_poly", "lambd = np.log(lam_d) * (1 / dt)", "lambd = np.log(lam_d) / dt"),
    ("C05-r03 attribute real", PL, "ac2mp_poly", "lam_c = np.where(np.real(lambd) > 0, np.nan, lambd)", "lam_c = np.where(lambd.real > 0, np.nan, lambd)"),
]
