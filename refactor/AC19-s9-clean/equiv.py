"""
Differential test: the library on PYTHONPATH (CLEAN version) against the pristine sources
saved next to this file (orig_gen.py, orig_mixin.py).

Run as:  PYTHONPATH=<tree>/src /venv/bin/python equiv.py
Compares returned values (and raised exceptions) of
    gen.flatten_sns_names, gen.check_on_geo1, gen.check_on_geo2,
    GeometryMixin.def_geo1 / def_geo2 (-> geo1 / geo2 fields)
on randomly generated valid and single-fault-corrupted table sets.
"""

import copy
import importlib.util
import os
import sys

import numpy as np
import pandas as pd

from pyoma2.functions import gen as new_gen
from pyoma2.support.geometry import mixin as new_mixin

HERE = os.path.dirname(os.path.abspath(__file__))


def _load(name, fname):
    spec = importlib.util.spec_from_file_location(name, os.path.join(HERE, fname))
    mod = importlib.util.module_from_spec(spec)
    sys.modules[name] = mod
    spec.loader.exec_module(mod)
    return mod


orig_gen = _load("orig_gen", "orig_gen.py")
# loaded inside the geometry package so that its relative imports resolve
orig_mixin = _load("pyoma2.support.geometry._orig_mixin", "orig_mixin.py")
orig_mixin.check_on_geo1 = orig_gen.check_on_geo1
orig_mixin.check_on_geo2 = orig_gen.check_on_geo2

mismatches = []
n_cases = {"flatten": 0, "geo1": 0, "geo2": 0, "def_geo1": 0, "def_geo2": 0}
n_raised = {k: 0 for k in n_cases}


# ---------------------------------------------------------------------------------------
def same(a, b):
    if type(a) is not type(b):
        return False
    if a is None:
        return True
    if isinstance(a, pd.DataFrame):
        if a.shape != b.shape:
            return False
        if list(a.index) != list(b.index) or list(a.columns) != list(b.columns):
            return False
        if list(a.dtypes) != list(b.dtypes):
            return False
        return same(a.to_numpy(), b.to_numpy())
    if isinstance(a, np.ndarray):
        if a.shape != b.shape or a.dtype != b.dtype:
            return False
        if a.dtype == object:
            fa, fb = a.ravel().tolist(), b.ravel().tolist()
            return all(
                (x == y) or (isinstance(x, float) and isinstance(y, float) and x != x and y != y)
                for x, y in zip(fa, fb)
            )
        if np.issubdtype(a.dtype, np.number):
            return np.array_equal(a, b, equal_nan=True) and np.allclose(
                a, b, rtol=1e-12, atol=0, equal_nan=True
            )
        return np.array_equal(a, b)
    if isinstance(a, (list, tuple)):
        return len(a) == len(b) and all(same(x, y) for x, y in zip(a, b))
    return a == b


def run(f, *args, **kw):
    try:
        return ("ok", f(*args, **kw))
    except Exception as e:  # noqa: BLE001
        return ("exc", type(e).__name__, str(e))


def compare(kind, label, r_old, r_new):
    n_cases[kind] += 1
    if r_old[0] == "exc":
        n_raised[kind] += 1
    if r_old[0] != r_new[0]:
        mismatches.append(f"{kind} {label}: old {r_old[:2]} new {r_new[:2]}")
    elif r_old[0] == "exc":
        if r_old != r_new:
            mismatches.append(f"{kind} {label}: exception old {r_old} new {r_new}")
    elif not same(r_old[1], r_new[1]):
        mismatches.append(f"{kind} {label}: results differ\n old {r_old[1]}\n new {r_new[1]}")


# ---------------------------------------------------------------------------------------
def rand_names(rng, n, prefix="s"):
    pool = rng.permutation(90)[:n]
    return [f"{prefix}{int(i)}" for i in pool]


def names_form(rng, n):
    """-> (argument as the user gives it, ref_ind, flat list the library must arrive at)"""
    form = rng.choice(["list", "array", "row", "lol", "table"])
    if form in ("lol", "table") and n >= 2:
        k = int(rng.integers(1, min(3, n) + 1))  # references
        rov = rand_names(rng, n - k, "r")
        n_set = int(rng.integers(1, 4))
        cuts = np.sort(rng.integers(0, len(rov) + 1, size=n_set - 1)).tolist()
        groups = [rov[a:b] for a, b in zip([0] + cuts, cuts + [len(rov)])]
        setups, ref_ind = [], []
        for g in groups:
            size = k + len(g)
            pos = np.sort(rng.permutation(size)[:k]).tolist()
            row, it = [], iter(g)
            for j in range(size):
                row.append(f"ref{pos.index(j)}" if j in pos else next(it))
            setups.append(row)
            ref_ind.append(pos)
        flat = [f"REF{i + 1}" for i in range(k)] + rov
        if form == "table" and n_set > 1:
            width = max(len(r) for r in setups)
            arg = pd.DataFrame([r + [np.nan] * (width - len(r)) for r in setups])
        else:
            arg = setups
        return arg, ref_ind, flat
    flat = rand_names(rng, n)
    if form == "array":
        return np.array(flat), None, flat
    if form == "row":
        return pd.DataFrame([flat]), None, flat
    return list(flat), None, flat


def opt_table(rng, present, rows, ncol, hi, as_float=False):
    """an optional sheet: missing (None), empty, or filled"""
    if present == "absent":
        return None
    if present == "empty":
        return pd.DataFrame()
    if as_float:
        return pd.DataFrame(rng.uniform(-3, 3, size=(rows, ncol)).round(2))
    return pd.DataFrame(rng.integers(1, hi + 1, size=(rows, ncol)))


def make_geo1(rng):
    n = int(rng.integers(1, 13))
    arg, ref_ind, flat = names_form(rng, n)
    extra = [f"x{i}" for i in range(int(rng.integers(0, 3)))]
    rows = flat + extra
    perm = rng.permutation(len(rows))
    if rng.random() < 0.25:
        perm = np.arange(len(rows))
    idx = [rows[i] for i in perm]
    coord = pd.DataFrame(
        rng.uniform(-9, 9, size=(len(idx), 3)).round(3), index=idx, columns=["x", "y", "z"]
    )
    if rng.random() < 0.5:
        dirs = pd.DataFrame(
            rng.integers(-1, 2, size=(len(idx), 3)), index=idx, columns=["x", "y", "z"]
        )
    else:
        dirs = pd.DataFrame(
            rng.uniform(-1, 1, size=(len(idx), 3)).round(2), index=idx, columns=["x", "y", "z"]
        )
    d = {"sensors names": arg, "sensors coordinates": coord, "sensors directions": dirs}
    st = lambda: rng.choice(["absent", "empty", "full", "full"])  # noqa: E731
    nb = int(rng.integers(1, 6))
    opts = {
        "sensors lines": opt_table(rng, st(), int(rng.integers(1, 5)), 2, len(flat)),
        "BG nodes": opt_table(rng, st(), nb, 3, 0, as_float=True),
        "BG lines": opt_table(rng, st(), int(rng.integers(1, 4)), 2, nb),
        "BG surfaces": opt_table(rng, st(), int(rng.integers(1, 4)), 3, nb),
    }
    for k, v in opts.items():
        if v is not None:
            d[k] = v
    if rng.random() < 0.3:
        d["INFO"] = pd.DataFrame([["some text"]])
    return d, ref_ind, flat


def corrupt_geo1(rng, d, flat):
    c = rng.choice(
        [
            "drop", "unknown", "cols", "shape", "index", "name", "bgl", "bgs", "bgn",
            "dupidx", "dupname",
        ]
    )  # fmt: skip
    coord, dirs = d["sensors coordinates"], d["sensors directions"]
    if c == "drop":
        del d[rng.choice(["sensors names", "sensors coordinates", "sensors directions"])]
    elif c == "unknown":
        d["sensors line"] = pd.DataFrame([[1, 2]])
    elif c == "cols":
        d["sensors coordinates"] = coord.iloc[:, :2]
        d["sensors directions"] = dirs.iloc[:, :2]
    elif c == "shape":
        d["sensors directions"] = pd.concat([dirs, dirs.iloc[:1]])
    elif c == "index":
        d["sensors directions"] = dirs.rename(index={dirs.index[0]: "other"})
    elif c == "name":
        keep = [i for i in coord.index if i != flat[-1]]
        d["sensors coordinates"] = coord.loc[keep]
        d["sensors directions"] = dirs.loc[keep]
    elif c == "bgl":
        d["BG lines"] = pd.DataFrame([[1, 2, 3]])
    elif c == "bgs":
        d["BG surfaces"] = pd.DataFrame([[1, 2]])
    elif c == "bgn":
        d["BG nodes"] = pd.DataFrame([[1.0, 2.0]])
    elif c == "dupidx":
        d["sensors coordinates"] = pd.concat([coord, coord.iloc[:1]])
        d["sensors directions"] = pd.concat([dirs, dirs.iloc[:1]])
    elif c == "dupname" and isinstance(d["sensors names"], list) and d["sensors names"]:
        if isinstance(d["sensors names"][0], str):
            d["sensors names"] = d["sensors names"] + d["sensors names"][:1]
    return c


def make_geo2(rng):
    n = int(rng.integers(1, 10))
    arg, ref_ind, flat = names_form(rng, n)
    cnames = [f"c{i}" for i in range(int(rng.integers(0, 3)))]
    m = int(np.ceil((n + len(cnames)) / 3)) + int(rng.integers(0, 4))
    cells = list(flat) + cnames
    fill = m * 3 - len(cells)
    for _ in range(fill):
        r = rng.random()
        if r < 0.35:
            cells.append(0)
        elif r < 0.6:
            cells.append(np.nan)
        elif r < 0.8 and cnames:
            cells.append(str(rng.choice(cnames)))
        else:
            cells.append(str(rng.choice(flat)))
    cells = [cells[i] for i in rng.permutation(len(cells))]
    smap = pd.DataFrame(
        np.array(cells, dtype=object).reshape(m, 3), columns=["x", "y", "z"]
    )
    pts = pd.DataFrame(rng.uniform(-9, 9, size=(m, 3)).round(3), columns=["x", "y", "z"])
    if rng.random() < 0.3:
        pts = pd.DataFrame(rng.integers(-9, 9, size=(m, 3)), columns=["x", "y", "z"])
    d = {"sensors names": arg, "points coordinates": pts, "mapping": smap}
    if cnames:
        cols = [flat[i] for i in rng.permutation(len(flat))[: int(rng.integers(1, len(flat) + 1))]]
        vals = rng.uniform(-2, 2, size=(len(cnames), len(cols))).round(2)
        vals[rng.random(vals.shape) < 0.3] = np.nan
        d["constraints"] = pd.DataFrame(vals, index=cnames, columns=cols)
    elif rng.random() < 0.3:
        d["constraints"] = pd.DataFrame()
    r = rng.random()
    if r < 0.4:
        d["sensors sign"] = pd.DataFrame(
            rng.choice([-1, 1, 1, 0], size=(m, 3)), columns=["x", "y", "z"]
        )
    elif r < 0.55:
        d["sensors sign"] = pd.DataFrame(
            rng.choice([-1.0, 1.0], size=(m, 3)), columns=["x", "y", "z"]
        )
    elif r < 0.7:
        d["sensors sign"] = pd.DataFrame()
    st = lambda: rng.choice(["absent", "empty", "full", "full"])  # noqa: E731
    nb = int(rng.integers(1, 6))
    opts = {
        "sensors lines": opt_table(rng, st(), int(rng.integers(1, 5)), 2, m),
        "sensors surfaces": opt_table(rng, st(), int(rng.integers(1, 4)), 3, m),
        "BG nodes": opt_table(rng, st(), nb, 3, 0, as_float=True),
        "BG lines": opt_table(rng, st(), int(rng.integers(1, 4)), 2, nb),
        "BG surfaces": opt_table(rng, st(), int(rng.integers(1, 4)), 3, nb),
    }
    for k, v in opts.items():
        if v is not None:
            d[k] = v
    if rng.random() < 0.3:
        d["INFO"] = pd.DataFrame([["some text"]])
    return d, ref_ind, flat


def corrupt_geo2(rng, d, flat):
    c = rng.choice(
        ["drop", "unknown", "cols", "shape", "sign", "name", "ccol", "cidx", "bgl", "bgs", "bgn"]
    )
    if c == "drop":
        del d[rng.choice(["sensors names", "points coordinates", "mapping"])]
    elif c == "unknown":
        d["sensor sign"] = pd.DataFrame([[1, 1, 1]])
    elif c == "cols":
        d["points coordinates"] = d["points coordinates"].iloc[:, :2]
        d["mapping"] = d["mapping"].iloc[:, :2]
    elif c == "shape":
        d["mapping"] = pd.concat([d["mapping"], d["mapping"].iloc[:1]], ignore_index=True)
    elif c == "sign":
        d["sensors sign"] = pd.DataFrame(np.ones((len(d["mapping"]) + 1, 3)))
    elif c == "name":
        d["mapping"] = d["mapping"].replace({flat[0]: 0})
    elif c == "ccol":
        d["constraints"] = pd.DataFrame([[1.0]], index=["c0"], columns=["nobody"])
    elif c == "cidx":
        d["constraints"] = pd.DataFrame([[1.0]], index=["c_unused"], columns=[flat[0]])
    elif c == "bgl":
        d["BG lines"] = pd.DataFrame([[1, 2, 3]])
    elif c == "bgs":
        d["BG surfaces"] = pd.DataFrame([[1, 2]])
    elif c == "bgn":
        d["BG nodes"] = pd.DataFrame([[1.0, 2.0]])
    return c


# ---------------------------------------------------------------------------------------
def geo_fields(model):
    if model is None:
        return None
    return [(k, getattr(model, k)) for k in type(model).model_fields]


def make_owner(mod, ref_ind):
    class Owner(mod.GeometryMixin):
        pass

    o = Owner()
    if ref_ind is not None:
        o.ref_ind = ref_ind
    return o


def call_def_geo1(mod, d, ref_ind):
    o = make_owner(mod, ref_ind)
    o.def_geo1(
        d["sensors names"],
        d["sensors coordinates"],
        d["sensors directions"],
        sens_lines=d.get("sensors lines"),
        bg_nodes=d.get("BG nodes"),
        bg_lines=d.get("BG lines"),
        bg_surf=d.get("BG surfaces"),
    )
    return geo_fields(o.geo1)


def call_def_geo2(mod, d, ref_ind):
    o = make_owner(mod, ref_ind)
    o.def_geo2(
        d["sensors names"],
        d["points coordinates"],
        d["mapping"],
        cstr=d.get("constraints"),
        sens_sign=d.get("sensors sign"),
        sens_lines=d.get("sensors lines"),
        sens_surf=d.get("sensors surfaces"),
        bg_nodes=d.get("BG nodes"),
        bg_lines=d.get("BG lines"),
        bg_surf=d.get("BG surfaces"),
    )
    return geo_fields(o.geo2)


def main():
    rng = np.random.default_rng(19)

    # flatten_sns_names on its own (valid forms and a few invalid ones)
    for i in range(60):
        arg, ref_ind, _ = names_form(rng, int(rng.integers(1, 13)))
        if rng.random() < 0.15:
            ref_ind = None  # multi-setup without references -> AttributeError
        if rng.random() < 0.1:
            arg = rng.choice([3, "abc"]) if rng.random() < 0.5 else np.array([["a", "b"]])
        compare(
            "flatten",
            i,
            run(orig_gen.flatten_sns_names, copy.deepcopy(arg), ref_ind),
            run(new_gen.flatten_sns_names, copy.deepcopy(arg), ref_ind),
        )

    for i in range(150):
        d, ref_ind, flat = make_geo1(rng)
        label = f"{i}"
        if rng.random() < 0.4:
            label += " corrupted:" + corrupt_geo1(rng, d, flat)
        compare(
            "geo1",
            label,
            run(orig_gen.check_on_geo1, copy.deepcopy(d), ref_ind=ref_ind),
            run(new_gen.check_on_geo1, copy.deepcopy(d), ref_ind=ref_ind),
        )
        if all(k in d for k in ["sensors names", "sensors coordinates", "sensors directions"]):
            d.pop("INFO", None)
            d.pop("sensors line", None)
            compare(
                "def_geo1",
                label,
                run(call_def_geo1, orig_mixin, copy.deepcopy(d), ref_ind),
                run(call_def_geo1, new_mixin, copy.deepcopy(d), ref_ind),
            )

    for i in range(150):
        d, ref_ind, flat = make_geo2(rng)
        label = f"{i}"
        if rng.random() < 0.4:
            label += " corrupted:" + corrupt_geo2(rng, d, flat)
        fill = "zero" if rng.random() < 0.85 else "none"
        compare(
            "geo2",
            label,
            run(orig_gen.check_on_geo2, copy.deepcopy(d), ref_ind=ref_ind, fill_na=fill),
            run(new_gen.check_on_geo2, copy.deepcopy(d), ref_ind=ref_ind, fill_na=fill),
        )
        if all(k in d for k in ["sensors names", "points coordinates", "mapping"]):
            d.pop("INFO", None)
            d.pop("sensor sign", None)
            compare(
                "def_geo2",
                label,
                run(call_def_geo2, orig_mixin, copy.deepcopy(d), ref_ind),
                run(call_def_geo2, new_mixin, copy.deepcopy(d), ref_ind),
            )

    for k in n_cases:
        print(f"{k:9s}: {n_cases[k]:4d} cases, {n_raised[k]:3d} of them raising")
    if mismatches:
        print(f"FAIL ({len(mismatches)} mismatches)")
        for m in mismatches[:15]:
            print(" -", m)
        return 1
    print("PASS")
    return 0


if __name__ == "__main__":
    sys.exit(main())
