"""
Differential test for the C16 seed: CLEAN version of
    src/pyoma2/support/sel_from_plot.py   (SelFromPlot)
    src/pyoma2/algorithms/ssi.py          (SSIdat / SSIcov .mpe_from_plot)
against the pristine sources saved next to this file as orig_sel_from_plot.py and
orig_ssi.py.

Run as:  PYTHONPATH=<tree>/src /venv/bin/python equiv.py     (with the CLEAN version applied)

Both implementations are driven head-less with the same scripted key / mouse events
(Tk mocked, real matplotlib figure, events dispatched through the figure's callback
registry) in *sessions* of several dialogs in one process, and compared after every
single event: selection lists, modifier state, raised exceptions, the handed-over
``result`` and, for SSI, everything ``mpe_from_plot`` stores in the algorithm result.
"""
import importlib.util
import os
import sys
import types
import unittest.mock as mock

os.environ.setdefault("MPLBACKEND", "Agg")
os.environ.setdefault("TQDM_DISABLE", "1")

import matplotlib

matplotlib.use("Agg")
import logging

import matplotlib.pyplot as plt
import numpy as np

logging.disable(logging.CRITICAL)

HERE = os.path.dirname(os.path.abspath(__file__))

import pyoma2.algorithms.ssi as new_ssi
import pyoma2.support.sel_from_plot as new_sfp
from pyoma2.algorithms.data.result import FDDResult, pLSCFResult, SSIResult
from pyoma2.algorithms.fdd import FDD
from pyoma2.algorithms.plscf import pLSCF


def load(name, fname):
    spec = importlib.util.spec_from_file_location(name, os.path.join(HERE, fname))
    mod = importlib.util.module_from_spec(spec)
    sys.modules[name] = mod
    spec.loader.exec_module(mod)
    return mod


orig_sfp = load("pyoma2.support._orig_sel_from_plot", "orig_sel_from_plot.py")
orig_ssi = load("pyoma2.algorithms._orig_ssi", "orig_ssi.py")
orig_ssi.SelFromPlot = orig_sfp.SelFromPlot  # pristine algorithm uses the pristine dialog

SHIFT_DOWN, SHIFT_UP, CLICK = "shift_down", "shift_up", "click"


# --------------------------------------------------------------------------- driver
class Driver:
    """Plays a script inside the mocked mainloop and logs the state after each event."""

    def __init__(self, module):
        self.module = module
        self.script = []
        self.log = None
        self.current = None

    def install(self):
        driver = self
        cls = self.module.SelFromPlot
        orig_gui = cls._initialize_gui

        def gui(this):
            orig_gui(this)
            driver.current = this
            this.root.mainloop.side_effect = lambda *a, **k: driver.play(this)

        self._patches = [
            mock.patch.object(self.module, "FigureCanvasTkAgg"),
            mock.patch.object(self.module, "NavigationToolbar2Tk"),
            mock.patch.object(cls, "_initialize_gui", gui),
        ]
        for p in self._patches:
            p.start()

    def uninstall(self):
        for p in self._patches:
            p.stop()

    @staticmethod
    def snapshot(dlg):
        idx = dlg.pole_ind if dlg.plot in ("SSI", "pLSCF") else dlg.freq_ind
        assert type(dlg.sel_freq) is list and type(idx) is list
        return (
            [float(f) for f in dlg.sel_freq],
            [int(i) for i in idx],
            bool(dlg.shift_is_held),
            [float(v) for v in np.asarray(dlg.MARKER.get_xdata(), dtype=float)],
        )

    def play(self, dlg):
        cb = dlg.fig.canvas.callbacks
        log = [("open", self.snapshot(dlg))]
        for act in self.script:
            err = None
            try:
                if act[0] in (SHIFT_DOWN, SHIFT_UP):
                    name = "key_press_event" if act[0] == SHIFT_DOWN else "key_release_event"
                    cb.process(
                        name,
                        types.SimpleNamespace(
                            name=name, canvas=dlg.fig.canvas, key=act[1], guiEvent=None
                        ),
                    )
                elif act[0] == CLICK:
                    _, button, x, y = act
                    ev = types.SimpleNamespace(
                        name="button_press_event", canvas=dlg.fig.canvas, guiEvent=None,
                        button=button, xdata=x, ydata=y, inaxes=dlg.ax2, x=0, y=0, key=None,
                    )
                    cb.process("button_press_event", ev)
                else:  # direct call of a touched method
                    _, meth, x, y = act
                    dlg.x_data_pole, dlg.y_data_pole = x, [y]
                    if meth == "closest":
                        if dlg.plot == "FDD":
                            dlg.get_closest_freq()
                        else:
                            dlg.get_closest_pole(dlg.plot)
                    elif meth == "sort":
                        dlg.sort_selected_poles()
            except Exception as exc:  # what Tk would print and carry on from
                err = (type(exc).__name__, str(exc))
            log.append((act[0], err, self.snapshot(dlg)))
        self.log = log
        plt.close("all")


# --------------------------------------------------------------------------- fixtures
def pole_table(rng, nrow, ncol, first_col_empty):
    base = np.sort(rng.uniform(0.5, 9.5, size=nrow))
    tab = base[:, None] + rng.normal(scale=0.03, size=(nrow, ncol))
    if rng.random() < 0.5:  # poles that are exactly stable over the orders (ties)
        tab[: nrow // 2] = np.round(tab[: nrow // 2, :1], 1)
    tab[rng.random((nrow, ncol)) < 0.35] = np.nan
    if rng.random() < 0.3:
        tab[:, rng.integers(ncol)] = np.nan  # an order without any retained pole
    if first_col_empty:
        tab[:, 0] = np.nan
    return tab


def fill_stab(rng, tab, nch, cov):
    xi = np.where(np.isnan(tab), np.nan, rng.uniform(0.005, 0.05, size=tab.shape))
    phi = rng.normal(size=tab.shape + (nch,)) + 1j * rng.normal(size=tab.shape + (nch,))
    out = dict(Fn_poles=tab, Xi_poles=xi, Phi_poles=phi, Lab=(~np.isnan(tab)).astype(float))
    if cov:
        out.update(
            Fn_poles_cov=np.abs(rng.normal(size=tab.shape)),
            Xi_poles_cov=np.abs(rng.normal(size=tab.shape)),
            Phi_poles_cov=np.abs(rng.normal(size=tab.shape + (nch,))),
        )
    return out


def make_ssi(mod, fields, ordmax):
    algo = mod.SSIcov(name="SSIcov", br=4, ordmax=ordmax)
    algo.fs, algo.dt = 20.0, 0.05
    algo.result = SSIResult(**{k: np.copy(v) for k, v in fields.items()})
    return algo


def make_plscf(fields, ordmax):
    algo = pLSCF(name="pLSCF", ordmax=ordmax)
    algo.fs, algo.dt = 20.0, 0.05
    algo.result = pLSCFResult(**{k: np.copy(v) for k, v in fields.items()})
    return algo


def make_fdd(rng, nf, nch):
    freq = np.linspace(0.0, 10.0, nf)
    sval = np.zeros((nch, nch, nf))
    for k in range(nch):
        sval[k, k, :] = rng.uniform(1.0, 2.0, size=nf) * 10.0 ** (-k)
    svec = rng.normal(size=(nch, nch, nf)) + 1j * rng.normal(size=(nch, nch, nf))
    algo = FDD(name="FDD")
    algo.run_params = FDD.RunParamCls()
    algo.fs, algo.dt = 20.0, 0.05
    algo.result = FDDResult(freq=freq, S_val=sval, S_vec=svec)
    return algo


def random_script(rng, nmax):
    script = []
    if rng.random() < 0.85:
        script.append((SHIFT_DOWN, "shift"))
    for _ in range(rng.integers(0, nmax + 1)):
        u = rng.random()
        if u < 0.08:
            script.append((SHIFT_UP, rng.choice(["shift", "a", "control"])))
        elif u < 0.18:
            script.append((SHIFT_DOWN, rng.choice(["shift", "shift", "A"])))
        elif u < 0.26:
            script.append(
                ("call", rng.choice(["closest", "sort"]),
                 float(rng.uniform(-0.5, 10.5)), float(rng.uniform(-1.5, 12.0)))
            )
        else:
            b = int(rng.choice([1, 1, 1, 1, 2, 3]))
            x = float(rng.uniform(-0.5, 10.5))
            y = float(rng.uniform(-1.5, 12.0))
            if rng.random() < 0.1:
                y = float(np.round(y)) + 0.5  # exactly between two orders
            if rng.random() < 0.1:
                x = float(np.round(x, 1))
            script.append((CLICK, b, x, y))
    return script


# --------------------------------------------------------------------------- comparison
def same(a, b):
    if a is None or b is None:
        return a is None and b is None
    if isinstance(a, (list, tuple)) and isinstance(b, (list, tuple)) and (
        len(a) == 0 or not np.isscalar(a[0])
    ):
        return len(a) == len(b) and all(same(x, y) for x, y in zip(a, b))
    a, b = np.asarray(a), np.asarray(b)
    if a.shape != b.shape:
        return False
    if a.dtype.kind in "fc" or b.dtype.kind in "fc":
        return bool(np.allclose(a, b, rtol=1e-12, atol=0.0, equal_nan=True))
    return bool(np.array_equal(a, b))


def call(fn):
    try:
        return ("ok", fn())
    except Exception as exc:
        return ("raised", type(exc).__name__, str(exc))


def main():
    drv_new, drv_old = Driver(new_sfp), Driver(orig_sfp)
    tk_patches = [mock.patch.object(new_sfp.tk, "Tk"), mock.patch.object(new_sfp.tk, "Menu")]
    for p in tk_patches:
        p.start()
    drv_new.install()
    drv_old.install()
    problems = []
    n_dialogs = n_events = 0
    try:
        for session in range(40):
            rng = np.random.default_rng(4200 + session)
            nch = int(rng.integers(1, 5))
            om_s = int(rng.integers(3, 10))
            om_p = int(rng.integers(3, 10))
            cov = bool(rng.random() < 0.4)
            f_ssi = fill_stab(rng, pole_table(rng, om_s, om_s + 1, True), nch, cov)
            f_pl = fill_stab(rng, pole_table(rng, 2 * om_p, om_p, False), nch, False)
            ssi_new, ssi_old = make_ssi(new_ssi, f_ssi, om_s), make_ssi(orig_ssi, f_ssi, om_s)
            pl = make_plscf(f_pl, om_p)
            fd = make_fdd(rng, int(rng.integers(17, 200)), max(nch, 2))
            freqlim = None if rng.random() < 0.5 else (1.0, 4.0)

            for d in range(int(rng.integers(2, 6))):
                kind = ["SSI", "pLSCF", "FDD", "SSI-direct"][int(rng.integers(4))]
                script = random_script(rng, 8)
                drv_new.script = drv_old.script = script
                tag = f"session {session} dialog {d} [{kind}]"
                if kind == "SSI":
                    rtol = float(rng.choice([1e-2, 5e-2]))
                    r_new = call(lambda: ssi_new.mpe_from_plot(freqlim=freqlim, rtol=rtol))
                    r_old = call(lambda: ssi_old.mpe_from_plot(freqlim=freqlim, rtol=rtol))
                    if r_new[0] != r_old[0] or (r_new[0] == "raised" and r_new != r_old):
                        problems.append(f"{tag}: mpe_from_plot outcome {r_new} vs {r_old}")
                    for fld in ("Fn", "Xi", "Phi", "order_out", "Fn_cov", "Xi_cov", "Phi_cov"):
                        a, b = getattr(ssi_new.result, fld), getattr(ssi_old.result, fld)
                        if not same(a, b) or type(a) is not type(b):
                            problems.append(f"{tag}: result.{fld} differs: {a!r} vs {b!r}")
                    if ssi_new.run_params.rtol != ssi_old.run_params.rtol:
                        problems.append(f"{tag}: run_params.rtol differs")
                    d_new, d_old = drv_new.current, drv_old.current
                else:
                    plot = "SSI" if kind == "SSI-direct" else kind
                    algo = {"SSI": ssi_new, "pLSCF": pl, "FDD": fd}[plot]
                    o_new = call(lambda: new_sfp.SelFromPlot(algo, freqlim=freqlim, plot=plot))
                    o_old = call(lambda: orig_sfp.SelFromPlot(algo, freqlim=freqlim, plot=plot))
                    if o_new[0] != o_old[0] or (o_new[0] == "raised" and o_new != o_old):
                        problems.append(f"{tag}: constructor outcome {o_new} vs {o_old}")
                        continue
                    d_new, d_old = o_new[1], o_old[1]
                # event-by-event log
                if drv_new.log != drv_old.log:
                    for k, (a, b) in enumerate(zip(drv_new.log, drv_old.log)):
                        if a != b:
                            problems.append(f"{tag}: after event {k} {script[k-1] if k else ''}: {a} vs {b}")
                            break
                # hand-over
                ra, rb = d_new.result, d_old.result
                if not (same(ra[0], rb[0]) and same(ra[1], rb[1])):
                    problems.append(f"{tag}: result {ra} vs {rb}")
                if type(ra[0]) is not type(rb[0]) or type(ra[1]) is not type(rb[1]):
                    problems.append(f"{tag}: result types differ")
                if [type(v) for v in ra[0]] != [type(v) for v in rb[0]]:
                    problems.append(f"{tag}: element types of the frequency list differ")
                n_dialogs += 1
                n_events += len(script)
    finally:
        drv_new.uninstall()
        drv_old.uninstall()
        for p in tk_patches:
            p.stop()

    print(f"{n_dialogs} dialogs, {n_events} scripted events compared")
    if problems:
        print("FAIL")
        for p in problems[:15]:
            print("  " + p)
        sys.exit(1)
    print("PASS")
    sys.exit(0)


if __name__ == "__main__":
    main()
