"""
Differential test: the library on PYTHONPATH (CLEAN version of the commit) against the
pristine sources saved next to this script (orig_base.py, orig_multi.py).

Compares, on randomly generated inputs and configurations,
  * the static helpers BaseSetup._decimate_data / _detrend_data / _filter_data
    (and _filter_data(..., sos=_butter_sos(...)) against the original _filter_data),
  * MultiSetup_PreGER driven through random histories of
    decimate / detrend / filter / rollback / add_algorithms calls,
    attribute by attribute after every call, including raised exceptions.

Usage:  PYTHONPATH=<tree>/src /venv/bin/python equiv.py      -> prints PASS, exit 0
"""

from __future__ import annotations

import importlib.util
import os
import sys
import time
import warnings

import numpy as np

warnings.filterwarnings("ignore")

HERE = os.path.dirname(os.path.abspath(__file__))

# --------------------------------------------------------------------------- load both
from pyoma2.algorithms import SSIdat_MS  # noqa: E402
from pyoma2.setup.base import BaseSetup as NewBase  # noqa: E402
from pyoma2.setup.multi import MultiSetup_PreGER as NewMulti  # noqa: E402


def _load(name, filename, rewrite=None):
    path = os.path.join(HERE, filename)
    src = open(path).read()
    if rewrite:
        for a, b in rewrite:
            assert a in src, a
            src = src.replace(a, b)
    spec = importlib.util.spec_from_loader(name, loader=None, origin=path)
    mod = importlib.util.module_from_spec(spec)
    mod.__file__ = path
    sys.modules[name] = mod
    exec(compile(src, path, "exec"), mod.__dict__)
    return mod


orig_base = _load("orig_base", "orig_base.py")
orig_multi = _load(
    "orig_multi",
    "orig_multi.py",
    rewrite=[("from pyoma2.setup.base import BaseSetup", "from orig_base import BaseSetup")],
)
OldBase = orig_base.BaseSetup
OldMulti = orig_multi.MultiSetup_PreGER
assert OldMulti.__mro__[1] is OldBase and OldBase is not NewBase

RTOL = 1e-12
problems = []


def note(msg):
    if len(problems) < 10:
        problems.append(msg)


def eq(a, b):
    """Deep comparison of numbers / arrays / lists / dicts."""
    if isinstance(a, dict) or isinstance(b, dict):
        return (
            isinstance(a, dict)
            and isinstance(b, dict)
            and list(a) == list(b)
            and all(eq(a[k], b[k]) for k in a)
        )
    if isinstance(a, (list, tuple)) or isinstance(b, (list, tuple)):
        return (
            isinstance(a, (list, tuple))
            and isinstance(b, (list, tuple))
            and len(a) == len(b)
            and all(eq(x, y) for x, y in zip(a, b))
        )
    a = np.asarray(a)
    b = np.asarray(b)
    if a.shape != b.shape:
        return False
    return bool(np.array_equal(a, b) or np.allclose(a, b, rtol=RTOL, atol=0.0, equal_nan=True))


def call(f, *args, **kwargs):
    try:
        return ("ok", f(*args, **kwargs))
    except Exception as e:  # noqa: BLE001
        return ("exc", (type(e).__name__, str(e)))


def same_outcome(r_old, r_new):
    if r_old[0] != r_new[0]:
        return False
    if r_old[0] == "exc":
        return r_old[1] == r_new[1]
    return eq(r_old[1], r_new[1])


# --------------------------------------------------------------------------- generators
def make_data(rng, n, nch):
    t = np.arange(n)[:, None] / 100.0
    f = rng.uniform(0.5, 40.0, size=(2, nch))
    y = np.sin(2 * np.pi * f[0] * t) + 0.5 * np.cos(2 * np.pi * f[1] * t + 1.0)
    return y + 0.4 * rng.standard_normal((n, nch)) + rng.uniform(-1, 1, nch) * t


def rand_filter(rng, fs):
    btype = str(rng.choice(["lowpass", "highpass", "bandpass", "bandstop"]))
    nyq = fs / 2.0
    # now and then a critical frequency beyond Nyquist, which scipy refuses
    top = nyq * (1.3 if rng.random() < 0.15 else 0.95)
    if btype in ("bandpass", "bandstop"):
        lo = float(rng.uniform(0.02 * nyq, 0.4 * nyq))
        hi = float(rng.uniform(lo * 1.2, max(top, lo * 1.3)))
        form = int(rng.integers(0, 3))
        Wn = [(lo, hi), [lo, hi], np.array([lo, hi])][form]
    else:
        Wn = float(rng.uniform(0.05 * nyq, top))
        if rng.random() < 0.3:
            Wn = round(Wn)  # plain int
            Wn = max(Wn, 1)
    order = int(rng.integers(1, 9))
    return dict(Wn=Wn, order=order, btype=btype)


def rand_decimate(rng):
    kw = dict(q=int(rng.integers(2, 6)))
    if rng.random() < 0.5:
        kw["ftype"] = str(rng.choice(["iir", "fir"]))
    if rng.random() < 0.4:
        kw["n"] = int(rng.integers(2, 9)) if kw.get("ftype", "iir") == "iir" else int(rng.integers(8, 31))
    if rng.random() < 0.4:
        kw["zero_phase"] = bool(rng.integers(0, 2))
    if rng.random() < 0.1:
        kw["axis"] = 0
    return kw


def rand_detrend(rng, n):
    kw = {}
    if rng.random() < 0.6:
        kw["type"] = str(rng.choice(["linear", "constant"]))
    if rng.random() < 0.25:
        kw["bp"] = int(rng.integers(1, max(2, n - 1)))
    if rng.random() < 0.1:
        kw["overwrite_data"] = False
    if rng.random() < 0.05:
        kw["type"] = "quadratic"  # refused by scipy
    return kw


# --------------------------------------------------------------------------- part 1: helpers
def part_helpers(rng, ncases=40):
    for case in range(ncases):
        n = int(rng.integers(200, 1200))
        nch = int(rng.integers(1, 6))
        data = make_data(rng, n, nch)
        fs = float(rng.choice([50.0, 100.0, 128.0, 200.0]))

        kw = rand_decimate(rng)
        q = kw.pop("q")
        kw.setdefault("axis", 0)
        d0 = data.copy()
        r_old = call(OldBase._decimate_data, data=data, fs=fs, q=q, **kw)
        r_new = call(NewBase._decimate_data, data=data, fs=fs, q=q, **kw)
        if not same_outcome(r_old, r_new) or not np.array_equal(d0, data):
            note(f"helpers case {case}: _decimate_data q={q} {kw}")

        kw = rand_detrend(rng, n)
        r_old = call(OldBase._detrend_data, data=data, **kw)
        r_new = call(NewBase._detrend_data, data=data, **kw)
        if not same_outcome(r_old, r_new) or not np.array_equal(d0, data):
            note(f"helpers case {case}: _detrend_data {kw}")

        kw = rand_filter(rng, fs)
        r_old = call(OldBase._filter_data, data=data, fs=fs, **kw)
        r_new = call(NewBase._filter_data, data=data, fs=fs, **kw)
        if not same_outcome(r_old, r_new) or not np.array_equal(d0, data):
            note(f"helpers case {case}: _filter_data {kw}")
        # positional form, as used by the test-suite
        r_old = call(OldBase._filter_data, data, fs, kw["Wn"], kw["order"], kw["btype"])
        r_new = call(NewBase._filter_data, data, fs, kw["Wn"], kw["order"], kw["btype"])
        if not same_outcome(r_old, r_new):
            note(f"helpers case {case}: _filter_data positional {kw}")

        # design once + hand over, against the original one-step helper
        holder = NewBase()
        holder.fs = fs

        def two_step(holder=holder, data=data, fs=fs, kw=kw):
            out = []
            for _ in range(2):  # second round is served from the remembered design
                sos = holder._butter_sos(**kw)
                out.append(NewBase._filter_data(data=data, fs=fs, sos=sos, **kw))
            assert np.array_equal(out[0], out[1])
            return out[1]

        r_new = call(two_step)
        if not same_outcome(r_old, r_new) or not np.array_equal(d0, data):
            note(f"helpers case {case}: _butter_sos + _filter_data(sos=) {kw}")


# --------------------------------------------------------------------------- part 2: histories
ATTRS = ("fs", "dt", "Nsetup", "Nchs", "Ndats", "Ts", "ref_ind", "datasets", "data",
         "_initial_fs", "_initial_ref_ind", "_initial_datasets")


def snapshot(obj):
    snap = {}
    for a in ATTRS:
        snap[a] = getattr(obj, a, "<missing>")
    snap["algorithms"] = {
        k: (v.fs, v.dt, v.data) for k, v in getattr(obj, "algorithms", {}).items()
    }
    return snap


def compare_objects(old, new, where):
    so, sn = snapshot(old), snapshot(new)
    for k in so:
        if k == "algorithms":
            if list(so[k]) != list(sn[k]):
                note(f"{where}: algorithm names {list(so[k])} vs {list(sn[k])}")
                return False
            for name in so[k]:
                if not eq(list(so[k][name]), list(sn[k][name])):
                    note(f"{where}: algorithm '{name}' fs/dt/data differ")
                    return False
        elif not eq(so[k], sn[k]):
            note(f"{where}: attribute {k} differs")
            return False
    return True


def part_histories(rng, ncases=200):
    for case in range(ncases):
        nset = int(rng.integers(1, 4))
        n0 = int(rng.integers(600, 2500))
        datasets, ref_ind = [], []
        nref = int(rng.integers(1, 3))
        for _ in range(nset):
            nch = int(rng.integers(nref + 1, 6)) if rng.random() < 0.9 else nref + 1
            nch = max(nch, 2)
            n = n0 if rng.random() < 0.6 else int(rng.integers(600, 2500))
            datasets.append(make_data(rng, n, nch))
            ref_ind.append([int(c) for c in rng.permutation(nch)[: min(nref, nch - 1)]])
        fs0 = float(rng.choice([50.0, 100.0, 200.0]))

        pristine = [d.copy() for d in datasets]
        in_old = [d.copy() for d in datasets]
        in_new = [d.copy() for d in datasets]
        old = OldMulti(fs=fs0, ref_ind=[list(r) for r in ref_ind], datasets=in_old)
        new = NewMulti(fs=fs0, ref_ind=[list(r) for r in ref_ind], datasets=in_new)
        where = f"history case {case} [init]"
        if not compare_objects(old, new, where):
            continue

        remembered = []  # filters used so far, to be repeated later on
        nsteps = int(rng.integers(3, 9))
        for step in range(nsteps):
            kind = str(rng.choice(["decimate", "detrend", "filter", "filter", "rollback", "add"]))
            if kind == "decimate":
                kw = rand_decimate(rng)
                r_old = call(old.decimate_data, **dict(kw))
                r_new = call(new.decimate_data, **dict(kw))
            elif kind == "detrend":
                kw = rand_detrend(rng, min(old.Ndats))
                r_old = call(old.detrend_data, **dict(kw))
                r_new = call(new.detrend_data, **dict(kw))
            elif kind == "filter":
                if remembered and rng.random() < 0.5:
                    kw = remembered[int(rng.integers(0, len(remembered)))]
                else:
                    kw = rand_filter(rng, old.fs)
                    remembered.append(kw)
                if rng.random() < 0.3:  # positional / defaulted forms
                    r_old = call(old.filter_data, kw["Wn"], kw["order"])
                    r_new = call(new.filter_data, kw["Wn"], kw["order"])
                    kw = dict(kw, btype="lowpass(default)")
                else:
                    r_old = call(old.filter_data, **dict(kw))
                    r_new = call(new.filter_data, **dict(kw))
            elif kind == "rollback":
                kw = {}
                r_old = call(old.rollback)
                r_new = call(new.rollback)
            else:
                kw = {}
                nm = f"a{step}"
                r_old = call(old.add_algorithms, SSIdat_MS(name=nm, br=4))
                r_new = call(new.add_algorithms, SSIdat_MS(name=nm, br=4))
            where = f"history case {case} step {step} {kind} {kw}"
            if not same_outcome(r_old, r_new):
                note(f"{where}: outcome {r_old[0]}:{r_old[1] if r_old[0]=='exc' else ''} vs "
                     f"{r_new[0]}:{r_new[1] if r_new[0]=='exc' else ''}")
                break
            if not compare_objects(old, new, where):
                break
            for i, p in enumerate(pristine):
                if not (np.array_equal(in_new[i], p) and np.array_equal(in_old[i], p)):
                    note(f"{where}: user array {i} modified")
                    break


def main():
    t0 = time.time()
    rng = np.random.default_rng(14)
    part_helpers(rng)
    part_histories(rng)
    dt = time.time() - t0
    if problems:
        print(f"FAIL ({dt:.1f} s)")
        for p in problems:
            print("  -", p)
        return 1
    print(f"PASS (40 helper cases, 200 multi-setup histories, {dt:.1f} s)")
    return 0


if __name__ == "__main__":
    sys.exit(main())
