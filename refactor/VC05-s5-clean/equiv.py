"""
Differential test: the library found on PYTHONPATH (expected: CLEAN version of the
commit) against the pristine implementation saved next to this file as orig_plscf.py.

Run as:  PYTHONPATH=<tree>/src /venv/bin/python equiv.py
Prints PASS and exits 0 when every compared output agrees (array_equal, or
allclose(rtol=1e-12, atol=0, equal_nan=True)), including raised exception types.
"""
import importlib.util
import logging
import os
import sys
import warnings

import numpy as np

warnings.filterwarnings("ignore")
logging.disable(logging.CRITICAL)
os.environ.setdefault("TQDM_DISABLE", "1")

HERE = os.path.dirname(os.path.abspath(__file__))


def _load(name, path):
    spec = importlib.util.spec_from_file_location(name, path)
    mod = importlib.util.module_from_spec(spec)
    spec.loader.exec_module(mod)
    return mod


orig = _load("orig_plscf", os.path.join(HERE, "orig_plscf.py"))
from pyoma2.functions import plscf as new  # noqa: E402

# silence the progress bars of both implementations
for mod in (orig, new):
    mod.trange = lambda *a, **k: range(*a)

failures = []
ncmp = 0


def same(a, b):
    a = np.asarray(a)
    b = np.asarray(b)
    if a.shape != b.shape:
        return False
    if np.array_equal(a, b, equal_nan=True):
        return True
    with np.errstate(all="ignore"):
        return bool(np.allclose(a, b, rtol=1e-12, atol=0.0, equal_nan=True))


def flatten(out):
    if isinstance(out, (tuple, list)):
        res = []
        for o in out:
            res.extend(flatten(o))
        return res
    return [np.asarray(out)]


def compare(label, fname, *args, any_exception=False, **kwargs):
    global ncmp
    ncmp += 1
    res = []
    for mod in (orig, new):
        cargs = [a.copy() if isinstance(a, np.ndarray) else a for a in args]
        try:
            res.append(("ok", flatten(getattr(mod, fname)(*cargs, **kwargs)), cargs))
        except Exception as e:  # noqa: BLE001
            res.append(("exc", type(e).__name__, cargs))
    (k0, o0, a0), (k1, o1, a1) = res
    if k0 != k1:
        failures.append(f"{label}: orig {k0} {o0 if k0 == 'exc' else ''} / new {k1} {o1 if k1 == 'exc' else ''}")
        return
    if k0 == "exc":
        if o0 != o1 and not any_exception:
            failures.append(f"{label}: exception {o0} vs {o1}")
        return
    if len(o0) != len(o1):
        failures.append(f"{label}: {len(o0)} outputs vs {len(o1)}")
        return
    for i, (x, y) in enumerate(zip(o0, o1)):
        if not same(x, y):
            with np.errstate(all="ignore"):
                d = np.nanmax(np.abs(x - y)) if x.shape == y.shape else "shape"
            failures.append(f"{label}: output {i} differs (shape {x.shape} vs {y.shape}, max abs diff {d})")
    # inputs must be left alone by both
    for i, (x, y, z) in enumerate(zip(a0, a1, args)):
        if isinstance(z, np.ndarray) and not (
            np.array_equal(x, z, equal_nan=True) and np.array_equal(y, z, equal_nan=True)
        ):
            failures.append(f"{label}: argument {i} modified")


rng = np.random.default_rng(20240605)


def rand_sy(nref, nch, nf, kind):
    if kind == "real":
        return rng.random((nref, nch, nf))
    if kind == "complex":
        return rng.standard_normal((nref, nch, nf)) + 1j * rng.standard_normal((nref, nch, nf))
    if kind == "view":  # non-contiguous view, frequency axis first in memory
        a = rng.standard_normal((nf, nref, nch)) + 1j * rng.standard_normal((nf, nref, nch))
        return a.transpose(1, 2, 0)
    # rational spectrum B(z) A(z)^-1 of order 2
    z = np.exp(-1j * np.pi * np.linspace(0, 1, nf))
    A = rng.standard_normal((3, nch, nch))
    A[0] = np.eye(nch)
    B = rng.standard_normal((3, nref, nch))
    out = np.empty((nref, nch, nf), dtype=complex)
    for k in range(nf):
        Az = sum(A[i] * z[k] ** i for i in range(3))
        Bz = sum(B[i] * z[k] ** i for i in range(3))
        out[:, :, k] = Bz @ np.linalg.inv(Az)
    return out


# ---------------------------------------------------------------- pLSCF + pLSCF_poles
kinds = ["real", "complex", "view", "rational"]
case = 0
for rep in range(28):
    nch = int(rng.integers(2, 6))
    nref = nch if rep % 3 == 0 else int(rng.integers(1, 6))
    ordmax = int(rng.integers(1, 7))
    nf = int(rng.integers(4 * (ordmax + 1), 140))
    dt = float(rng.choice([0.1, 0.01, 0.005, 1.0, 0.37]))
    sgn = [-1, 1, -1.0, 1.0][rep % 4]
    kind = kinds[rep % len(kinds)] if rep % 5 else "rational"
    Sy = rand_sy(nref, nch, nf, kind)
    label = f"pLSCF#{rep} nref={nref} nch={nch} nf={nf} ordmax={ordmax} dt={dt} sgn={sgn} {kind}"
    compare(label, "pLSCF", Sy, dt, ordmax, sgn)
    # twice the same grid with the other sign straight after (and back)
    compare(label + " (other sign)", "pLSCF", Sy, dt, ordmax, -sgn)
    compare(label + " (again)", "pLSCF", Sy, dt, ordmax, sgn)
    Ad, Bn = orig.pLSCF(Sy, dt, ordmax, sgn)
    for method in ("per", "cor"):
        nxseg = int(rng.integers(16, 2048))
        compare(label + f" poles {method}", "pLSCF_poles", Ad, Bn, dt, method, nxseg)
        compare(label + f" poles kw {method}", "pLSCF_poles", Ad, Bn, dt, nxseg=nxseg, methodSy=method)
    for ii in range(len(Ad)):
        compare(label + f" rmfd2ac {ii}", "rmfd2ac", Ad[ii], Bn[ii])
        A, C = orig.rmfd2ac(Ad[ii], Bn[ii])
        compare(label + f" ac2mp_poly {ii}", "ac2mp_poly", A, C, dt, "per", 64)
        compare(label + f" ac2mp_poly cor {ii}", "ac2mp_poly", A, C, dt, "cor", 64)

# default sign, unsupported signs, degenerate orders
Sy = rand_sy(3, 3, 60, "complex")
compare("pLSCF default sign", "pLSCF", Sy, 0.1, 4)
# (unsupported input: both must refuse it, the exception class is not part of the contract)
compare("pLSCF sign 0", "pLSCF", Sy, 0.1, 3, 0, any_exception=True)
compare("pLSCF sign 2", "pLSCF", Sy, 0.1, 3, 2)
compare("pLSCF ordmax 0", "pLSCF", Sy, 0.1, 0, -1)
compare("pLSCF ordmax 0 poles", "pLSCF_poles", [], [], 0.1, "per", 10, any_exception=True)
compare("pLSCF 2-D input", "pLSCF", Sy[0], 0.1, 2, -1)

# ---------------------------------------------------------------- unit-test style inputs
compare(
    "poles unit",
    "pLSCF_poles",
    np.array([[[[1, -0.5], [1, -0.7]]]]),
    np.array([[[[7, 8], [9, 10]]]]),
    0.01,
    "per",
    10,
)
compare("rmfd2ac unit", "rmfd2ac", np.array([[[1, 2], [3, 4]]]), np.array([[[1, 2]], [[3, 4]], [[5, 6]]]))
compare("ac2mp unit", "ac2mp_poly", np.array([[-1, -2], [1, 0]]), np.array([[1, 0], [0, 1]]), 0.1, "cor", 100)

# ---------------------------------------------------------------- rmfd2ac / ac2mp_poly alone
for rep in range(30):
    n = int(rng.integers(1, 8))
    m = int(rng.integers(1, 6))
    l_ = int(rng.integers(1, 6))
    na = n if rep % 4 else int(rng.integers(1, 9))  # also coefficient lists of unequal length
    A_den = rng.standard_normal((na, m, m))
    if rep % 3 == 0:
        A_den[-1] = np.eye(m)
    B_num = rng.standard_normal((n, l_, m))
    compare(f"rmfd2ac#{rep} n={n} na={na} l={l_} m={m}", "rmfd2ac", A_den, B_num)
    compare(f"rmfd2ac-list#{rep}", "rmfd2ac", list(A_den), B_num)

for rep in range(30):
    N = int(rng.integers(1, 25))
    l_ = int(rng.integers(1, 6))
    A = rng.standard_normal((N, N)) * rng.choice([0.3, 1.0, 3.0])
    if rep % 4 == 0:  # symmetric: all the eigenvalues real
        A = A + A.T
    if rep % 5 == 0:
        A[:, -2:] = 0.0
    C = rng.standard_normal((l_, N))
    dt = float(rng.choice([0.1, 0.01, 2.0]))
    compare(f"ac2mp_poly#{rep} N={N} l={l_}", "ac2mp_poly", A, C, dt, ["per", "cor"][rep % 2], 128)

print(f"{ncmp} comparisons")
if failures:
    print("FAIL")
    for f in failures[:40]:
        print("  ", f)
    sys.exit(1)
print("PASS")
