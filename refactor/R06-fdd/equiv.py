"""
Equivalence check: refactored pyoma2.functions.fdd / pyoma2.algorithms.fdd against the
pristine HEAD copies in this directory (orig_functions_fdd.py, orig_algorithms_fdd.py).

Run with:  PYTHONPATH=/tmp/wt/R06/src /venv/bin/python /tmp/wt/R06/_refactor/equiv.py
Prints PASS and exits 0 on success.
"""

import importlib.util
import logging
import os
import sys
import warnings

import numpy as np

HERE = os.path.dirname(os.path.abspath(__file__))

import pyoma2.algorithms.fdd as new_alg  # noqa: E402
import pyoma2.functions.fdd as new_fn  # noqa: E402
from pyoma2.setup import MultiSetup_PreGER, SingleSetup  # noqa: E402


def _load(modname, filename):
    spec = importlib.util.spec_from_file_location(modname, os.path.join(HERE, filename))
    mod = importlib.util.module_from_spec(spec)
    sys.modules[modname] = mod
    spec.loader.exec_module(mod)
    return mod


# module names inside the package so that relative imports (".gen") resolve
orig_fn = _load("pyoma2.functions._orig_fdd", "orig_functions_fdd.py")
orig_alg = _load("pyoma2.algorithms._orig_fdd", "orig_algorithms_fdd.py")
# the pristine algorithm module must call the pristine function module
orig_alg.fdd = orig_fn

assert orig_fn.__file__ != new_fn.__file__ and orig_alg.__file__ != new_alg.__file__
assert new_fn.__file__.startswith("/tmp/wt/R06/src"), new_fn.__file__

logging.disable(logging.CRITICAL)
N_CHECKS = 0


def same(a, b, what):
    """Bitwise identical arrays (same dtype, shape, values and NaN pattern)."""
    global N_CHECKS
    a = np.asarray(a)
    b = np.asarray(b)
    assert a.dtype == b.dtype, (what, a.dtype, b.dtype)
    assert a.shape == b.shape, (what, a.shape, b.shape)
    assert np.array_equal(a, b, equal_nan=True), what
    N_CHECKS += 1


def call(f, *a, **k):
    """Return ('ok', result) or ('exc', type, message)."""
    with warnings.catch_warnings():
        warnings.simplefilter("ignore")
        try:
            return ("ok", f(*a, **k))
        except Exception as e:  # noqa: BLE001
            return ("exc", type(e), str(e))


def same_outcome(ro, rn, what):
    global N_CHECKS
    assert ro[0] == rn[0], (what, ro, rn)
    if ro[0] == "exc":
        assert ro[1:] == rn[1:], (what, ro, rn)
        N_CHECKS += 1
        return
    for i, (x, y) in enumerate(zip(ro[1], rn[1])):
        same(x, y, f"{what}[{i}]")


# ----------------------------------------------------------------------------
# spectral matrix generators
# ----------------------------------------------------------------------------
def random_spectrum(rng, nch, nf, kind):
    """Sequence of spectral matrices, shape (nch, nch, nf)."""
    nmodes = rng.integers(1, nch + 1)
    fgrid = np.linspace(0.0, 1.0, nf)
    f0 = rng.uniform(0.1, 0.9, size=nmodes)
    zeta = rng.uniform(0.005, 0.05, size=nmodes)
    shapes = rng.standard_normal((nch, nmodes)) + 1j * rng.standard_normal((nch, nmodes))
    SD = np.zeros((nch, nch, nf), dtype=complex)
    for k, f in enumerate(fgrid):
        H = 1.0 / (f0**2 - f**2 + 2j * zeta * f0 * f)
        A = shapes * H
        G = A @ A.conj().T
        if kind == "hermitian":
            N = rng.standard_normal((nch, nch)) + 1j * rng.standard_normal((nch, nch))
            G = G + 1e-3 * (N @ N.conj().T)
        elif kind == "half":
            # positive half spectrum like matrix: not Hermitian, complex
            N = rng.standard_normal((nch, nch)) + 1j * rng.standard_normal((nch, nch))
            G = G + 0.05 * np.abs(G).max() * N
        elif kind == "real":
            G = G.real + 1e-3 * np.eye(nch)
        SD[:, :, k] = G
    if kind == "real":
        SD = SD.real.copy()
    return SD


def check_svalsvec_and_mpe(rng, n_cases=60):
    kinds = ["hermitian", "half", "real"]
    for case in range(n_cases):
        nch = int(rng.integers(2, 9))
        nf = int(rng.integers(8, 200))
        kind = kinds[case % 3]
        SD = random_spectrum(rng, nch, nf, kind)
        if case % 5 == 0:  # non contiguous / Fortran ordered input
            SD = np.asfortranarray(SD)
        ro = call(orig_fn.SD_svalsvec, SD)
        rn = call(new_fn.SD_svalsvec, SD)
        same_outcome(ro, rn, f"SD_svalsvec case {case}")
        assert ro[0] == "ok"
        Sval, Svec = ro[1]
        assert Sval.flags == rn[1][0].flags and Svec.flags == rn[1][1].flags
        assert Sval.strides == rn[1][0].strides and Svec.strides == rn[1][1].strides

        # frequency grids: uniform, with offset, and non uniform
        fs = rng.uniform(5, 200)
        freq = np.arange(nf) * (fs / 2 / (nf - 1))
        if case % 7 == 3:
            freq = np.sort(rng.uniform(0, fs / 2, size=nf))
        df = np.min(np.diff(freq))
        dfmax = np.max(np.diff(freq))
        for _ in range(4):
            nsel = int(rng.integers(1, 6))
            sel = rng.uniform(freq[0], freq[-1], size=nsel)
            if rng.random() < 0.3:  # exactly on grid lines, incl. the ends
                sel = freq[rng.integers(0, nf, size=nsel)]
                sel[0] = freq[rng.choice([0, nf - 1])]
            sel_arg = sel if rng.random() < 0.5 else list(sel)
            DF = float(rng.choice([dfmax, 1.5 * dfmax, 3 * dfmax, 10 * dfmax, fs]))
            if rng.random() < 0.15:
                DF = float(df * 0.3)  # below one line: may give an empty band -> same error
            ro = call(orig_fn.FDD_mpe, Sval, Svec, freq, sel_arg, DF)
            rn = call(new_fn.FDD_mpe, Sval, Svec, freq, sel_arg, DF)
            same_outcome(ro, rn, f"FDD_mpe case {case}")
            # keyword form and default DF
            ro = call(orig_fn.FDD_mpe, Sval=Sval, Svec=Svec, freq=freq, sel_freq=sel_arg)
            rn = call(new_fn.FDD_mpe, Sval=Sval, Svec=Svec, freq=freq, sel_freq=sel_arg)
            same_outcome(ro, rn, f"FDD_mpe(default DF) case {case}")

        # degenerate singular values: ties, zeros (inf / nan ratios)
        Sv2 = Sval.copy()
        j = int(rng.integers(0, nf))
        Sv2[1, 1, j] = 0.0
        Sv2[0, 0, (j + 3) % nf] = 0.0
        Sv2[1, 1, (j + 3) % nf] = 0.0
        Sv2[0, 0, (j + 5) % nf] = Sv2[0, 0, (j + 6) % nf]
        Sv2[1, 1, (j + 5) % nf] = Sv2[1, 1, (j + 6) % nf]
        for DF in (2 * dfmax, 8 * dfmax, fs):
            sel = [freq[j], freq[(j + 4) % nf], float(rng.uniform(freq[0], freq[-1]))]
            ro = call(orig_fn.FDD_mpe, Sv2, Svec, freq, sel, DF)
            rn = call(new_fn.FDD_mpe, Sv2, Svec, freq, sel, DF)
            same_outcome(ro, rn, f"FDD_mpe degenerate case {case}")

    # the shape of the unit test: random real arrays
    for _ in range(10):
        nch = int(rng.integers(2, 9))
        nf = 50
        Sval = rng.random((nch, nch, nf))
        Svec = rng.random((nch, nch, nf))
        freq = np.linspace(0, 10, nf)
        sel = [2.0, 4.0, 7.5]
        same_outcome(
            call(orig_fn.FDD_mpe, Sval, Svec, freq, sel, 0.5),
            call(new_fn.FDD_mpe, Sval, Svec, freq, sel, 0.5),
            "FDD_mpe real random",
        )

    # error behaviour
    bad = rng.random((3, 3))
    same_outcome(call(orig_fn.SD_svalsvec, bad), call(new_fn.SD_svalsvec, bad), "svalsvec 2D")
    nanSD = random_spectrum(rng, 3, 10, "hermitian")
    nanSD[0, 0, 4] = np.nan
    ro, rn = call(orig_fn.SD_svalsvec, nanSD), call(new_fn.SD_svalsvec, nanSD)
    same_outcome(ro, rn, "svalsvec nan")
    same_outcome(
        call(orig_fn.FDD_mpe, bad, bad, np.arange(3.0), [1.0], 1.0),
        call(new_fn.FDD_mpe, bad, bad, np.arange(3.0), [1.0], 1.0),
        "FDD_mpe 2D",
    )


# ----------------------------------------------------------------------------
# end to end: FDD, FDD_MS, first stage of EFDD / FSDD
# ----------------------------------------------------------------------------
def synth_data(rng, nch, ndat, fs, fmodes):
    t = np.arange(ndat) / fs
    shapes = rng.standard_normal((nch, len(fmodes)))
    x = np.zeros((ndat, nch))
    for m, f in enumerate(fmodes):
        # narrow band response: slowly modulated sinusoid
        amp = 1 + 0.3 * np.sin(2 * np.pi * 0.05 * t + rng.uniform(0, 6))
        ph = rng.uniform(0, 6)
        x += np.outer(amp * np.sin(2 * np.pi * f * t + ph), shapes[:, m])
    x += 0.2 * rng.standard_normal(x.shape)
    return x


RESULT_FIELDS = ("freq", "Sy", "S_val", "S_vec", "Fn", "Phi")


def compare_results(r_o, r_n, what):
    for fld in RESULT_FIELDS:
        same(getattr(r_o, fld), getattr(r_n, fld), f"{what}.{fld}")


def check_end_to_end(rng):
    fs = 100.0
    for case in range(8):
        nch = int(rng.integers(2, 9))
        fmodes = sorted(rng.uniform(3, 40, size=int(rng.integers(1, 4))))
        data = synth_data(rng, nch, 6000, fs, fmodes)
        method = ["per", "cor"][case % 2]
        nxseg = int(rng.choice([256, 512, 1024]))
        pov = float(rng.choice([0.5, 0.66, 0.0]))
        DF = float(rng.choice([0.5, 1.0, 2.0]))
        sel = [f + rng.uniform(-0.3, 0.3) for f in fmodes]

        ss_o = SingleSetup(data.copy(), fs=fs)
        ss_n = SingleSetup(data.copy(), fs=fs)
        kw = dict(nxseg=nxseg, method_SD=method, pov=pov)
        ss_o.add_algorithms(orig_alg.FDD(name="FDD", **kw), orig_alg.EFDD(name="EFDD", **kw),
                            orig_alg.FSDD(name="FSDD", **kw))
        ss_n.add_algorithms(new_alg.FDD(name="FDD", **kw), new_alg.EFDD(name="EFDD", **kw),
                            new_alg.FSDD(name="FSDD", **kw))
        for ss in (ss_o, ss_n):
            for nm in ("FDD", "EFDD", "FSDD"):
                ss.run_by_name(nm)
        with warnings.catch_warnings():
            warnings.simplefilter("ignore")
            ss_o.mpe("FDD", sel_freq=sel, DF=DF)
            ss_n.mpe("FDD", sel_freq=sel, DF=DF)
        compare_results(ss_o["FDD"].result, ss_n["FDD"].result, f"FDD e2e {case}")
        assert ss_o["FDD"].run_params.model_dump().keys() == ss_n["FDD"].run_params.model_dump().keys()
        assert ss_o["FDD"].run_params.DF == ss_n["FDD"].run_params.DF == DF
        assert list(ss_o["FDD"].run_params.sel_freq) == list(ss_n["FDD"].run_params.sel_freq)
        for nm in ("EFDD", "FSDD"):
            for fld in ("freq", "Sy", "S_val", "S_vec"):
                same(getattr(ss_o[nm].result, fld), getattr(ss_n[nm].result, fld), f"{nm}.{fld}")

        # first stage of EFDD / FSDD (function level, pristine vs refactored module)
        res = ss_n["FDD"].result
        for meth in ("EFDD", "FSDD"):
            args = (res.Sy, res.freq, 1 / fs, sel, method)
            k = dict(method=meth, DF1=DF, DF2=1.0, cm=1, MAClim=0.85, sppk=1, npmax=8)
            ro = call(orig_fn.EFDD_mpe, *args, **k)
            rn = call(new_fn.EFDD_mpe, *args, **k)
            assert ro[0] == rn[0], (ro, rn)
            if ro[0] == "ok":
                for i in range(3):
                    same(ro[1][i], rn[1][i], f"EFDD_mpe {meth} out {i}")
            else:
                assert ro[1:] == rn[1:], (ro, rn)

    # multi setup
    for case in range(4):
        nref = int(rng.integers(2, 4))
        nsetup = int(rng.integers(2, 4))
        nmov = [int(rng.integers(1, 4)) for _ in range(nsetup)]
        fmodes = sorted(rng.uniform(3, 40, size=2))
        ntot = nref + max(nmov)
        datasets = [synth_data(rng, nref + nmov[i], 5000, fs, fmodes) for i in range(nsetup)]
        ref_ind = [list(range(nref)) for _ in range(nsetup)]
        method = ["per", "cor"][case % 2]
        kw = dict(nxseg=512, method_SD=method, pov=0.5)
        ms_o = MultiSetup_PreGER(fs=fs, ref_ind=ref_ind, datasets=[d.copy() for d in datasets])
        ms_n = MultiSetup_PreGER(fs=fs, ref_ind=ref_ind, datasets=[d.copy() for d in datasets])
        ms_o.add_algorithms(orig_alg.FDD_MS(name="FDD", **kw))
        ms_n.add_algorithms(new_alg.FDD_MS(name="FDD", **kw))
        sel = [f + 0.1 for f in fmodes]
        with warnings.catch_warnings():
            warnings.simplefilter("ignore")
            for ms in (ms_o, ms_n):
                ms.run_by_name("FDD")
                ms.mpe("FDD", sel_freq=sel, DF=1.0)
        compare_results(ms_o["FDD"].result, ms_n["FDD"].result, f"FDD_MS e2e {case}")
        del ntot

    # multi setup with a single reference channel: the spectral matrix has one column, FDD_mpe
    # cannot form sigma1/sigma2 -> identical error; with no selected frequency -> identical
    # (empty) result
    datasets = [synth_data(rng, 3, 3000, fs, [10.0]) for _ in range(2)]
    outs = []
    for alg_mod in (orig_alg, new_alg):
        ms = MultiSetup_PreGER(fs=fs, ref_ind=[[0], [0]], datasets=[d.copy() for d in datasets])
        ms.add_algorithms(alg_mod.FDD_MS(name="FDD", nxseg=256))
        ms.run_by_name("FDD")
        r1 = call(ms.mpe, "FDD", sel_freq=[10.0], DF=1.0)
        r2 = call(ms.mpe, "FDD", sel_freq=[], DF=1.0)
        outs.append((r1, r2, ms["FDD"].result))
    (o1, o2, ores), (n1, n2, nres) = outs
    assert o1[0] == n1[0] == "exc" and o1[1:] == n1[1:], (o1, n1)
    assert o2[0] == n2[0] == "ok", (o2, n2)
    compare_results(ores, nres, "FDD_MS single reference, empty selection")

    # mpe before run: same exception
    a_o, a_n = orig_alg.FDD(name="x"), new_alg.FDD(name="x")
    ro, rn = call(a_o.mpe, sel_freq=[1.0], DF=0.5), call(a_n.mpe, sel_freq=[1.0], DF=0.5)
    assert ro[0] == rn[0] == "exc" and ro[1:] == rn[1:], (ro, rn)


def main():
    rng = np.random.default_rng(20261003)
    check_svalsvec_and_mpe(rng)
    check_end_to_end(rng)
    print(f"{N_CHECKS} comparisons identical")
    print("PASS")


if __name__ == "__main__":
    main()
