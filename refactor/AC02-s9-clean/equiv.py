"""
Differential test: library in the tree on PYTHONPATH (CLEAN version applied)
against the pristine implementation saved as orig_gen.py / orig_multi.py.

Run as:  PYTHONPATH=<tree>/src /venv/bin/python equiv.py
"""
import importlib.util
import logging
import os
import sys
import types
import warnings

import numpy as np

from pyoma2.functions import gen as new_gen
from pyoma2.setup import multi as new_multi

logging.disable(logging.CRITICAL)
warnings.simplefilter("ignore")
HERE = os.path.dirname(os.path.abspath(__file__))


def load(name, fname):
    spec = importlib.util.spec_from_file_location(name, os.path.join(HERE, fname))
    mod = importlib.util.module_from_spec(spec)
    sys.modules[name] = mod
    spec.loader.exec_module(mod)
    return mod


orig_gen = load("orig_gen", "orig_gen.py")
orig_multi = load("orig_multi", "orig_multi.py")
# the pristine class must call the pristine merging routine
orig_multi.merge_mode_shapes = orig_gen.merge_mode_shapes

problems = []
n_checks = 0


def outcome(fn, *a, **k):
    try:
        return ("ok", fn(*a, **k))
    except Exception as e:  # noqa: BLE001
        return ("exc", type(e))


def same(label, a, b):
    global n_checks
    n_checks += 1
    if a[0] != b[0]:
        problems.append(f"{label}: {a[0]}:{a[1]!r} vs {b[0]}:{b[1]!r}")
        return
    if a[0] == "exc":
        if a[1] is not b[1]:
            problems.append(f"{label}: raises {a[1].__name__} vs {b[1].__name__}")
        return
    x, y = np.asarray(a[1]), np.asarray(b[1])
    if x.shape != y.shape or x.dtype != y.dtype:
        problems.append(f"{label}: {x.shape}/{x.dtype} vs {y.shape}/{y.dtype}")
    elif not (np.array_equal(x, y) or np.allclose(x, y, rtol=1e-12, atol=0, equal_nan=True)):
        problems.append(f"{label}: values differ, max abs {np.max(np.abs(x - y)):.3e}")


def rand_case(rng, kind):
    n_modes = int(rng.integers(1, 9))
    n_setups = int(rng.integers(2, 6))
    n_ref = int(rng.integers(1, 5))
    MS, reflist = [], []
    for _ in range(n_setups):
        n_ch = n_ref + int(rng.integers(0, 6))
        if kind == "int":
            phi = rng.integers(-9, 10, size=(n_ch, n_modes))
        else:
            phi = rng.standard_normal((n_ch, n_modes))
            if kind == "complex":
                phi = phi + 1j * rng.standard_normal((n_ch, n_modes))
        refs = [int(j) for j in rng.permutation(n_ch)[:n_ref]]
        mode = rng.integers(0, 4)
        if mode == 0:
            refs = sorted(refs)
        elif mode == 1:  # some negative indices
            refs = [j - n_ch if rng.integers(0, 2) else j for j in refs]
        MS.append(phi)
        reflist.append(refs)
    return MS, reflist


def stub_setup(Fn, Xi, Phi, names):
    algs = {}
    for nm, phi in zip(names, Phi):
        res = types.SimpleNamespace(Fn=Fn, Xi=Xi, Phi=phi)
        algs[nm] = types.SimpleNamespace(result=res, name=nm)
    return types.SimpleNamespace(algorithms=algs)


def main():
    rng = np.random.default_rng(7)
    # --- merge_mode_shapes / MSF / flatten_sns_names on random inputs ------------
    for it in range(150):
        kind = ("real", "complex", "int")[it % 3]
        MS, reflist = rand_case(rng, kind)
        lab = f"case {it} ({kind}) reflist={reflist}"
        keep = [m.copy() for m in MS]
        a = outcome(orig_gen.merge_mode_shapes, [m.copy() for m in MS], reflist)
        b = outcome(new_gen.merge_mode_shapes, MS, reflist)
        same("merge_mode_shapes " + lab, a, b)
        if not all(np.array_equal(k, m) for k, m in zip(keep, MS)):
            problems.append("merge_mode_shapes modified its input: " + lab)
        # keyword call, as in MultiSetup_PoSER
        b = outcome(new_gen.merge_mode_shapes, MSarr_list=MS, reflist=reflist)
        same("merge_mode_shapes(kw) " + lab, a, b)
        # a single list for all the setups == the same list repeated (old call)
        n_min = min(m.shape[0] for m in MS)
        flat = [int(j) for j in rng.permutation(n_min)[: len(reflist[0])]]
        a = outcome(orig_gen.merge_mode_shapes, MS, [list(flat) for _ in MS])
        b = outcome(new_gen.merge_mode_shapes, MS, flat)
        same("merge_mode_shapes(flat reflist) " + lab, a, b)
        b = outcome(new_gen.merge_mode_shapes, MS, np.array(flat))
        same("merge_mode_shapes(ndarray reflist) " + lab, a, b)
        # MSF on the reference blocks
        r0 = MS[0][reflist[0], :]
        r1 = MS[1][reflist[1], :]
        same("MSF " + lab, outcome(orig_gen.MSF, r1, r0), outcome(new_gen.MSF, r1, r0))
        same(
            "MSF 1d " + lab,
            outcome(orig_gen.MSF, r1[:, 0], r0[:, 0]),
            outcome(new_gen.MSF, r1[:, 0], r0[:, 0]),
        )
        names = [[f"s{i}_{j}" for j in range(m.shape[0])] for i, m in enumerate(MS)]
        fa = outcome(orig_gen.flatten_sns_names, names, reflist)
        fb = outcome(new_gen.flatten_sns_names, names, reflist)
        if fa != fb:
            problems.append("flatten_sns_names " + lab)

    # --- error behaviour ---------------------------------------------------------
    A = rng.standard_normal((4, 3))
    B = rng.standard_normal((5, 3))
    bad = [
        ("modes differ", [A, B[:, :2]], [[0, 1], [0, 1]]),
        ("modes differ + long reflist", [A[:, :2], B[:, :1]], [[0], [1], [2]]),
        ("ref count differs", [A, B], [[0, 1], [0]]),
        ("reflist too short", [A, B, A], [[0, 1], [0, 1]]),
        ("reflist too long", [A, B], [[0, 1], [3, 1], [0, 2]]),
        ("index out of range", [A, B], [[0, 7], [0, 1]]),
        ("index out of range 2", [A, B], [[0, 1], [0, 5]]),
        ("1d arrays", [A[:, 0], B[:, 0]], [[0], [0]]),
        ("single setup", [A], [[1, 0]]),
    ]
    for lab, MS, reflist in bad:
        a = outcome(orig_gen.merge_mode_shapes, MS, reflist)
        b = outcome(new_gen.merge_mode_shapes, MS, reflist)
        same("merge_mode_shapes error case: " + lab, a, b)

    # --- MultiSetup_PoSER.merge_results ----------------------------------------
    for it in range(60):
        kind = ("real", "complex")[it % 2]
        MS, reflist = rand_case(rng, kind)
        n_setups, n_modes = len(MS), MS[0].shape[1]
        Fn = rng.uniform(0.5, 40.0, size=(n_setups, n_modes))
        Xi = rng.uniform(0.002, 0.08, size=(n_setups, n_modes))
        n_alg = 1 + it % 2
        names = ["A", "B"][:n_alg]
        res = []
        for cls in (orig_multi.MultiSetup_PoSER, new_multi.MultiSetup_PoSER):
            setups = [
                stub_setup(
                    Fn[i], Xi[i], [MS[i].copy(), -2.0 * MS[i].copy()][:n_alg],
                    [f"a{i}", f"b{i}"][:n_alg],
                )
                for i in range(n_setups)
            ]
            msp = cls(ref_ind=[list(r) for r in reflist], single_setups=setups, names=names)
            r1 = msp.merge_results()
            r2 = msp.merge_results()  # second call on the same object
            res.append((msp, r1, r2))
        (mo, o1, o2), (mn, n1, n2) = res
        lab = f"PoSER case {it} reflist={reflist}"
        if mo.ref_ind != mn.ref_ind:
            problems.append(lab + ": ref_ind attribute differs")
        for nm in names:
            for fld in ("Phi", "Fn", "Fn_cov", "Xi", "Xi_cov"):
                same(f"{lab} {nm}.{fld}", ("ok", getattr(o1[nm], fld)), ("ok", getattr(n1[nm], fld)))
                same(f"{lab} {nm}.{fld} (2nd call)", ("ok", getattr(o2[nm], fld)), ("ok", getattr(n2[nm], fld)))
            if list(mn.result.keys()) != list(mo.result.keys()):
                problems.append(lab + ": result keys differ")

    # constructor errors
    good = stub_setup(np.ones(2), np.ones(2), [np.ones((3, 2))], ["a"])
    empty = types.SimpleNamespace(algorithms={})
    norun = stub_setup(None, None, [None], ["a"])
    for lab, kw in [
        ("no setups", dict(ref_ind=[], single_setups=[], names=["A"])),
        ("one setup", dict(ref_ind=[[0]], single_setups=[good], names=["A"])),
        ("no algorithms", dict(ref_ind=[], single_setups=[good, empty], names=["A"])),
        ("names mismatch", dict(ref_ind=[], single_setups=[good, good], names=["A", "B"])),
        ("not run", dict(ref_ind=[[0], [0]], single_setups=[good, norun], names=["A"])),
    ]:
        a = outcome(lambda: orig_multi.MultiSetup_PoSER(**kw) and None)
        b = outcome(lambda: new_multi.MultiSetup_PoSER(**kw) and None)
        same("PoSER init error: " + lab, a, b)
    a = outcome(lambda: orig_multi.MultiSetup_PoSER(ref_ind=[[0], [1]], single_setups=[good, good], names=["A"]).result)
    b = outcome(lambda: new_multi.MultiSetup_PoSER(ref_ind=[[0], [1]], single_setups=[good, good], names=["A"]).result)
    same("PoSER result before merge", a, b)


if __name__ == "__main__":
    main()
    if problems:
        print(f"FAIL: {len(problems)} differences in {n_checks} comparisons")
        for p in problems[:10]:
            print("  -", p)
        sys.exit(1)
    print(f"PASS ({n_checks} comparisons)")
    sys.exit(0)
