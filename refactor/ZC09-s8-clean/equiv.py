"""
Differential test: CLEAN version of the commit against the unmodified library.

* part 1 - whole `run()` of SSIdat, SSIcov (with and without uncertainties), SSIdat_MS
  and SSIcov_MS, new code against the pristine `algorithms/ssi.py` + `functions/gen.py`
  (loaded from the copies `orig_ssi_alg.py` and `orig_gen.py` next to this file), on
  random data, random run parameters and random hard criteria (also at the ends of their
  ranges, with integer / numpy-scalar values, with missing keys and with limits outside
  the meaningful range);
* part 2 - `gen.HC_apply(gen.HC_settings(hc), ...)` against the original sequence of
  calls (copied verbatim from the old `run()`) on random synthetic pole tables.

Outputs are compared with numpy.array_equal(equal_nan=True) (bit-identical), raised
exceptions by type.

Run:  PYTHONPATH=<tree>/src /venv/bin/python equiv.py    (exit 0 and PASS = equivalent)
"""

import importlib.util
import logging
import os
import sys
import warnings

os.environ.setdefault("TQDM_DISABLE", "1")
for _v in ("OMP_NUM_THREADS", "OPENBLAS_NUM_THREADS", "MKL_NUM_THREADS"):
    os.environ.setdefault(_v, "1")

import numpy as np  # noqa: E402
from scipy import signal  # noqa: E402

warnings.filterwarnings("ignore")
logging.disable(logging.CRITICAL)

import pyoma2.algorithms.ssi as new_alg  # noqa: E402
from pyoma2.functions import gen as new_gen  # noqa: E402
from pyoma2.setup import MultiSetup_PreGER  # noqa: E402

HERE = os.path.dirname(os.path.abspath(__file__))
FS = 40.0


def _load(name, filename):
    spec = importlib.util.spec_from_file_location(name, os.path.join(HERE, filename))
    mod = importlib.util.module_from_spec(spec)
    sys.modules[name] = mod
    spec.loader.exec_module(mod)
    return mod


orig_gen = _load("pyoma2.functions._orig_gen", "orig_gen.py")
# loaded inside the package so that its relative import of `.base` resolves
orig_alg = _load("pyoma2.algorithms._orig_ssi", "orig_ssi_alg.py")
orig_alg.gen = orig_gen  # the pristine algorithms use the pristine criteria functions

RESULT_FIELDS = [
    "Obs", "H", "Lambds", "Fn_poles", "Xi_poles", "Phi_poles", "Lab",
    "Fn_poles_cov", "Xi_poles_cov", "Phi_poles_cov",
]  # fmt: skip


def same(a, b):
    if a is None or b is None:
        return a is None and b is None
    a, b = np.asarray(a), np.asarray(b)
    return a.shape == b.shape and a.dtype == b.dtype and np.array_equal(a, b, equal_nan=True)


def make_data(rng, n_samples, n_ch):
    freqs = rng.uniform(1.5, 15.0, size=3)
    modal = []
    for f in freqs:
        wn, xi = 2 * np.pi * f, rng.uniform(0.005, 0.04)
        bz, az = signal.bilinear([1.0], [1.0, 2 * xi * wn, wn**2], fs=FS)
        modal.append(signal.lfilter(bz, az, rng.standard_normal(n_samples)))
    modal = np.array(modal)
    modal /= modal.std(axis=1, keepdims=True)
    y = rng.standard_normal((n_ch, 3)) @ modal
    y += rng.uniform(0.1, 0.8) * rng.standard_normal(y.shape)
    return y.T


def random_hc(rng, kind):
    hc = dict(
        conj=bool(rng.randint(2)),
        xi_max=rng.choice([1.0, 0.1, rng.uniform(0.01, 1.0)]),
        mpc_lim=rng.choice([0.0, 1.0, 0.7, rng.uniform(0.0, 1.0)]),
        mpd_lim=rng.choice([0.0, np.pi / 2, 0.3, rng.uniform(0.0, np.pi / 2)]),
        cov_max=rng.choice([0.2, 10 ** rng.uniform(-5, 6), rng.uniform(1.0, 200.0)]),
    )
    hc = {k: (v if k == "conj" else float(v)) for k, v in hc.items()}
    if kind == "types":  # integers, numpy scalars, 0/1 for the flag
        hc.update(conj=int(hc["conj"]), xi_max=1, mpc_lim=np.float32(0.5), cov_max=np.int64(3))
    elif kind == "missing":
        del hc[rng.choice(sorted(hc))]
    elif kind == "outside":  # limits beyond the range act like the end of the range
        hc.update(mpc_lim=-0.2, mpd_lim=float(rng.uniform(1.6, 4.0)))
    return hc


def run_both(new_a, old_a):
    out = []
    for alg in (new_a, old_a):
        try:
            out.append(("ok", alg.run()))
        except Exception as exc:  # noqa: BLE001 - the type of the exception is compared
            out.append(("exc", type(exc)))
    return out


def compare_runs(tag, new_a, old_a, failures):
    (k1, r1), (k2, r2) = run_both(new_a, old_a)
    if k1 != k2:
        failures.append(f"{tag}: new -> {k1} {r1 if k1 == 'exc' else ''}, old -> {k2} {r2 if k2 == 'exc' else ''}")
        return k1
    if k1 == "exc":
        if r1 is not r2:
            failures.append(f"{tag}: exception {r1.__name__} (new) vs {r2.__name__} (old)")
        return "exc:" + r1.__name__
    for f in RESULT_FIELDS:
        if not same(getattr(r1, f), getattr(r2, f)):
            failures.append(f"{tag}: result field {f} differs")
    for f in ("A", "C"):
        la, lb = getattr(r1, f), getattr(r2, f)
        if len(la) != len(lb) or not all(same(x, y) for x, y in zip(la, lb)):
            failures.append(f"{tag}: result field {f} differs")
    return "ok"


# ----------------------------------------------------------------------- part 1
def part1(rng, failures):
    n = 0
    kinds = ["plain"] * 5 + ["types", "missing", "outside"]
    single = [
        ("SSIdat", "dat", False),
        ("SSIcov", "cov_mm", False),
        ("SSIcov", "cov_R", False),
        ("SSIcov", "cov_mm", True),
    ]
    for rep in range(20):
        cname, method, unc = single[rep % len(single)]
        n_ch = int(rng.randint(2, 6))
        data = make_data(rng, int(rng.randint(1200, 2500)), n_ch)
        br = int(rng.randint(4, 9))
        ordmax = int(rng.randint(6, min(br * n_ch, 16) + 1))
        kw = dict(br=br, ordmax=ordmax, ordmin=int(rng.randint(0, 3)), method=method)
        if unc:
            kw.update(calc_unc=True, nb=int(rng.randint(5, 12)))
        if rng.rand() < 0.3 and n_ch > 2:
            kw["ref_ind"] = sorted(rng.choice(n_ch, size=2, replace=False).tolist())
            kw["ordmax"] = min(kw["ordmax"], 2 * br)
        hc = random_hc(rng, kinds[rep % len(kinds)])
        algs = []
        for mod in (new_alg, orig_alg):
            alg = getattr(mod, cname)(name="a", hc=dict(hc), **kw)
            alg._set_data(data=data, fs=FS)
            algs.append(alg)
        status = compare_runs(f"{cname}/{method}/unc={unc} #{rep} hc={hc}", *algs, failures)
        print(f"  run {cname:9s} {method:6s} unc={unc!s:5s} {kinds[rep % len(kinds)]:8s} -> {status}")
        n += 1

    for rep in range(8):
        cname = ("SSIdat_MS", "SSIcov_MS")[rep % 2]
        n_set = int(rng.randint(2, 4))
        n_samples = int(rng.randint(1200, 2000))
        sets = [make_data(rng, n_samples, 4) for _ in range(n_set)]
        ms = MultiSetup_PreGER(fs=FS, ref_ind=[[0, 1]] * n_set, datasets=sets)
        br = int(rng.randint(4, 8))
        kw = dict(br=br, ordmax=int(rng.randint(6, 2 * br + 1)))
        kind = kinds[(rep + 3) % len(kinds)]
        hc = random_hc(rng, kind)
        algs = []
        for mod in (new_alg, orig_alg):
            alg = getattr(mod, cname)(name="a", hc=dict(hc), **kw)
            alg._set_data(data=ms.data, fs=FS)
            algs.append(alg)
        status = compare_runs(f"{cname} #{rep} hc={hc}", *algs, failures)
        print(f"  run {cname:9s} {'':6s} {'':9s} {kind:8s} -> {status}")
        n += 1
    return n


# ----------------------------------------------------------------------- part 2
def original_sequence(gen, hc, Fns, Xis, Phis, Lambds, Fn_cov, Xi_cov, Phi_cov):
    """The hard-criteria block of the old SSIdat.run(), verbatim."""
    hc_conj = hc["conj"]
    hc_xi_max = hc["xi_max"]
    hc_mpc_lim = hc["mpc_lim"]
    hc_mpd_lim = hc["mpd_lim"]
    hc_cov_max = hc["cov_max"]

    if hc_conj:
        Lambds, mask1 = gen.HC_conj(Lambds)
        lista = [Fns, Xis, Phis, Fn_cov, Xi_cov, Phi_cov]
        Fns, Xis, Phis, Fn_cov, Xi_cov, Phi_cov = gen.applymask(lista, mask1, Phis.shape[2])

    Xis, mask2 = gen.HC_damp(Xis, hc_xi_max)
    lista = [Fns, Lambds, Phis, Fn_cov, Xi_cov, Phi_cov]
    Fns, Lambds, Phis, Fn_cov, Xi_cov, Phi_cov = gen.applymask(lista, mask2, Phis.shape[2])

    mask3, mask4 = gen.HC_phi_comp(Phis, hc_mpc_lim, hc_mpd_lim)
    lista = [Fns, Xis, Phis, Lambds, Fn_cov, Xi_cov, Phi_cov]
    Fns, Xis, Phis, Lambds, Fn_cov, Xi_cov, Phi_cov = gen.applymask(lista, mask3, Phis.shape[2])
    lista = [Fns, Xis, Phis, Lambds, Fn_cov, Xi_cov, Phi_cov]
    Fns, Xis, Phis, Lambds, Fn_cov, Xi_cov, Phi_cov = gen.applymask(lista, mask4, Phis.shape[2])

    if Fn_cov is not None:
        Fn_cov, mask5 = gen.HC_cov(Fn_cov, hc_cov_max)
        lista = [Fns, Xis, Phis, Lambds, Xi_cov, Phi_cov]
        Fns, Xis, Phis, Lambds, Xi_cov, Phi_cov = gen.applymask(lista, mask5, Phis.shape[2])
    return Fns, Xis, Phis, Lambds, Fn_cov, Xi_cov, Phi_cov


def random_tables(rng):
    n_pole, n_ord, n_ch = int(rng.randint(3, 11)), int(rng.randint(2, 9)), int(rng.randint(2, 7))
    lam = -rng.uniform(-0.5, 3.0, (n_pole, n_ord)) + 1j * rng.uniform(-60, 60, (n_pole, n_ord))
    # conjugate partners for about half of the poles, purely real ones for a few
    for j in range(n_ord):
        for i in range(0, n_pole - 1, 2):
            if rng.rand() < 0.6:
                lam[i + 1, j] = np.conj(lam[i, j])
    lam[rng.rand(n_pole, n_ord) < 0.05] = -rng.uniform(0.1, 2.0)
    Fns = np.abs(lam) / (2 * np.pi)
    Xis = -lam.real / np.abs(lam)
    cplx = rng.uniform(0.0, 1.5, (n_pole, n_ord, 1))
    Phis = rng.standard_normal((n_pole, n_ord, n_ch)) * np.exp(
        1j * cplx * rng.uniform(-1, 1, (n_pole, n_ord, n_ch))
    )
    hole = rng.rand(n_pole, n_ord) < 0.15  # padding of the lower orders
    Fns[hole], Xis[hole], lam[hole], Phis[hole] = np.nan, np.nan, np.nan, np.nan
    if rng.rand() < 0.5:
        Fn_cov = 10 ** rng.uniform(-5, 3, (n_pole, n_ord))
        Xi_cov = 10 ** rng.uniform(-5, 3, (n_pole, n_ord))
        Phi_cov = np.full((n_pole, n_ord, n_ch), np.nan)
        Fn_cov[hole], Xi_cov[hole] = np.nan, np.nan
    else:
        Fn_cov = Xi_cov = Phi_cov = None
    return Fns, Xis, Phis, lam, Fn_cov, Xi_cov, Phi_cov


def part2(rng, failures):
    n = 0
    kinds = ["plain"] * 4 + ["types", "outside", "missing"]
    for rep in range(42):
        tables = random_tables(rng)
        hc = random_hc(rng, kinds[rep % len(kinds)])
        backup = [None if t is None else t.copy() for t in tables]
        res = []
        for fn in (
            lambda: new_gen.HC_apply(new_gen.HC_settings(hc), *tables),
            lambda: original_sequence(orig_gen, hc, *tables),
        ):
            try:
                res.append(("ok", fn()))
            except Exception as exc:  # noqa: BLE001
                res.append(("exc", type(exc)))
        (k1, r1), (k2, r2) = res
        tag = f"tables #{rep} hc={hc}"
        if k1 != k2 or (k1 == "exc" and r1 is not r2):
            failures.append(f"{tag}: new -> {k1} {r1}, old -> {k2} {r2}")
        elif k1 == "ok":
            for name, a, b in zip(("Fns", "Xis", "Phis", "Lambds", "Fn_cov", "Xi_cov", "Phi_cov"), r1, r2):
                if not same(a, b):
                    failures.append(f"{tag}: {name} differs")
        if not all(same(a, b) for a, b in zip(tables, backup)):
            failures.append(f"{tag}: an input table was modified")
        n += 1
    return n


def main():
    rng = np.random.RandomState(909)
    failures = []
    n1 = part1(rng, failures)
    n2 = part2(rng, failures)
    print(f"{n1} algorithm runs and {n2} table sets compared")
    if failures:
        print("FAIL")
        for f in failures[:30]:
            print("  -", f)
        return 1
    print("PASS")
    return 0


if __name__ == "__main__":
    sys.exit(main())
