"""
Equivalence check for the C11 refactoring (SSI_mpe, pLSCF_mpe, SSIdat.mpe).

Runs the refactored functions (imported from the worktree's src/) and the ORIGINAL
ones (pristine copies of HEAD stored next to this file as orig_*.py) on random,
structured pole tables and asserts bit-identical outputs / identical exceptions.

Usage:  PYTHONPATH=/tmp/wt/R11/src /venv/bin/python /tmp/wt/R11/_refactor/equiv.py
"""
import contextlib
import importlib.util
import io
import logging
import os
import sys

import numpy as np

HERE = os.path.dirname(os.path.abspath(__file__))
SRC = os.path.join(os.path.dirname(HERE), "src")
if SRC not in sys.path:
    sys.path.insert(0, SRC)

logging.disable(logging.CRITICAL)


def load(name, fname):
    spec = importlib.util.spec_from_file_location(name, os.path.join(HERE, fname))
    mod = importlib.util.module_from_spec(spec)
    sys.modules[name] = mod
    spec.loader.exec_module(mod)
    return mod


with contextlib.redirect_stderr(io.StringIO()):
    import pyoma2
    from pyoma2.algorithms import ssi as new_a_ssi
    from pyoma2.algorithms.data.result import SSIResult
    from pyoma2.algorithms.data.run_params import SSIRunParams
    from pyoma2.functions import plscf as new_f_plscf
    from pyoma2.functions import ssi as new_f_ssi

    assert os.path.abspath(pyoma2.__file__).startswith(SRC), pyoma2.__file__
    old_f_ssi = load("pyoma2.functions._orig_ssi", "orig_f_ssi.py")
    old_f_plscf = load("pyoma2.functions._orig_plscf", "orig_f_plscf.py")
    # name it inside the package so that the relative import of .base works
    old_a_ssi = load("pyoma2.algorithms._orig_ssi", "orig_a_ssi.py")
    # the original class must call the original function
    old_a_ssi.ssi = old_f_ssi

assert new_f_ssi.SSI_mpe is not old_f_ssi.SSI_mpe
assert new_a_ssi.ssi is new_f_ssi


# ----------------------------------------------------------------------------
# comparison helpers
# ----------------------------------------------------------------------------
def same(a, b, path="out"):
    if isinstance(a, (tuple, list)):
        assert type(a) is type(b) and len(a) == len(b), (path, type(a), type(b))
        for k, (x, y) in enumerate(zip(a, b)):
            same(x, y, f"{path}[{k}]")
    elif a is None or b is None:
        assert a is None and b is None, (path, a, b)
    elif isinstance(a, np.ndarray) or isinstance(b, np.ndarray):
        assert isinstance(a, np.ndarray) and isinstance(b, np.ndarray), (path, a, b)
        assert a.dtype == b.dtype, (path, a.dtype, b.dtype)
        assert a.shape == b.shape, (path, a.shape, b.shape)
        if a.dtype.kind in "fc":
            assert np.array_equal(a, b, equal_nan=True), (path, a, b)
        else:
            assert np.array_equal(a, b), (path, a, b)
    else:
        assert type(a) is type(b), (path, type(a), type(b))
        assert a == b or (a != a and b != b), (path, a, b)


def call(fun, *args, **kwargs):
    with contextlib.redirect_stderr(io.StringIO()):  # silence tqdm
        try:
            return ("ok", fun(*args, **kwargs))
        except Exception as e:  # noqa: BLE001
            return ("exc", type(e), str(e))


N_OK = 0
N_EXC = 0


def check(new_fun, old_fun, args, kwargs, label):
    global N_OK, N_EXC
    # independent deep copies, so in-place side effects (if any) would show up too
    import copy

    a_new, k_new = copy.deepcopy((args, kwargs))
    a_old, k_old = copy.deepcopy((args, kwargs))
    r_new = call(new_fun, *a_new, **k_new)
    r_old = call(old_fun, *a_old, **k_old)
    assert r_new[0] == r_old[0], (label, r_new, r_old)
    if r_new[0] == "exc":
        assert r_new[1:] == r_old[1:], (label, r_new, r_old)
        N_EXC += 1
    else:
        same(r_new[1], r_old[1], label)
        N_OK += 1
    # inputs must have been left alone in the same way
    same(_arrs(a_new, k_new), _arrs(a_old, k_old), label + ":inputs")
    same(_arrs(a_new, k_new), _arrs(args, kwargs), label + ":inputs-untouched")
    return r_new


def _arrs(args, kwargs):
    out = [x for x in args if isinstance(x, np.ndarray)]
    out += [kwargs[k] for k in sorted(kwargs) if isinstance(kwargs[k], np.ndarray)]
    return out


# ----------------------------------------------------------------------------
# input generators
# ----------------------------------------------------------------------------
def make_table(rng, stable_label):
    """Structured pole table: physical modes + spurious poles + NaN pattern."""
    n_modes = int(rng.integers(1, 5))
    n_ord = int(rng.integers(3, 14))
    n_spur = int(rng.integers(0, 5))
    n_rows = n_modes + n_spur + int(rng.integers(0, 3))
    n_ch = int(rng.integers(1, 5))
    f_true = np.sort(rng.uniform(1.0, 4.0, n_modes)) + 5.0 * np.arange(n_modes)

    Fn = np.full((n_rows, n_ord), np.nan)
    Lab = np.zeros((n_rows, n_ord), dtype=int)
    for o in range(n_ord):
        rows = rng.permutation(n_rows)
        k = 0
        for m in range(n_modes):
            # a mode may be missing at low orders / randomly
            if rng.random() < 0.25 + 0.5 * (o < 2) or k >= n_rows:
                continue
            jitter = rng.choice([0.0, 1e-4, 5e-3, 3e-2]) * rng.standard_normal()
            Fn[rows[k], o] = f_true[m] * (1 + jitter)
            if rng.random() < 0.7:
                Lab[rows[k], o] = stable_label
            k += 1
            # sometimes a duplicated / split pole close to the mode
            if rng.random() < 0.1 and k < n_rows:
                Fn[rows[k], o] = f_true[m] * (1 + 0.02 * rng.standard_normal())
                Lab[rows[k], o] = stable_label if rng.random() < 0.5 else 0
                k += 1
        for _ in range(n_spur):
            if k < n_rows and rng.random() < 0.6:
                Fn[rows[k], o] = rng.uniform(0.2, f_true[-1] + 4.0)
                Lab[rows[k], o] = rng.choice([0, 1, 2, 3, 7])
                k += 1
    if rng.random() < 0.3:  # exactly repeated stable values across orders
        o = int(rng.integers(1, n_ord))
        Fn[:, o] = Fn[:, o - 1]
        Lab[:, o] = Lab[:, o - 1]

    Xi = rng.uniform(0.001, 0.1, (n_rows, n_ord))
    Xi[np.isnan(Fn)] = np.nan
    Phi = rng.standard_normal((n_rows, n_ord, n_ch)) + 1j * rng.standard_normal(
        (n_rows, n_ord, n_ch)
    )
    if rng.random() < 0.5:
        Phi = Phi.real.copy()
    Phi[np.isnan(Fn)] = np.nan
    Fn_cov = rng.uniform(0, 1e-3, (n_rows, n_ord))
    Xi_cov = rng.uniform(0, 1e-3, (n_rows, n_ord))
    Phi_cov = rng.uniform(0, 1e-3, (n_rows, n_ord, n_ch))
    for c in (Fn_cov, Xi_cov, Phi_cov):
        c[np.isnan(Fn)] = np.nan
    return f_true, Fn, Xi, Phi, Lab, Fn_cov, Xi_cov, Phi_cov


def make_requests(rng, f_true, Fn):
    """Ascending requested frequencies with non overlapping bands."""
    n = int(rng.integers(1, len(f_true) + 1))
    idx = np.sort(rng.choice(len(f_true), n, replace=False))
    req = [float(f_true[i] * (1 + rng.choice([0.0, 1e-3, 1e-2, 8e-2]) * rng.standard_normal()))
           for i in idx]
    if rng.random() < 0.15:  # a frequency where there is no mode at all
        req.append(float(f_true[-1] + 3.0))
    return sorted(req)


def nonempty_orders(Fn):
    return [o for o in range(Fn.shape[1]) if not np.all(np.isnan(Fn[:, o]))]


def pick_order(rng, Fn, n_req, kind):
    good = nonempty_orders(Fn)
    if kind == "int":
        o = int(rng.choice(good))
        return o - Fn.shape[1] if rng.random() < 0.1 else o  # negative index too
    if kind == "list":
        return [int(o) for o in rng.choice(good, n_req)]
    return "find_min"


# ----------------------------------------------------------------------------
# 1. functions on structured tables
# ----------------------------------------------------------------------------
def run_functions(seed):
    rng = np.random.default_rng(seed)
    # --- SSI
    f_true, Fn, Xi, Phi, Lab, Fn_cov, Xi_cov, Phi_cov = make_table(rng, 1)
    if nonempty_orders(Fn):
        req = make_requests(rng, f_true, Fn)
        for kind in ("int", "list", "find_min"):
            for with_cov in (False, True):
                rtol = float(rng.choice([1e-3, 1e-2, 5e-2, 0.2]))
                order = pick_order(rng, Fn, len(req), kind)
                kw = dict(Lab=Lab, rtol=rtol)
                if with_cov:
                    kw.update(Fn_cov=Fn_cov, Xi_cov=Xi_cov, Phi_cov=Phi_cov)
                check(new_f_ssi.SSI_mpe, old_f_ssi.SSI_mpe,
                      (req, Fn, Xi, Phi, order), kw, f"SSI seed={seed} {kind} cov={with_cov}")
        # requests as ndarray / numpy scalars, Lab omitted
        check(new_f_ssi.SSI_mpe, old_f_ssi.SSI_mpe,
              (np.array(req), Fn, Xi, Phi, pick_order(rng, Fn, len(req), "list")),
              dict(rtol=0.05), f"SSI seed={seed} ndarray req")
    # --- pLSCF
    f_true, Fn, Xi, Phi, Lab, *_ = make_table(rng, 7)
    if nonempty_orders(Fn):
        req = make_requests(rng, f_true, Fn)
        for kind in ("int", "list", "find_min"):
            rtol = float(rng.choice([1e-3, 1e-2, 5e-2, 0.2]))
            order = pick_order(rng, Fn, len(req), kind)
            kw = dict(Lab=Lab, rtol=rtol)
            if rng.random() < 0.5:
                kw["deltaf"] = float(rng.choice([0.01, 0.05, 0.3, 1.0]))
            check(new_f_plscf.pLSCF_mpe, old_f_plscf.pLSCF_mpe,
                  (req, Fn, Xi, Phi, order), kw, f"pLSCF seed={seed} {kind}")
        # default order ("find_min") given by keyword only
        check(new_f_plscf.pLSCF_mpe, old_f_plscf.pLSCF_mpe,
              (req, Fn, Xi, Phi), dict(Lab=Lab), f"pLSCF seed={seed} default")


# ----------------------------------------------------------------------------
# 2. the shape of inputs used by the test-suite (uniform random tables)
# ----------------------------------------------------------------------------
def run_uniform(seed):
    rng = np.random.default_rng(1000 + seed)
    Fn = rng.random((10, 11))
    Xi = rng.random((10, 11))
    Phi = rng.random((10, 11, 3))
    Lab_s = rng.integers(0, 2, (10, 11))
    Lab_p = rng.choice([0, 7], (10, 11))
    req = sorted(rng.random(int(rng.integers(1, 4))).tolist())
    for order in (int(rng.integers(0, 11)), [int(o) for o in rng.integers(0, 11, len(req))],
                  "find_min"):
        check(new_f_ssi.SSI_mpe, old_f_ssi.SSI_mpe, (req, Fn, Xi, Phi, order),
              dict(Lab=Lab_s, rtol=0.1), f"SSI uniform seed={seed} {order}")
        check(new_f_ssi.SSI_mpe, old_f_ssi.SSI_mpe, (req, Fn, Xi, Phi, order),
              dict(Lab=Lab_s, rtol=0.1, Fn_cov=Fn * 0.1, Xi_cov=Xi * 0.1, Phi_cov=Phi * 0.1),
              f"SSI uniform cov seed={seed} {order}")
        check(new_f_plscf.pLSCF_mpe, old_f_plscf.pLSCF_mpe, (req, Fn, Xi, Phi, order),
              dict(Lab=Lab_p, rtol=0.1, deltaf=0.1), f"pLSCF uniform seed={seed} {order}")


# ----------------------------------------------------------------------------
# 3. error paths and corner cases (must fail / behave in the same way)
# ----------------------------------------------------------------------------
def run_corner(seed):
    rng = np.random.default_rng(2000 + seed)
    f_true, Fn, Xi, Phi, Lab, Fn_cov, Xi_cov, Phi_cov = make_table(rng, 1)
    req = make_requests(rng, f_true, Fn)
    Fn_nan = Fn.copy()
    Fn_nan[:, 0] = np.nan
    cases = [
        ((req, Fn, Xi, Phi, "find_min"), dict(Lab=None)),  # missing Lab
        ((req, Fn, Xi, Phi, 1.5), dict(Lab=Lab)),  # wrong type of order
        ((req, Fn, Xi, Phi, None), dict(Lab=Lab)),
        ((req, Fn, Xi, Phi, (0, 1)), dict(Lab=Lab)),
        ((req, Fn_nan, Xi, Phi, 0), dict(Lab=Lab)),  # all-NaN order
        ((req, Fn_nan, Xi, Phi, [0] * len(req)), dict(Lab=Lab)),
        ((req, Fn, Xi, Phi, Fn.shape[1] + 3), dict(Lab=Lab)),  # order out of range
        ((req, Fn, Xi, Phi, [0]), dict(Lab=Lab)),  # list (possibly) too short
        ((req, Fn, Xi, Phi, [1] * (len(req) + 2)), dict(Lab=Lab)),  # list too long
        (([], Fn, Xi, Phi, 1), dict(Lab=Lab)),  # nothing requested
        (([], Fn, Xi, Phi, []), dict(Lab=Lab)),
        (([], Fn, Xi, Phi, "find_min"), dict(Lab=Lab)),
        ((req[::-1], Fn, Xi, Phi, "find_min"), dict(Lab=Lab, rtol=0.05)),  # descending
        ((req, Fn, Xi, Phi, "find_min"), dict(Lab=np.zeros_like(Lab))),  # no stable pole
        ((req, Fn, Xi, Phi, "find_min"), dict(Lab=np.ones_like(Lab), rtol=0.5)),
    ]
    for k, (a, kw) in enumerate(cases):
        check(new_f_ssi.SSI_mpe, old_f_ssi.SSI_mpe, a, kw, f"SSI corner seed={seed} #{k}")
        kw_c = dict(kw, Fn_cov=Fn_cov, Xi_cov=Xi_cov, Phi_cov=Phi_cov)
        check(new_f_ssi.SSI_mpe, old_f_ssi.SSI_mpe, a, kw_c, f"SSI corner cov seed={seed} #{k}")
        kw_p = dict(kw)
        if kw_p.get("Lab") is not None:
            kw_p["Lab"] = kw_p["Lab"] * 7
        check(new_f_plscf.pLSCF_mpe, old_f_plscf.pLSCF_mpe, a, kw_p,
              f"pLSCF corner seed={seed} #{k}")


# ----------------------------------------------------------------------------
# 4. through the algorithm class (SSIdat.mpe / SSIcov.mpe)
# ----------------------------------------------------------------------------
RES_FIELDS = ("Fn", "Xi", "Phi", "order_out", "Fn_cov", "Xi_cov", "Phi_cov",
              "Fn_poles", "Xi_poles", "Phi_poles", "Lab",
              "Fn_poles_cov", "Xi_poles_cov", "Phi_poles_cov")


def run_class(seed):
    rng = np.random.default_rng(3000 + seed)
    f_true, Fn, Xi, Phi, Lab, Fn_cov, Xi_cov, Phi_cov = make_table(rng, 1)
    if not nonempty_orders(Fn):
        return
    req = make_requests(rng, f_true, Fn)
    with_cov = rng.random() < 0.5
    for cls_name in ("SSIdat", "SSIcov"):
        for kind in ("int", "list", "find_min"):
            order = pick_order(rng, Fn, len(req), kind)
            rtol = float(rng.choice([1e-2, 5e-2, 0.2]))
            outs = []
            for mod in (new_a_ssi, old_a_ssi):
                alg = getattr(mod, cls_name)(run_params=SSIRunParams(br=10))
                kw = dict(Fn_poles=Fn.copy(), Xi_poles=Xi.copy(), Phi_poles=Phi.copy(),
                          Lab=Lab.copy())
                if with_cov:
                    kw.update(Fn_poles_cov=Fn_cov.copy(), Xi_poles_cov=Xi_cov.copy(),
                              Phi_poles_cov=Phi_cov.copy())
                alg.result = SSIResult(**kw)
                r = call(alg.mpe, sel_freq=list(req), order=order, rtol=rtol)
                state = tuple(getattr(alg.result, f) for f in RES_FIELDS)
                rp = (alg.run_params.sel_freq, alg.run_params.order_in, alg.run_params.rtol)
                outs.append((r, state, rp))
            (r_n, s_n, p_n), (r_o, s_o, p_o) = outs
            label = f"class {cls_name} seed={seed} {kind}"
            assert r_n[0] == r_o[0], (label, r_n, r_o)
            if r_n[0] == "exc":
                assert r_n[1:] == r_o[1:], (label, r_n, r_o)
            else:
                same(r_n[1], r_o[1], label + ":ret")
            same(s_n, s_o, label + ":result")
            same(p_n, p_o, label + ":run_params")
    # not run yet -> same error
    outs = []
    for mod in (new_a_ssi, old_a_ssi):
        alg = mod.SSIdat(run_params=SSIRunParams(br=10))
        outs.append(call(alg.mpe, sel_freq=req, order=1))
    assert outs[0] == outs[1] and outs[0][0] == "exc", outs


if __name__ == "__main__":
    N_SEEDS = 60
    for s in range(N_SEEDS):
        run_functions(s)
        run_uniform(s)
        run_class(s)
    for s in range(10):
        run_corner(s)
    print(f"compared {N_OK} identical results and {N_EXC} identical exceptions "
          f"(plus {N_SEEDS} x 6 class-level runs)")
    print("PASS")
