"""
Differential test: the modified tree (CLEAN version) against the pristine
implementation saved next to this file as orig_functions_ssi.py and
orig_algorithms_ssi.py.

Run as:  PYTHONPATH=<tree>/src /venv/bin/python equiv.py
Prints PASS and exits 0 when every output (and every raised exception) agrees.
"""

import importlib.util
import logging
import os
import sys
import warnings

import numpy as np

warnings.filterwarnings("ignore")
logging.disable(logging.CRITICAL)

HERE = os.path.dirname(os.path.abspath(__file__))

import pyoma2.algorithms  # noqa: E402,F401  (package context for the relative import)
from pyoma2.algorithms import ssi as new_alg  # noqa: E402
from pyoma2.functions import ssi as new_fn  # noqa: E402
from pyoma2.setup import SingleSetup  # noqa: E402


def _load(name, fname):
    spec = importlib.util.spec_from_file_location(name, os.path.join(HERE, fname))
    mod = importlib.util.module_from_spec(spec)
    sys.modules[name] = mod
    spec.loader.exec_module(mod)
    return mod


old_fn = _load("pyoma2.functions.orig_ssi", "orig_functions_ssi.py")
old_alg = _load("pyoma2.algorithms.orig_ssi", "orig_algorithms_ssi.py")
old_alg.ssi = old_fn  # the pristine classes call the pristine routines

for mod in (new_fn, old_fn):
    mod.trange = lambda *a, **k: range(*a)
    mod.tqdm = lambda it, *a, **k: it

N_CMP = 0
FAILS = []
RAISED = []  # calls where an implementation raised (shown with -v)


def same(a, b, path):
    """Recursive comparison; arrays with allclose(rtol=1e-12, equal_nan=True)."""
    global N_CMP
    N_CMP += 1
    if a is None or b is None:
        if not (a is None and b is None):
            FAILS.append(f"{path}: None vs not None")
        return
    if isinstance(a, (list, tuple)) and isinstance(b, (list, tuple)):
        if len(a) != len(b):
            FAILS.append(f"{path}: length {len(a)} vs {len(b)}")
            return
        for i, (x, y) in enumerate(zip(a, b)):
            same(x, y, f"{path}[{i}]")
        return
    if isinstance(a, dict) and isinstance(b, dict):
        if set(a) != set(b):
            FAILS.append(f"{path}: keys differ")
            return
        for k in a:
            same(a[k], b[k], f"{path}.{k}")
        return
    if isinstance(a, str) or isinstance(b, str):
        if a != b:
            FAILS.append(f"{path}: {a!r} vs {b!r}")
        return
    a, b = np.asarray(a), np.asarray(b)
    if a.shape != b.shape:
        FAILS.append(f"{path}: shape {a.shape} vs {b.shape}")
    elif a.dtype.kind != b.dtype.kind:
        FAILS.append(f"{path}: dtype {a.dtype} vs {b.dtype}")
    elif not (
        np.array_equal(a, b, equal_nan=True)
        or np.allclose(a, b, rtol=1e-12, atol=0.0, equal_nan=True)
    ):
        FAILS.append(f"{path}: values differ, max abs diff {np.nanmax(np.abs(a - b)):.3e}")


def both(path, f_old, f_new):
    """Call both implementations; compare the outputs or the exception classes."""
    try:
        r_old = f_old()
        e_old = None
    except Exception as e:  # noqa: BLE001
        r_old, e_old = None, e
    try:
        r_new = f_new()
        e_new = None
    except Exception as e:  # noqa: BLE001
        r_new, e_new = None, e
    if e_old is not None or e_new is not None:
        if type(e_old) is not type(e_new):
            FAILS.append(f"{path}: exception {e_old!r} vs {e_new!r}")
        RAISED.append(f"{path}: {type(e_old).__name__} / {type(e_new).__name__}")
        return None, None
    same(r_old, r_new, path)
    return r_old, r_new


def response(rng, nch, ndat, fs):
    """Random multi-mode response plus measurement noise, (nch, ndat)."""
    m = int(rng.integers(1, 5))
    t = np.arange(ndat) / fs
    y = np.zeros((nch, ndat))
    for _ in range(m):
        f = rng.uniform(0.03, 0.4) * fs
        xi = rng.uniform(0.002, 0.05)
        shape = rng.normal(size=(nch, 1))
        force = rng.normal(size=ndat)
        h = np.exp(-xi * 2 * np.pi * f * t[:200]) * np.sin(2 * np.pi * f * t[:200])
        y += shape * np.convolve(force, h)[:ndat]
    return y + 0.05 * np.std(y) * rng.normal(size=y.shape)


def random_ref(rng, nch):
    kind = rng.integers(0, 4)
    if kind == 0:
        return None
    k = int(rng.integers(1, nch + 1))
    ref = rng.permutation(nch)[:k]
    if kind == 1:
        ref = np.sort(ref)
    return [int(i) for i in ref]


def dump(res):
    return {k: getattr(res, k) for k in type(res).model_fields}


def main():
    rng = np.random.default_rng(7)
    fs = 100.0
    n_cfg = 0

    # ---- routines -------------------------------------------------------
    for it in range(30):
        nch = int(rng.integers(1, 7))
        ndat = int(rng.integers(300, 900))
        br = int(rng.integers(2, 12))
        Y = response(rng, nch, ndat, fs)
        if it % 7 == 3:  # integer records are converted like before
            Y = np.round(1000 * Y / np.max(np.abs(Y))).astype(int)
        ref = random_ref(rng, nch)
        Yref = Y if ref is None else Y[ref, :]
        method = ["cov_mm", "dat", "cov_R", "cov_mm"][it % 4]
        calc_unc = bool(it % 4 == 3 and nch <= 3 and br <= 5)
        nb = int(rng.integers(5, 20))
        tag = f"routines#{it}(l={nch},r={Yref.shape[0]},br={br},{method},unc={calc_unc})"
        r_old, r_new = both(
            tag + ".build_hank",
            lambda: old_fn.build_hank(Y, Yref, br, method, calc_unc=calc_unc, nb=nb),
            lambda: new_fn.build_hank(Y, Yref, br, method, calc_unc=calc_unc, nb=nb),
        )
        n_cfg += 1
        if r_old is None:
            FAILS.append(tag + ": build_hank raised on a valid input")
            continue
        H, T = r_old
        top = min(H.shape[1], H.shape[0] - nch)
        ordmax = int(rng.integers(1, min(top, 30) + 1))
        if calc_unc:
            ordmax = min(ordmax, 6)
        step = 1 if it % 5 else 2
        o_old, o_new = both(
            tag + ".SSI_fast",
            lambda: old_fn.SSI_fast(H, br, ordmax, step=step, calc_unc=calc_unc, T=T, nb=nb),
            lambda: new_fn.SSI_fast(H, br, ordmax, step=step, calc_unc=calc_unc, T=T, nb=nb),
        )
        l_old, l_new = both(
            tag + ".SSI",
            lambda: old_fn.SSI(H, br, ordmax, step),
            lambda: new_fn.SSI(H, br, ordmax, step),
        )
        if step == 1 and o_old is not None:
            both(
                tag + ".SSI_poles(fast)",
                lambda: old_fn.SSI_poles(
                    o_old[0], o_old[1], o_old[2], ordmax, 1 / fs, calc_unc=calc_unc,
                    Q1=o_old[3], Q2=o_old[4], Q3=o_old[5], Q4=o_old[6],
                ),
                lambda: new_fn.SSI_poles(
                    o_new[0], o_new[1], o_new[2], ordmax, 1 / fs, calc_unc=calc_unc,
                    Q1=o_new[3], Q2=o_new[4], Q3=o_new[5], Q4=o_new[6],
                ),
            )
            both(
                tag + ".SSI_poles(legacy)",
                lambda: old_fn.SSI_poles(None, l_old[0], l_old[1], ordmax, 1 / fs),
                lambda: new_fn.SSI_poles(None, l_new[0], l_new[1], ordmax, 1 / fs),
            )

    # exceptions that existed before are kept
    Y = response(rng, 3, 300, fs)
    for method, unc in [("invalid", False), ("YfYp", True), ("dat", True), ("cov_R", True)]:
        both(
            f"build_hank({method},{unc})",
            lambda: old_fn.build_hank(Y, Y[:2], 4, method, calc_unc=unc),
            lambda: new_fn.build_hank(Y, Y[:2], 4, method, calc_unc=unc),
        )
        n_cfg += 1

    # ---- classes through a single setup --------------------------------------
    for it in range(24):
        nch = int(rng.integers(2, 7))
        ndat = int(rng.integers(400, 1200))
        br = int(rng.integers(3, 12))
        data = response(rng, nch, ndat, fs).T  # (ndat, nch)
        ref = random_ref(rng, nch)
        nref = nch if ref is None else len(ref)
        ordmax = int(rng.integers(4, min((br + 1) * nref, br * nch, 24) + 1))
        name = ["SSIcov", "SSIdat"][it % 2]
        kw = dict(br=br, ordmax=ordmax, ref_ind=ref, ordmin=int(rng.integers(0, 3)))
        if it % 6 == 4:
            kw["method"] = ["cov_R", "cov_mm", "dat"][(it // 6) % 3]
        if it % 8 == 5 and nch <= 3 and br <= 5:
            kw.update(calc_unc=True, nb=8, ordmax=min(ordmax, 6))
        if it % 3 == 0:
            kw["hc"] = dict(conj=bool(it % 2), xi_max=0.2, mpc_lim=0.5, mpd_lim=0.5, cov_max=0.3)
        tag = f"classes#{it}({name},l={nch},ref={ref},{kw})"
        algs = []
        for mod in (old_alg, new_alg):
            alg = getattr(mod, name)(name="a", **kw)
            ss = SingleSetup(data.copy(), fs=fs)
            ss.add_algorithms(alg)
            algs.append((ss, alg))
        both(
            tag + ".run",
            lambda: (algs[0][0].run_by_name("a"), dump(algs[0][1].result))[1],
            lambda: (algs[1][0].run_by_name("a"), dump(algs[1][1].result))[1],
        )
        n_cfg += 1
        res = algs[0][1].result
        if res is None:
            FAILS.append(tag + ": run raised on a valid configuration")
            continue
        # pick poles that exist at some order and extract them
        o = int(rng.integers(max(2, ordmax // 2), ordmax + 1))
        col = res.Fn_poles[:, o]
        col = np.unique(col[~np.isnan(col)])
        if len(col) == 0:
            continue
        sel = [float(f) for f in rng.permutation(col)[: int(rng.integers(1, 4))]]
        for order in (o, [o] * len(sel), "find_min"):
            both(
                tag + f".mpe(order={order})",
                lambda: (algs[0][0].mpe("a", sel_freq=sel, order=order, rtol=1e-2),
                         dump(algs[0][1].result), dump(algs[0][1].run_params))[1:],
                lambda: (algs[1][0].mpe("a", sel_freq=sel, order=order, rtol=1e-2),
                         dump(algs[1][1].result), dump(algs[1][1].run_params))[1:],
            )

    if FAILS:
        print("FAIL")
        for f in FAILS[:40]:
            print("  " + f)
        print(f"{len(FAILS)} difference(s), {n_cfg} configurations, {N_CMP} comparisons")
        return 1
    if "-v" in sys.argv:
        for r in RAISED:
            print("  raised in both: " + r)
    print(
        f"PASS ({n_cfg} configurations, {N_CMP} compared objects, "
        f"{len(RAISED)} calls raising the same exception in both)"
    )
    return 0


if __name__ == "__main__":
    sys.exit(main())
