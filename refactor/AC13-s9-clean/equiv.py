"""
Differential test: the library in the tree on PYTHONPATH (CLEAN version of the commit)
against the pristine sources saved next to this script (orig_fdd.py = functions/fdd.py,
orig_alg_fdd.py = algorithms/fdd.py at HEAD).

Run as:  PYTHONPATH=<tree>/src /venv/bin/python equiv.py
Prints PASS and exits 0 if all outputs (or raised exception types) agree.
"""
import importlib.util
import logging
import os
import sys
import warnings

import numpy as np

warnings.filterwarnings("ignore")
logging.disable(logging.CRITICAL)
os.environ.setdefault("TQDM_DISABLE", "1")

import pyoma2.algorithms  # noqa: E402,F401  (packages must exist for the relative imports)
import pyoma2.functions  # noqa: E402,F401
from pyoma2.algorithms import fdd as new_alg  # noqa: E402
from pyoma2.functions import fdd as new_fdd  # noqa: E402

HERE = os.path.dirname(os.path.abspath(__file__))


def load(name, fname):
    spec = importlib.util.spec_from_file_location(name, os.path.join(HERE, fname))
    mod = importlib.util.module_from_spec(spec)
    sys.modules[name] = mod
    spec.loader.exec_module(mod)
    return mod


old_fdd = load("pyoma2.functions._orig_fdd", "orig_fdd.py")
old_alg = load("pyoma2.algorithms._orig_alg_fdd", "orig_alg_fdd.py")
old_alg.fdd = old_fdd  # the pristine classes call the pristine functions

rng = np.random.default_rng(987654321)
failures = []
n_cases = 0


def outcome(fn):
    try:
        return ("ok", fn())
    except Exception as exc:  # noqa: BLE001
        return ("exc", type(exc))


def same(a, b, rtol=1e-12):
    a = np.asarray(a)
    b = np.asarray(b)
    if a.shape != b.shape:
        return False
    if np.array_equal(a, b, equal_nan=True):
        return True
    scale = np.nanmax(np.abs(b)) if b.size else 0.0
    return bool(np.allclose(a, b, rtol=rtol, atol=rtol * scale, equal_nan=True))


def compare(tag, r_old, r_new, rtol=1e-12):
    global n_cases
    n_cases += 1
    if r_old[0] != r_new[0]:
        failures.append(f"{tag}: old {r_old[0]} / new {r_new[0]} "
                        f"({r_old[1] if r_old[0] == 'exc' else ''}"
                        f"{r_new[1] if r_new[0] == 'exc' else ''})")
        return
    if r_old[0] == "exc":
        if r_old[1] is not r_new[1]:
            failures.append(f"{tag}: exception {r_old[1].__name__} became {r_new[1].__name__}")
        return
    for k, (a, b) in enumerate(zip(r_old[1], r_new[1])):
        if not same(b, a, rtol):
            failures.append(f"{tag}: output {k} differs")


def exact_fs():
    while True:
        fs = float(rng.choice([1.0, 10.0, 25.6, 50.0, 100.0, 128.0, 200.0, 256.0, 1000.0, 2048.0,
                               round(rng.uniform(1, 500), 2)]))
        if 1 / (1 / fs) == fs:
            return fs


POVS = [0.0, 0.25, 0.5, 0.75, 0.5, 0.5, 0.125, 0.3, 1 / 3, 0.66]

# ---------------------------------------------------------------------------
# SD_est: old positional / keyword dt forms, the new fs keyword, Yref=None
for case in range(60):
    n_all = int(rng.integers(1, 9))
    n_ref = int(rng.integers(1, 5))
    nxseg = int(rng.choice([16, 17, 31, 32, 64, 100, 125, 128, 255, 256, 333, 512, 1000, 1024,
                            int(rng.integers(16, 700))]))
    pov = float(rng.choice(POVS))
    method = str(rng.choice(["per", "cor"]))
    fs = float(rng.choice([1.0, 3.7, 48.0, 100.0, 123.456, 1000.0, rng.uniform(0.5, 5000)]))
    dt = 1 / fs
    if case % 10 == 9:
        Ndat = int(rng.integers(max(nxseg // 4, 8), nxseg))  # record shorter than a segment
    else:
        Ndat = int(rng.integers(2 * nxseg, 9 * nxseg))
    Yall = rng.standard_normal((n_all, Ndat)) * rng.uniform(0.01, 100, (n_all, 1)) + rng.normal()
    kind = case % 4
    if kind == 0:
        Yref = rng.standard_normal((n_ref, Ndat))
    elif kind == 1:
        idx = rng.permutation(n_all)[: min(n_ref, n_all)]
        Yref = Yall[idx]
    elif kind == 2:
        Yref = Yall
    else:
        Yref = np.asfortranarray(rng.standard_normal((Ndat, n_ref))).T  # non-contiguous view
    tag = f"SD_est[{case}] {method} nxseg={nxseg} pov={pov:.3f} fs={fs:.4g} n=({n_all},{n_ref},{Ndat})"

    r_old = outcome(lambda: old_fdd.SD_est(Yall, Yref, dt, nxseg, method, pov))
    compare(tag + " positional", r_old,
            outcome(lambda: new_fdd.SD_est(Yall, Yref, dt, nxseg, method, pov)))
    compare(tag + " keywords", r_old,
            outcome(lambda: new_fdd.SD_est(Yall, Yref, dt=dt, nxseg=nxseg, method=method, pov=pov)))
    compare(tag + " fs", r_old,
            outcome(lambda: new_fdd.SD_est(Yall, Yref, nxseg=nxseg, method=method, pov=pov, fs=fs)))
    if kind == 2:
        compare(tag + " Yref=None", r_old,
                outcome(lambda: new_fdd.SD_est(Yall, None, dt, nxseg, method=method, pov=pov)))
        compare(tag + " Yref omitted", r_old,
                outcome(lambda: new_fdd.SD_est(Yall, fs=fs, nxseg=nxseg, method=method, pov=pov)))
    # defaults (nxseg=1024, method="cor", pov=0.5) when the record is long enough
    if case % 6 == 0:
        Yl = rng.standard_normal((3, 3000))
        compare(tag + " defaults", outcome(lambda: old_fdd.SD_est(Yl, Yl[:2], dt)),
                outcome(lambda: new_fdd.SD_est(Yl, Yl[:2], dt)))

# inputs that make the pristine routine raise
Yg = rng.standard_normal((3, 400))
bad = [
    ("length mismatch", (Yg, rng.standard_normal((2, 399)), 0.01, 64, "per", 0.5)),
    ("length mismatch cor", (Yg, rng.standard_normal((2, 401)), 0.01, 64, "cor", 0.5)),
    ("1-D reference", (Yg, Yg[0], 0.01, 64, "per", 0.5)),
    ("1-D data", (Yg[0], Yg, 0.01, 64, "cor", 0.5)),
    ("unknown method", (Yg, Yg, 0.01, 64, "welch", 0.5)),
    ("pov = 1", (Yg, Yg, 0.01, 64, "per", 1.0)),
    ("pov > 1", (Yg, Yg, 0.01, 64, "per", 1.5)),
    ("nxseg = 0", (Yg, Yg, 0.01, 0, "per", 0.5)),
    ("list input", (Yg.tolist(), Yg, 0.01, 64, "per", 0.5)),
    ("dt = 0", (Yg, Yg, 0.0, 64, "cor", 0.5)),
]
for name, args in bad:
    compare("SD_est raises: " + name, outcome(lambda: old_fdd.SD_est(*args)),
            outcome(lambda: new_fdd.SD_est(*args)))

# ---------------------------------------------------------------------------
# SD_PreGER (multi-setup merge), positional and keyword call forms
for case in range(24):
    n_setup = int(rng.integers(1, 4))
    n_ref = int(rng.integers(1, 4))
    nxseg = int(rng.choice([32, 64, 100, 125, 128, 256, 333]))
    pov = float(rng.choice([0.0, 0.25, 0.5, 0.5, 0.75]))
    method = str(rng.choice(["per", "cor"]))
    fs = exact_fs() if case % 4 else float(rng.uniform(1, 900))
    Y = []
    for _ in range(n_setup):
        Ndat = int(rng.integers(30 * nxseg, 40 * nxseg))
        n_mov = int(rng.integers(1, 5))
        base = rng.standard_normal((2, Ndat))
        ref = rng.standard_normal((n_ref, 2)) @ base + 0.3 * rng.standard_normal((n_ref, Ndat))
        mov = rng.standard_normal((n_mov, 2)) @ base + 0.3 * rng.standard_normal((n_mov, Ndat))
        Y.append({"ref": ref, "mov": mov})
    tag = f"SD_PreGER[{case}] {method} nxseg={nxseg} pov={pov} fs={fs:.5g} setups={n_setup}"
    # fs that survives 1/(1/fs) exactly: strict tolerance; otherwise the one-ulp change of the
    # scale goes through a matrix inverse, compare at 1e-9
    rtol = 1e-12 if 1 / (1 / fs) == fs else 1e-9
    r_old = outcome(lambda: old_fdd.SD_PreGER(Y, fs, nxseg, pov, method))
    compare(tag, r_old, outcome(lambda: new_fdd.SD_PreGER(Y, fs, nxseg, pov, method)), rtol)
    compare(tag + " kw", r_old,
            outcome(lambda: new_fdd.SD_PreGER(Y, fs, nxseg=nxseg, method=method, pov=pov)), rtol)

# ---------------------------------------------------------------------------
# FDD.run through the algorithm class (single setup) and FDD_MS.run (multi setup)
def run_alg(mod, cls_name, data, fs, **params):
    alg = getattr(mod, cls_name)(name="x", **params)
    alg._set_data(data=data, fs=fs)
    res = alg.run()
    return res.freq, res.Sy, res.S_val, res.S_vec


for case in range(16):
    n_ch = int(rng.integers(2, 7))
    nxseg = int(rng.choice([64, 128, 250, 255, 512]))
    method = "per" if case % 3 else "cor"
    pov = float(rng.choice([0.0, 0.25, 0.5, 0.5, 0.75]))
    fs = exact_fs()
    Ndat = int(rng.integers(40 * nxseg, 50 * nxseg))
    data = rng.standard_normal((Ndat, 3)) @ rng.standard_normal((3, n_ch))
    data += 0.2 * rng.standard_normal((Ndat, n_ch))
    tag = f"FDD.run[{case}] {method} nxseg={nxseg} pov={pov} fs={fs}"
    params = dict(nxseg=nxseg, method_SD=method, pov=pov)
    compare(tag, outcome(lambda: run_alg(old_alg, "FDD", data, fs, **params)),
            outcome(lambda: run_alg(new_alg, "FDD", data, fs, **params)))
    compare(tag + " EFDD", outcome(lambda: run_alg(old_alg, "EFDD", data, fs, **params)),
            outcome(lambda: run_alg(new_alg, "EFDD", data, fs, **params)))

for case in range(6):
    nxseg = int(rng.choice([64, 128, 125]))
    method = "per" if case % 2 else "cor"
    fs = exact_fs()
    Y = []
    for _ in range(2):
        Ndat = 40 * nxseg
        base = rng.standard_normal((2, Ndat))
        Y.append({
            "ref": rng.standard_normal((2, 2)) @ base + 0.3 * rng.standard_normal((2, Ndat)),
            "mov": rng.standard_normal((3, 2)) @ base + 0.3 * rng.standard_normal((3, Ndat)),
        })
    params = dict(nxseg=nxseg, method_SD=method, pov=0.5)
    compare(f"FDD_MS.run[{case}] {method} nxseg={nxseg}",
            outcome(lambda: run_alg(old_alg, "FDD_MS", Y, fs, **params)),
            outcome(lambda: run_alg(new_alg, "FDD_MS", Y, fs, **params)))

print(f"{n_cases} comparisons")
if failures:
    print("FAIL")
    for f in failures[:40]:
        print("  " + f)
    sys.exit(1)
print("PASS")
sys.exit(0)
