"""
Equivalence check: refactored pyoma2 (worktree /tmp/wt/R03/src) against the
pristine HEAD copies in this directory (orig_ssi.py, orig_gen.py, orig_multi.py).

Run:  PYTHONPATH=/tmp/wt/R03/src /venv/bin/python /tmp/wt/R03/_refactor/equiv.py
Prints PASS and exits 0 when every comparison is identical.
"""
import importlib.util
import itertools
import logging
import os
import sys
import warnings

import numpy as np

os.environ.setdefault("TQDM_DISABLE", "1")
warnings.filterwarnings("ignore")
logging.disable(logging.CRITICAL)

HERE = os.path.dirname(os.path.abspath(__file__))


def _load(name, fname):
    spec = importlib.util.spec_from_file_location(name, os.path.join(HERE, fname))
    mod = importlib.util.module_from_spec(spec)
    sys.modules[name] = mod
    spec.loader.exec_module(mod)
    return mod


import pyoma2.functions.gen as new_gen  # noqa: E402
import pyoma2.functions.ssi as new_ssi  # noqa: E402
import pyoma2.setup.multi as new_multi  # noqa: E402
from pyoma2.algorithms import SSIcov_MS, SSIdat_MS  # noqa: E402

assert new_ssi.__file__.startswith("/tmp/wt/R03/src"), new_ssi.__file__

orig_gen = _load("orig_gen", "orig_gen.py")
orig_ssi = _load("orig_ssi", "orig_ssi.py")
orig_multi = _load("orig_multi", "orig_multi.py")
# orig_multi imported pre_multisetup from the (refactored) package: give it the original
orig_multi.pre_multisetup = orig_gen.pre_multisetup

# silence tqdm bars of both modules
for mod in (new_ssi, orig_ssi):
    mod.trange = lambda *a, **k: range(*a)

N_CHECKS = {"split": 0, "split_exc": 0, "ssi": 0, "ssi_exc": 0, "e2e": 0, "prep": 0}
BITWISE = {"ssi_equal": 0, "ssi_close_only": 0, "exc_text_differs(dot vs matmul)": 0}


# ----------------------------------------------------------------------------
def same_array(a, b, what, exact=True):
    a = np.asarray(a)
    b = np.asarray(b)
    assert a.shape == b.shape, (what, a.shape, b.shape)
    assert a.dtype == b.dtype, (what, a.dtype, b.dtype)
    if exact:
        assert np.array_equal(a, b, equal_nan=True), what
    else:
        assert np.allclose(a, b, rtol=1e-12, atol=1e-14, equal_nan=True), what


def outcome(fun, *args, **kwargs):
    try:
        return ("ok", fun(*args, **kwargs))
    except Exception as e:  # noqa: BLE001
        return ("exc", (type(e), str(e)))


def same_Y(Yn, Yo, what):
    assert type(Yn) is type(Yo) and len(Yn) == len(Yo), what
    for dn, do in zip(Yn, Yo):
        assert list(dn.keys()) == list(do.keys()) == ["ref", "mov"], what
        for k in ("ref", "mov"):
            same_array(dn[k], do[k], (what, k))
            assert dn[k].flags.c_contiguous == do[k].flags.c_contiguous, (what, k)
            assert dn[k].flags.f_contiguous == do[k].flags.f_contiguous, (what, k)


# ----------------------------------------------------------------------------
# 1. pre_multisetup: exhaustive split check, every channel count <= 6 and every
#    ordered reference subset (incl. empty and full subsets -> equal exceptions)
def check_split(rng):
    for nch in range(1, 7):
        data = rng.standard_normal((11, nch))
        data2 = rng.standard_normal((7, nch))
        for k in range(0, nch + 1):
            for refs in itertools.permutations(range(nch), k):
                refs = list(refs)
                rn = outcome(new_gen.pre_multisetup, [data, data2], [refs, refs[::-1]])
                ro = outcome(orig_gen.pre_multisetup, [data, data2], [refs, refs[::-1]])
                assert rn[0] == ro[0], (nch, refs, rn, ro)
                if rn[0] == "ok":
                    same_Y(rn[1], ro[1], ("split", nch, refs))
                    # semantic sanity: channels intact, refs in listed order, mov ascending
                    if 0 < k < nch:
                        assert np.array_equal(rn[1][0]["ref"], data[:, refs].T)
                        mov = [c for c in range(nch) if c not in refs]
                        assert np.array_equal(rn[1][0]["mov"], data[:, mov].T)
                    N_CHECKS["split"] += 1
                else:
                    assert rn[1] == ro[1], (nch, refs, rn, ro)
                    N_CHECKS["split_exc"] += 1
    # other input kinds and error paths
    d = rng.standard_normal((9, 5))
    cases = [
        ([d, d], [[0, 0], [1, 2]]),  # duplicate reference
        ([d, d], [[0, 7], [1, 2]]),  # out of range
        ([d, d], [[-1], [1]]),  # negative index
        ([d, d], [[0, 1]]),  # reflist shorter than dataList
        ([d], [[0, 1], [2, 3]]),  # reflist longer than dataList
        ([d, d], [np.array([3, 1]), (4, 0)]),  # ndarray / tuple index lists
        ([d, d[:, :3]], [[4, 2], [2, 0]]),  # different channel counts
        ([d[:, 0], d], [[0], [1]]),  # 1-D dataset
        ([], []),
        ([d.astype(np.float32), d.astype(int)], [[1], [0, 4]]),  # dtypes
        ([np.asfortranarray(d), d[::2]], [[2, 0], [3]]),  # memory layouts
    ]
    for dl, rl in cases:
        rn = outcome(new_gen.pre_multisetup, dl, rl)
        ro = outcome(orig_gen.pre_multisetup, dl, rl)
        assert rn[0] == ro[0], (rl, rn, ro)
        if rn[0] == "ok":
            same_Y(rn[1], ro[1], ("split-case", rl))
            N_CHECKS["split"] += 1
        else:
            assert rn[1] == ro[1], (rl, rn, ro)
            N_CHECKS["split_exc"] += 1


# ----------------------------------------------------------------------------
# random global system + multi-setup noise-free free-vibration data
def make_case(rng, noise=0.0):
    m = int(rng.integers(1, 6))  # modes
    n_setup = int(rng.integers(2, 5))
    n_ref = int(rng.integers(1, 4))
    n_movs = [int(rng.integers(1, 5)) for _ in range(n_setup)]
    n_dof = n_ref + sum(n_movs)
    fs = 100.0
    N = int(rng.integers(300, 600))
    fn = np.sort(rng.uniform(2.0, 35.0, m))
    while m > 1 and np.min(np.diff(fn)) < 1.0:
        fn = np.sort(rng.uniform(2.0, 35.0, m))
    xi = rng.uniform(0.005, 0.04, m)
    wn = 2 * np.pi * fn
    lam = -xi * wn + 1j * wn * np.sqrt(1 - xi**2)
    phi = rng.standard_normal((n_dof, m))
    t = np.arange(N) / fs
    datasets, ref_ind = [], []
    start = n_ref
    for s in range(n_setup):
        gain = 10.0 ** rng.uniform(-2, 2)
        amp = rng.uniform(0.5, 2.0, m) * np.exp(1j * rng.uniform(0, 2 * np.pi, m))
        dofs = list(range(n_ref)) + list(range(start, start + n_movs[s]))
        start += n_movs[s]
        resp = gain * np.real((phi[dofs, :] * amp) @ np.exp(np.outer(lam, t)))  # ch x N
        if noise:
            resp = resp + noise * np.std(resp) * rng.standard_normal(resp.shape)
        nch = len(dofs)
        # place the references anywhere in the channel list, in any order
        ref_pos = [int(c) for c in rng.permutation(nch)[:n_ref]]
        mov_pos = [c for c in range(nch) if c not in ref_pos]
        data = np.empty((N, nch))
        for j, c in enumerate(ref_pos):
            data[:, c] = resp[j]
        for j, c in enumerate(mov_pos):
            data[:, c] = resp[n_ref + j]
        datasets.append(data)
        ref_ind.append(ref_pos)
    return dict(m=m, fs=fs, fn=fn, xi=xi, phi=phi, datasets=datasets, ref_ind=ref_ind,
                n_ref=n_ref, n_movs=n_movs)


def compare_ssi(rn, ro, what):
    assert rn[0] == ro[0], (what, rn, ro)
    if rn[0] == "exc":
        # same exception class; the text of numpy's shape-mismatch ValueError differs
        # between np.dot ("shapes ... not aligned") and @ ("matmul: ... mismatch"),
        # which only happens for invalid input (ordmax > size of the Hankel matrix)
        assert rn[1][0] is ro[1][0], (what, rn, ro)
        if rn[1][1] != ro[1][1]:
            assert rn[1][0] is ValueError and "matmul" in rn[1][1] and "aligned" in ro[1][1]
            BITWISE["exc_text_differs(dot vs matmul)"] += 1
        N_CHECKS["ssi_exc"] += 1
        return
    (On, An, Cn), (Oo, Ao, Co) = rn[1], ro[1]
    assert type(An) is type(Ao) is list and type(Cn) is type(Co) is list
    assert len(An) == len(Ao) and len(Cn) == len(Co), what
    arrays = [(On, Oo)] + list(zip(An, Ao)) + list(zip(Cn, Co))
    for a, b in arrays:
        same_array(a, b, what, exact=False)
    if all(np.array_equal(a, b, equal_nan=True) for a, b in arrays):
        BITWISE["ssi_equal"] += 1
    else:
        BITWISE["ssi_close_only"] += 1
    N_CHECKS["ssi"] += 1


# 2. SSI_multi_setup on the property's quantifier (+ some out-of-quantifier inputs)
def check_ssi(rng, n_cases=40):
    for ic in range(n_cases):
        case = make_case(rng, noise=0.0 if ic % 4 else 0.05)
        Y = orig_gen.pre_multisetup(case["datasets"], case["ref_ind"])
        m = case["m"]
        br_min = int(np.ceil(2 * m / case["n_ref"])) + 1
        for method in ("cov_mm", "dat", "cov_R"):
            br = br_min + int(rng.integers(0, 4))
            ordmax = 2 * m + int(rng.choice([0, 0, 1, 2, 5]))
            step = int(rng.choice([1, 1, 2, 3]))
            args = (Y, case["fs"], br, ordmax, method)
            rn = outcome(new_ssi.SSI_multi_setup, *args, step=step)
            ro = outcome(orig_ssi.SSI_multi_setup, *args, step=step)
            compare_ssi(rn, ro, ("ssi", ic, method, br, ordmax, step))
            if rn[0] == "ok":
                Obs = rn[1][0]
                n_dof = case["n_ref"] + sum(case["n_movs"])
                assert Obs.shape == (n_dof * br, ordmax)
    # error / edge paths: identical exceptions
    case = make_case(rng)
    Y = orig_gen.pre_multisetup(case["datasets"], case["ref_ind"])
    Y_nomov = [dict(ref=y["ref"], mov=y["mov"][:0]) for y in Y]
    Y_refdiff = [dict(ref=y["ref"][: 1 + (i % 2)], mov=y["mov"]) for i, y in enumerate(Y)]
    edge = [
        (Y, 100.0, 6, 10_000, "cov_mm"),  # ordmax larger than the Hankel matrix
        (Y, 100.0, 6, 4, "nonsense"),  # unknown method
        (Y, 100.0, 1, 2, "cov_mm"),  # a single block row
        (Y, 100.0, 0, 2, "cov_mm"),
        (Y, 100.0, 6, 0, "dat"),
        (Y_nomov, 100.0, 6, 4, "cov_mm"),  # setups without moving sensors
        (Y_refdiff, 100.0, 6, 4, "cov_mm"),  # different number of refs
        ([], 100.0, 6, 4, "cov_mm"),
        (Y[:1], 100.0, 6, 2 * case["m"], "dat"),  # single setup
    ]
    for args in edge:
        rn = outcome(new_ssi.SSI_multi_setup, *args)
        ro = outcome(orig_ssi.SSI_multi_setup, *args)
        compare_ssi(rn, ro, ("ssi-edge", args[2:]))


# ----------------------------------------------------------------------------
# 3. end to end through MultiSetup_PreGER (new: refactored everything;
#    orig: original multi.py + original pre_multisetup + original SSI_multi_setup)
def run_pipeline(which, case, br, algo_cls, prep):
    import pyoma2.algorithms.ssi as alg_ssi

    assert alg_ssi.ssi is new_ssi
    saved = new_ssi.SSI_multi_setup
    cls = new_multi.MultiSetup_PreGER if which == "new" else orig_multi.MultiSetup_PreGER
    if which == "orig":
        new_ssi.SSI_multi_setup = orig_ssi.SSI_multi_setup
    try:
        datasets = [d.copy() for d in case["datasets"]]
        ref_ind = [list(r) for r in case["ref_ind"]]
        ms = cls(fs=case["fs"], ref_ind=ref_ind, datasets=datasets)
        state = [(ms.dt, ms.Nsetup, list(ms.Nchs), list(ms.Ndats), list(ms.Ts))]
        datas = [ms.data]
        if prep == "detrend":
            ms.detrend_data()
        elif prep == "filter":
            ms.filter_data(Wn=45.0, order=4, btype="lowpass")
        elif prep == "decimate":
            ms.decimate_data(q=2)
        elif prep == "rollback":
            ms.detrend_data()
            ms.rollback()
        datas.append(ms.data)
        state.append((ms.fs, ms.dt, list(ms.Nchs), list(ms.Ndats), list(ms.Ts)))
        m = case["m"]
        alg = algo_cls(name="alg", br=br, ordmax=2 * m)
        ms.add_algorithms(alg)
        ms.run_all()
        res = ms["alg"].result
        poles = (res.Obs, res.Fn_poles, res.Xi_poles, res.Phi_poles, res.Lab)
        mpe = None
        if prep != "decimate":
            ms.mpe("alg", sel_freq=list(case["fn"]), order=2 * m)
            res = ms["alg"].result
            mpe = (res.Fn, res.Xi, res.Phi)
        return state, datas, list(res.A), list(res.C), poles, mpe
    finally:
        new_ssi.SSI_multi_setup = saved


def check_e2e(rng, n_cases=24):
    preps = [None, "detrend", "filter", "decimate", "rollback", None]
    n_good = 0
    for ic in range(n_cases):
        case = make_case(rng)
        m = case["m"]
        br = int(np.ceil(2 * m / case["n_ref"])) + 1 + int(rng.integers(0, 3))
        algo_cls = (SSIcov_MS, SSIdat_MS)[ic % 2]
        prep = preps[ic % len(preps)]
        rn = outcome(run_pipeline, "new", case, br, algo_cls, prep)
        ro = outcome(run_pipeline, "orig", case, br, algo_cls, prep)
        what = ("e2e", ic, algo_cls.__name__, prep)
        assert rn[0] == ro[0], (what, rn, ro)
        if rn[0] == "exc":
            assert rn[1] == ro[1], (what, rn, ro)
            continue
        sn, dn, An, Cn, pn, mn = rn[1]
        so, do, Ao, Co, po, mo = ro[1]
        assert sn == so, (what, sn, so)
        for a, b in zip(dn, do):
            same_Y(a, b, what)
            N_CHECKS["prep"] += 1
        for a, b in zip(An + Cn + list(pn), Ao + Co + list(po)):
            same_array(a, b, what, exact=False)
        assert (mn is None) == (mo is None)
        if mn is not None:
            for a, b in zip(mn, mo):
                same_array(a, b, what, exact=False)
            # sanity: on un-preprocessed noise-free data the property itself holds
            if prep in (None, "rollback"):
                Fn, Xi, Phi = mn
                ok = np.allclose(Fn, case["fn"], rtol=1e-6) and np.allclose(
                    Xi, case["xi"], rtol=1e-4
                )
                mac = [
                    abs(np.vdot(Phi[:, k], case["phi"][:, k])) ** 2
                    / (np.vdot(Phi[:, k], Phi[:, k]).real
                       * np.dot(case["phi"][:, k], case["phi"][:, k]))
                    for k in range(m)
                ]
                n_good += bool(ok and min(mac) > 1 - 1e-6)
        N_CHECKS["e2e"] += 1
    return n_good


if __name__ == "__main__":
    rng = np.random.default_rng(20261003)
    check_split(rng)
    check_ssi(rng)
    n_good = check_e2e(rng)
    print("checks:", N_CHECKS)
    print("SSI_multi_setup bitwise-identical / only-allclose(1e-12):", BITWISE)
    print("e2e runs (no preprocessing) where the property itself was also confirmed:", n_good)
    print("PASS")
