"""Differential test: CLEAN version vs the unmodified library (orig_gen.py / orig_multi.py).

Run as:  PYTHONPATH=<tree>/src /venv/bin/python equiv.py
Compares gen.pre_multisetup, MultiSetup_PreGER (.data after construction and after every
preprocessing step / rollback) and the PreGER SSI results obtained through them, on randomly
generated inputs; exceptions are compared by type.
"""
import importlib.util
import logging
import os
import sys
import warnings

import numpy as np

os.environ.setdefault("TQDM_DISABLE", "1")
warnings.filterwarnings("ignore")
logging.disable(logging.CRITICAL)

HERE = os.path.dirname(os.path.abspath(__file__))


def load(name, fname):
    spec = importlib.util.spec_from_file_location(name, os.path.join(HERE, fname))
    mod = importlib.util.module_from_spec(spec)
    sys.modules[name] = mod
    spec.loader.exec_module(mod)
    return mod


from pyoma2.algorithms import SSIcov_MS, SSIdat_MS  # noqa: E402
from pyoma2.functions import gen as new_gen  # noqa: E402
from pyoma2.setup import multi as new_multi  # noqa: E402

orig_gen = load("orig_gen", "orig_gen.py")
orig_multi = load("orig_multi", "orig_multi.py")
# the pristine setup class must use the pristine split
orig_multi.pre_multisetup = orig_gen.pre_multisetup

problems = []
counts = {"split": 0, "split_exc": 0, "setup": 0, "ssi": 0}


def same(a, b):
    a, b = np.asarray(a), np.asarray(b)
    if a.shape != b.shape:
        return False
    return np.array_equal(a, b) or np.allclose(a, b, rtol=1e-12, atol=0.0, equal_nan=True)


def call(f, *args, **kw):
    try:
        return ("ok", f(*args, **kw))
    except Exception as e:  # noqa: BLE001
        return ("exc", type(e))


def same_Y(Ya, Yb):
    if len(Ya) != len(Yb):
        return False
    for a, b in zip(Ya, Yb):
        if list(a.keys()) != list(b.keys()):
            return False
        for k in a:
            if a[k].dtype != b[k].dtype or not same(a[k], b[k]):
                return False
    return True


def rand_layout(rng, n_setup, n_ref, as_kind):
    data, refs = [], []
    for _ in range(n_setup):
        n_mov = int(rng.integers(1, 5))
        n_ch = n_ref + n_mov
        N = int(rng.integers(30, 80))
        dtype = rng.choice([np.float64, np.float32, np.int64])
        y = (rng.standard_normal((N, n_ch)) * 10 ** rng.uniform(-2, 2)).astype(dtype)
        ref = rng.permutation(n_ch)[:n_ref]
        if as_kind == 0:
            ref = [int(j) for j in ref]
        elif as_kind == 1:
            ref = np.array(ref)
        elif as_kind == 2:
            ref = [np.int64(j) for j in ref]
        else:
            ref = tuple(int(j) for j in ref)
        data.append(y)
        refs.append(ref)
    return data, refs


def test_split(rng):
    # valid layouts
    for it in range(200):
        data, refs = rand_layout(rng, int(rng.integers(1, 5)), int(rng.integers(1, 4)), it % 4)
        a = call(orig_gen.pre_multisetup, data, refs)
        b = call(new_gen.pre_multisetup, data, refs)
        c = call(new_gen.pre_multisetup, data, refs, None)
        d = call(new_gen.pre_multisetup, data, refs, movlist=[None] * len(data))
        counts["split"] += 1
        for other in (b, c, d):
            if a[0] != other[0] or (a[0] == "ok" and not same_Y(a[1], other[1])) or (
                a[0] == "exc" and a[1] is not other[1]
            ):
                problems.append(f"pre_multisetup differs for refs={refs}: {a[0]} vs {other[0]}")
    # invalid reference lists -> same exception type
    y = rng.standard_normal((20, 4))
    bad = [
        [[0, 0]],  # twice
        [[4]],  # does not exist
        [[-1]],  # negative
        [[0, 1, 2, 3]],  # nothing left to rove
        [[1, 7]],
        [[2, 1, 2]],
        [[0, 1, 2, 3, 0]],
    ]
    for refs in bad:
        a = call(orig_gen.pre_multisetup, [y], refs)
        b = call(new_gen.pre_multisetup, [y], refs)
        counts["split_exc"] += 1
        if a != b:
            problems.append(f"pre_multisetup exception differs for refs={refs}: {a} vs {b}")
    # too few reference lists
    a = call(orig_gen.pre_multisetup, [y, y], [[0]])
    b = call(new_gen.pre_multisetup, [y, y], [[0]])
    counts["split_exc"] += 1
    if a != b:
        problems.append(f"pre_multisetup exception differs for a short reflist: {a} vs {b}")


def smooth_data(rng, N, n_ch):
    t = np.arange(N) / 50.0
    f = rng.uniform(0.5, 8.0, 3)
    q = np.array([np.sin(2 * np.pi * fk * t + rng.uniform(0, 6)) for fk in f]).T
    return q @ rng.standard_normal((3, n_ch)) + 0.05 * rng.standard_normal((N, n_ch))


def test_setup(rng):
    for it in range(24):
        n_setup = int(rng.integers(2, 5))
        n_ref = int(rng.integers(1, 4))
        data, refs = [], []
        for _ in range(n_setup):
            n_ch = n_ref + int(rng.integers(1, 5))
            data.append(smooth_data(rng, 400, n_ch))
            refs.append([int(j) for j in rng.permutation(n_ch)[:n_ref]])
        A = orig_multi.MultiSetup_PreGER(fs=50.0, ref_ind=refs, datasets=data)
        B = new_multi.MultiSetup_PreGER(fs=50.0, ref_ind=refs, datasets=data)
        counts["setup"] += 1

        def cmp(tag):
            ok = (
                same_Y(A.data, B.data)
                and A.fs == B.fs
                and A.dt == B.dt
                and A.Nchs == B.Nchs
                and A.Ndats == B.Ndats
                and A.Ts == B.Ts
                and A.ref_ind == B.ref_ind
                and all(same(x, y) for x, y in zip(A.datasets, B.datasets))
            )
            if not ok:
                problems.append(f"MultiSetup_PreGER differs {tag}, refs={refs}")

        cmp("after construction")
        steps = [
            ("detrend", lambda S: S.detrend_data()),
            ("filter", lambda S: S.filter_data(Wn=(1.0, 12.0), order=4, btype="bandpass")),
            ("decimate", lambda S: S.decimate_data(q=2)),
            ("rollback", lambda S: S.rollback()),
            ("detrend2", lambda S: S.detrend_data(type="constant")),
        ]
        for tag, f in steps:
            ra, rb = call(f, A), call(f, B)
            if ra[0] != rb[0] or (ra[0] == "exc" and ra[1] is not rb[1]):
                problems.append(f"MultiSetup_PreGER.{tag}: {ra} vs {rb}")
            cmp(f"after {tag}")

        # PreGER SSI through both objects (every third layout, both methods)
        if it % 3 == 0:
            for cls in (SSIcov_MS, SSIdat_MS):
                res = []
                for S in (A, B):
                    alg = cls(name=cls.__name__, br=10, ordmax=6)
                    S.add_algorithms(alg)
                    S.run_all()
                    res.append(S[cls.__name__].result)
                counts["ssi"] += 1
                for field in ("Obs", "Fn_poles", "Xi_poles", "Phi_poles", "Lab"):
                    if not same(getattr(res[0], field), getattr(res[1], field)):
                        problems.append(f"{cls.__name__}: result.{field} differs, refs={refs}")
                for k, (a, b) in enumerate(zip(res[0].A, res[1].A)):
                    if not same(a, b):
                        problems.append(f"{cls.__name__}: A[{k}] differs, refs={refs}")
                        break

    # invalid reference lists at the setup level
    y = smooth_data(rng, 100, 4)
    for refs in ([[0, 0], [0, 1]], [[0, 4], [0, 1]], [[0, 1, 2, 3], [0, 1, 2, 3]]):
        a = call(orig_multi.MultiSetup_PreGER, fs=50.0, ref_ind=refs, datasets=[y, y])
        b = call(new_multi.MultiSetup_PreGER, fs=50.0, ref_ind=refs, datasets=[y, y])
        counts["setup"] += 1
        if a[0] != b[0] or (a[0] == "exc" and a[1] is not b[1]):
            problems.append(f"MultiSetup_PreGER(ref_ind={refs}): {a} vs {b}")


def main():
    rng = np.random.default_rng(20240603)
    test_split(rng)
    test_setup(rng)
    if problems:
        print("FAIL")
        for p in problems[:20]:
            print("  -", p)
        sys.exit(1)
    print(
        "PASS (pre_multisetup: {split} layouts + {split_exc} invalid; MultiSetup_PreGER: "
        "{setup} objects x 6 states; PreGER SSI runs compared: {ssi})".format(**counts)
    )
    sys.exit(0)


if __name__ == "__main__":
    main()
